"""C11: reusing saved module results.  Correspondence of the Gallina codecs / regenerate decisions with the
real from_json / to_json / regenerate_previous_results functions (JSON passes through the real orjson
dumps + loads), plus whole-object save -> regenerate -> save cycles on real results objects (rule
detection, NRPS/PKS domains, sideloaded areas, TTA) comparing JSON texts and the features added to
the record, with changed options between cycles and several PYTHONHASHSEED values in child processes."""
import hashlib
import math
import os
import subprocess
import sys
import types

import common
from common import err_code

PROP = 11
FN_NAME = {1: "HMMResult", 2: "NRPSPKSDomains", 3: "TTAResults", 4: "HmmerResults", 5: "HMMDetectionResults",
           6: "SideloadedResults", 7: "RuleDetectionResults", 9: "main.run_module",
           20: "AntismashResults.from_file", 21: "reuse_path", 22: "Record.strip_antismash_annotations"}


# ---------------------------------------------------------------- flat JSON encoding

def enc_float(x):
    if x == 0:
        return [3, 0, 0]
    if math.isinf(x) or math.isnan(x):
        raise ValueError("non-finite float")
    frac, exp = math.frexp(x)
    mant = int(frac * (1 << 53))
    exp -= 53
    while mant % 2 == 0:
        mant //= 2
        exp += 1
    return [3, mant, exp]


def enc_str(text):
    return [len(text)] + [ord(c) for c in text]


def enc(j):
    if j is None:
        return [0]
    if isinstance(j, bool):
        return [1, int(j)]
    if isinstance(j, int):
        return [2, j]
    if isinstance(j, float):
        return enc_float(j)
    if isinstance(j, str):
        return [4] + enc_str(j)
    if isinstance(j, (list, tuple)):
        out = [5, len(j)]
        for item in j:
            out += enc(item)
        return out
    if isinstance(j, dict):
        out = [6, len(j)]
        for key, val in j.items():
            if not isinstance(key, str):
                raise TypeError("non-string key")
            out += enc_str(key) + enc(val)
        return out
    raise TypeError(f"not JSON: {type(j)}")


def through_orjson(j):
    """ what a later run sees: the text written by the real serialiser, parsed by the real parser """
    from antismash.common import json as asjson
    return asjson.loads(asjson.dumps(j))


def dumps(j):
    from antismash.common import json as asjson
    return asjson.dumps(j)


def out_ok(j):
    return [0, 1] + enc(j)


def guarded(fn):
    try:
        return fn()
    except Exception as exc:  # pylint: disable=broad-except
        return [1, err_code(exc)]


# ---------------------------------------------------------------- generators of values

def gen_float(rng):
    r = rng.random()
    if r < 0.3:
        return round(rng.uniform(0, 500), 1)
    if r < 0.5:
        return rng.uniform(0, 500)          # all 17 digits
    if r < 0.8:
        return 10.0 ** -rng.randint(1, 40) * rng.choice([1.0, 2.5, 3.3])
    if r < 0.9:
        return float(rng.randint(0, 300))
    return rng.choice([0.0, -1.5, 1e-300, 123456.789, 5e-324])


class Labels:
    def __init__(self):
        sys.path.insert(0, os.path.join(common.VERIF, "translator"))
        import tables_defs  # type: ignore
        self.labels, self.classes = tables_defs.c14_label_index(common.REPO)
        self.common = ["PKS_KS", "PKS_AT", "ACP", "PCP", "PKS_KR", "PKS_DH", "AMP-binding", "Condensation_LCL",
                       "Thioesterase", "Epimerization", "LPG_synthase_C", "Beta_elim_lyase", "Trans-AT_docking",
                       "CAL_domain", "PP-binding", "Condensation_Starter", "TD", "nMT", "NRPS-COM_Nterm", "TIGR01720"]

    def pick(self, rng):
        r = rng.random()
        if r < 0.6:
            return rng.choice(self.common)
        return rng.choice(self.labels)


def gen_hmm_json(rng, labels, lo=0, hi=500, depth=0, malformed=True, name=None):
    """ the JSON of an HMMResult, optionally with the deviations a hand-edited / older file can have """
    start = rng.randint(lo, max(lo, hi - 2))
    end = rng.randint(start + 1, max(start + 1, hi))
    if rng.random() < 0.05:
        end = start if rng.random() < 0.5 else start + 1
    hit_id = name or (labels.pick(rng) if rng.random() < 0.8 else rng.choice(["x", "Clade_12", "Trans-AT-KS", "é", ""]))
    data = {"hit_id": hit_id, "query_start": start, "query_end": end, "evalue": gen_float(rng), "bitscore": gen_float(rng)}
    if depth < 3 and rng.random() < (0.45 if depth == 0 else 0.3):
        n = rng.choice([1, 1, 1, 2, 3])
        subs = []
        for _ in range(n):
            r = rng.random()
            sub_name = rng.choice(["Trans-AT-KS", "Iterative-KS", "Modular-KS", "Clade_3", "Hybrid-KS"])
            if not malformed or r < 0.8:      # inside the parent
                sub = gen_hmm_json(rng, labels, start, end, depth + 1, malformed, sub_name)
            elif r < 0.9:                     # touching the parent: no overlap
                sub = gen_hmm_json(rng, labels, end, end + 20, depth + 1, malformed, sub_name)
                if isinstance(sub.get("query_start"), int) and isinstance(sub.get("query_end"), int):
                    sub["query_start"] = end
                    sub["query_end"] = max(sub["query_end"], end + 1)
            else:                             # anywhere
                sub = gen_hmm_json(rng, labels, 0, 600, depth + 1, malformed, sub_name)
            subs.append(sub)
        data["internal_hits"] = subs
    elif rng.random() < 0.05:
        data["internal_hits"] = []
    if malformed:
        r = rng.random()
        if r < 0.04:
            del data[rng.choice(list(data))]
        elif r < 0.07:
            data[rng.choice(["query_start", "query_end", "evalue", "bitscore"])] = None
        elif r < 0.11:
            key = rng.choice(["query_start", "query_end"])
            data[key] = rng.choice([float(data[key]), data[key] + 0.75, -2.5, True])
        elif r < 0.15:
            data[rng.choice(["evalue", "bitscore"])] = rng.choice([0, 7, 300, True, -3])
        elif r < 0.18:
            items = list(data.items())
            rng.shuffle(items)
            data = dict(items)
    return data


def hmm_valid(data):
    for sub in data.get("internal_hits", []):
        if not (data["query_end"] > sub["query_start"] and sub["query_end"] > data["query_start"]):
            return False
        if not hmm_valid(sub):
            return False
    return True


# ---------------------------------------------------------------- fn 1: HMMResult

def impl_hmm(args):
    from antismash.common.hmmscan_refinement import HMMResult
    (j,) = args

    def work():
        first = HMMResult.from_json(through_orjson(j))
        saved = first.to_json()
        again = HMMResult.from_json(through_orjson(saved))
        if again != first or dumps(again.to_json()) != dumps(saved):
            return [7, 7]   # the regenerated value is not a fixed point: differs from every model output
        return out_ok(saved)
    return guarded(work)


# ---------------------------------------------------------------- fn 2: NRPS/PKS domains

def make_nrps_record(n_genes, rid="rec"):
    from antismash.common.secmet import Record
    from antismash.common.secmet.features import CDSFeature, SubRegion
    from antismash.common.secmet.locations import FeatureLocation
    record = Record("ACGT" * (450 * n_genes + 10))
    record.id = rid
    record.add_annotation("topology", "linear")
    cdss = []
    for i in range(n_genes):
        start = 10 + i * 1800
        cds = CDSFeature(FeatureLocation(start, start + 1500, 1 if i != 2 else -1), translation="M" + "A" * 499,
                         locus_tag=f"g{i}")
        record.add_cds_feature(cds)
        cdss.append(cds)
    record.add_subregion(SubRegion(FeatureLocation(0, len(record.seq)), tool="verif"))
    record.create_candidate_clusters()
    record.create_regions()
    return record, cdss


def gen_domains(rng, labels):
    from antismash.common.hmmscan_refinement import HMMResult
    shapes = [["PKS_KS", "PKS_AT", "PKS_KR", "ACP"], ["PKS_KS", "PKS_DH", "PKS_KR", "ACP", "PKS_KR"],
              ["Condensation_LCL", "AMP-binding", "PCP", "Epimerization"], ["AMP-binding", "PCP"],
              ["PKS_KS", "ACP", "ACP", "LPG_synthase_C", "Beta_elim_lyase"], ["PKS_KS"], ["ACP", "Thioesterase"],
              ["PKS_KS", "Trans-AT_docking", "ACP"], ["CAL_domain", "ACP"], ["PKS_AT", "ACP", "PKS_KS", "PKS_AT"],
              ["Condensation_Starter", "AMP-binding", "nMT", "PCP", "Thioesterase"], ["NRPS-COM_Nterm", "AMP-binding", "PCP"],
              ["PKS_KS", "ACP", "PKS_KR"], ["PKS_KR"], ["PKS_KS", "ACP", "ACP", "PKS_KR"]]
    if rng.random() < 0.7:
        names = list(rng.choice(shapes))
        if rng.random() < 0.4:
            names += list(rng.choice(shapes))
    else:
        names = [labels.pick(rng) for _ in range(rng.randint(0, 7))]
    names = names[:9]
    pos = sorted(rng.sample(range(0, 480, 10), len(names)))
    doms = []
    for name, start in zip(names, pos):
        dom = HMMResult(name, start, start + rng.randint(5, 9), gen_float(rng) if rng.random() < 0.5 else 1e-20,
                        round(rng.uniform(10, 300), rng.choice([1, 1, 3])))
        if name == "PKS_KS" and rng.random() < 0.6:
            sub = HMMResult(rng.choice(["Trans-AT-KS", "Trans-AT-KS", "Iterative-KS", "Modular-KS"]),
                            dom.query_start, dom.query_end, 1e-8, 33.3)
            if sub.hit_id == "Trans-AT-KS" and rng.random() < 0.5:
                sub.add_internal_hits([HMMResult("Clade_12", dom.query_start, dom.query_end, 1e-5, 20.0)])
            dom.add_internal_hits([sub])
        doms.append(dom)
    return doms


def gen_nrps_results(rng, labels, record, cdss):
    """ results as generate_domains builds them: modules per gene, merged across adjacent genes,
        one-component modules dropped, domains annotated on the record """
    from antismash.detection.nrps_pks_domains.domain_identification import NRPSPKSDomains, CDSResult
    from antismash.detection.nrps_pks_domains import module_identification as mi
    from antismash.common.hmmscan_refinement import HMMResult
    results = {}
    infos = []
    for cds in cdss:
        doms = gen_domains(rng, labels)
        if not doms:
            continue
        modules = mi.build_modules_for_cds(doms, cds.get_name())
        motifs = [HMMResult("C1_dual", 5, 15, 1e-3, 12.0)] if rng.random() < 0.3 else []
        results[cds] = CDSResult(doms, motifs, modules)
        infos.append(mi.CDSModuleInfo(cds, modules))
    for prev, cur in zip(infos, infos[1:]):
        if prev.cds.location.strand == cur.cds.location.strand == 1:
            mi.combine_modules(cur, prev)
    for res in results.values():
        res.modules = [m for m in res.modules if len(m.components) > 1]
    for cds, res in results.items():
        res.annotate_domains(record, cds)
    return NRPSPKSDomains(record.id, results)


def record_features(record):
    """ what the NRPS/PKS results added to a record, canonically """
    doms = sorted((str(d.location), d.domain or "", d.domain_id, tuple(d.subtypes), d.evalue, d.score, d.translation,
                   str(d.protein_location)) for d in record.get_antismash_domains())
    motifs = sorted((str(m.location), m.label, m.domain_id, m.evalue, m.score) for m in record.get_cds_motifs())
    modules = sorted((str(m.location), tuple(d.domain_id for d in m.domains), str(m.type), m.is_complete(),
                      m.is_starter_module(), m.is_final_module(), m.is_iterative()) for m in record.get_modules())
    quals = []
    for cds in record.get_cds_features():
        quals.append((cds.get_name(), tuple((d.name, d.label, d.start, d.end, d.evalue, d.bitscore, d.feature_name,
                                             tuple(sorted(d.get_predictions().items()))) for d in cds.nrps_pks.domains),
                      len(cds.motifs)))
    return [doms, motifs, modules, quals]


def mutate_nrps(rng, j):
    """ deviations from the saved form: other schema / record, unknown gene, edited modules """
    r = rng.random()
    what = "as_saved"
    names = list(j["cds_results"])
    mods = [(n, i) for n in names for i, _ in enumerate(j["cds_results"][n]["modules"])]
    if r < 0.45:
        return what
    if r < 0.50:
        j["schema_version"] = rng.choice([3, 5, None, 4.0, "4"])
        what = "schema"
    elif r < 0.53:
        del j["schema_version"]
        what = "schema"
    elif r < 0.58:
        j["record_id"] = rng.choice(["other", "", None, "rec "])
        what = "record_id"
    elif r < 0.62 and names:
        name = rng.choice(names)
        j["cds_results"] = {("gX" if k == name else k): v for k, v in j["cds_results"].items()}
        what = "unknown_gene"
    elif r < 0.72 and mods:
        n, i = rng.choice(mods)
        rng.shuffle(j["cds_results"][n]["modules"][i]["components"])
        what = "components_shuffled"
    elif r < 0.80 and mods:
        n, i = rng.choice(mods)
        comps = j["cds_results"][n]["modules"][i]["components"]
        extra = dict(rng.choice(comps))
        extra["domain"] = dict(extra["domain"])
        extra["domain"]["hit_id"] = rng.choice(["ACP", "PKS_KR", "NRPS-COM_Nterm", "Thioesterase", "PKS_AT", "unknown_x",
                                                "Trans-AT_docking", "PCP"])
        comps.insert(rng.randint(0, len(comps)), extra)
        what = "component_added"
    elif r < 0.85 and mods:
        n, i = rng.choice(mods)
        del j["cds_results"][n]["modules"][i]["first_in_cds"]
        what = "first_in_cds_missing"
    elif r < 0.88 and mods:
        n, i = rng.choice(mods)
        comp = rng.choice(j["cds_results"][n]["modules"][i]["components"])
        comp["locus"] = rng.choice(["", None])
        what = "locus_empty"
    elif r < 0.92 and mods:
        n, i = rng.choice(mods)
        other = rng.choice(mods)
        j["cds_results"][n]["modules"][i]["components"] += j["cds_results"][other[0]]["modules"][other[1]]["components"]
        what = "modules_joined"
    elif r < 0.96 and names:
        n = rng.choice(names)
        key = rng.choice(["domain_hmms", "motif_hmms", "modules"])
        del j["cds_results"][n][key]
        what = "key_missing"
    elif mods:
        n, i = rng.choice(mods)
        comp = rng.choice(j["cds_results"][n]["modules"][i]["components"])
        comp["domain"]["internal_hits"] = [{"hit_id": "Trans-AT-KS", "query_start": 600, "query_end": 610,
                                            "evalue": 1e-3, "bitscore": 5.5}]
        what = "subdomain_elsewhere"
    return what


def impl_nrps(args, check_features=None):
    from antismash.detection.nrps_pks_domains.domain_identification import NRPSPKSDomains
    from antismash.detection import nrps_pks_domains
    j, rid, names, cur = args
    n_genes = len(names)

    def work():
        record, _ = make_nrps_record(n_genes, rid)
        old = NRPSPKSDomains.schema_version
        NRPSPKSDomains.schema_version = cur
        try:
            res = nrps_pks_domains.regenerate_previous_results(through_orjson(j), record, None)
            if res is None:
                return [0, 0]
            saved = res.to_json()
            if check_features is not None:
                res.add_to_record(record)
                check_features(record, dumps(saved))
            return out_ok(saved)
        finally:
            NRPSPKSDomains.schema_version = old
    return guarded(work)


# ---------------------------------------------------------------- fn 3: TTA

_TTA_READY = False


def tta_setup():
    global _TTA_READY
    if _TTA_READY:
        return
    from antismash.config import build_config
    from antismash.modules import tta
    build_config([], isolated=True, modules=[tta])
    _TTA_READY = True


def impl_tta(args):
    from antismash.config import update_config, get_config
    from antismash.modules import tta
    from antismash.modules.tta.tta import TTAResults
    j, thr, rid, cur = args
    tta_setup()

    def work():
        update_config({"tta_threshold": thr})
        record = types.SimpleNamespace(id=rid)
        old = TTAResults.schema_version
        old_detect = tta.detect
        TTAResults.schema_version = cur
        tta.detect = lambda _record, _options: "detected afresh"
        try:
            res = tta.regenerate_previous_results(through_orjson(j), record, get_config())
            if res is None:
                return [0, 0]
            reused = tta.run_on_record(record, res, get_config()) is res
            return out_ok(res.to_json()) + [int(reused)]
        finally:
            TTAResults.schema_version = old
            tta.detect = old_detect
    return guarded(work)


def gen_tta(rng):
    grid = [0.0, 0.25, 0.5, 0.65, 0.6500000000000001, 0.7, 1.0, 0.3333333333333333]
    gc = rng.choice(grid) if rng.random() < 0.7 else rng.random()
    saved_thr = rng.choice(grid + [gc]) if rng.random() < 0.8 else rng.random()
    thr = rng.choice(grid + [gc, saved_thr]) if rng.random() < 0.8 else rng.random()
    codons = [{"start": rng.randint(0, 5000), "strand": rng.choice([1, -1])} for _ in range(rng.choice([0, 1, 2, 5]))]
    if gc < saved_thr and rng.random() < 0.9:
        codons = []     # what detect() saves below the threshold
    j = {"TTA codons": codons, "schema_version": 2, "record_id": "rec", "gc_content": gc, "threshold": saved_thr}
    rid, cur = "rec", 2
    r = rng.random()
    what = "as_saved"
    if r < 0.06:
        j["schema_version"] = rng.choice([1, 3, None, 2.0, "2", True])
        what = "schema"
    elif r < 0.10:
        cur = 3
        what = "schema"
    elif r < 0.16:
        rid = rng.choice(["other", ""])
        what = "record_id"
    elif r < 0.20:
        del j[rng.choice(list(j))]
        what = "key_missing"
    elif r < 0.23:
        j[rng.choice(["gc_content", "threshold"])] = rng.choice([None, 1, 0, True])
        what = "number_kind"
    elif r < 0.25 and codons:
        del rng.choice(codons)[rng.choice(["start", "strand"])]
        what = "key_missing"
    return [j, float(thr), rid, cur], what


# ---------------------------------------------------------------- fn 4: HmmerResults

HIT_FIELDS = ["location", "label", "locus_tag", "domain", "evalue", "score", "identifier", "description",
              "protein_start", "protein_end", "translation"]


def gen_hmmer(rng):
    grid_e = [0.01, 1e-5, 1e-20, 0.1, 1.0, 0.0]
    grid_s = [0.0, 10.0, 25.5, 100.0, -5.0]
    saved_e, saved_s = rng.choice(grid_e), rng.choice(grid_s)
    hits = []
    for i in range(rng.choice([0, 1, 2, 3, 6])):
        start = rng.randint(0, 300)
        length = rng.randint(1, 12)
        hit = {"location": f"[{start * 3}:{(start + length) * 3}](+)", "label": f"lab{i}", "locus_tag": f"g{i % 3}",
               "domain": rng.choice(["PF00001", "p450", "é"]), "evalue": rng.choice(grid_e + [gen_float(rng)]),
               "score": rng.choice(grid_s + [gen_float(rng)]), "identifier": f"PF{i:05d}.1", "description": "some thing",
               "protein_start": start, "protein_end": start + length, "translation": "M" * length}
        r = rng.random()
        if r < 0.03:
            hit["protein_end"] = start - rng.choice([0, 1])
        elif r < 0.06:
            hit["translation"] += "A"
        elif r < 0.08:
            del hit[rng.choice(HIT_FIELDS)]
        elif r < 0.10:
            hit["extra"] = 1
        elif r < 0.13:
            hit[rng.choice(["score", "evalue"])] = rng.choice([None, "1.0", 3, True])
        elif r < 0.16:
            items = list(hit.items())
            rng.shuffle(items)
            hit = dict(items)
        hits.append(hit)
    j = {"hits": hits, "record id": "rec", "schema": 2, "max evalue": saved_e, "min score": saved_s,
         "database": "/db/pfam/35.0/Pfam-A.hmm", "tool": "cluster_hmmer"}
    rid, cur = "rec", 2
    what = "as_saved"
    r = rng.random()
    if r < 0.05:
        j["schema"] = rng.choice([1, 3, None, "2", 2.0])
        what = "schema"
    elif r < 0.08:
        cur = 3
        what = "schema"
    elif r < 0.13:
        rid = "other"
        what = "record_id"
    elif r < 0.16:
        del j[rng.choice(list(j))]
        what = "key_missing"
    elif r < 0.19:
        j[rng.choice(["max evalue", "min score"])] = rng.choice([None, 1, 0])
        what = "number_kind"
    elif r < 0.21:
        j["hits"] = rng.choice([None, {}, "x", [3], [None]])
        what = "hits_kind"
    elif r < 0.22:
        j = {}
        what = "empty"
    mode = rng.choice([0, 1, 1, 1, 2, 2])
    opt_e = rng.choice(grid_e + [saved_e, saved_e])
    opt_s = rng.choice(grid_s + [saved_s, saved_s])
    return [j, rid, cur, float(opt_e), float(opt_s), mode], what


REFILTER_CLASS = "refilter_inclusive_limits"     # finding FC11b
REFILTER_ORACLE = []      # reuse of hmmer results that does not give what a fresh run with the same limits gives


def rre_cycles(chk, rng, total):
    """ RREFinderResults (a module whose results are lists of hmmer hits per gene and per protocluster) through the
        cycles of the property, judged by the property's own clauses (no Gallina model): results saved under (cutoff0,
        length0) are regenerated under options that are equal, stricter or more lenient; accepted results must (a) hold
        only hits that pass the options, (b) add to a record exactly the domains their own saved JSON describes: the JSON
        they save regenerates (same options, same record) to results that save to the identical text and add the same
        domains; more lenient options must discard the results """
    from Bio.Seq import Seq
    from antismash import main
    from antismash.common import json as as_json
    from antismash.common.hmmer import HmmerHit
    from antismash.common.secmet import Record
    from antismash.common.secmet.features import CDSFeature
    from antismash.common.secmet.locations import FeatureLocation
    from antismash.config import build_config, destroy_config, update_config
    from antismash.modules import rrefinder
    from antismash.modules.rrefinder.rrefinder import RREFinderResults

    def build_record():
        record = Record(Seq("ATGGCAGCAGCAGAA" * 200), transl_table=11)
        record.id = "rec"
        for k in range(4):
            location = FeatureLocation(150 + 600 * k, 690 + 600 * k, 1)
            record.add_cds_feature(CDSFeature(location, locus_tag=f"g{k}",
                                              translation=record.get_aa_translation_from_location(location)))
        return record

    def domains_of(results):
        record = build_record()
        results.add_to_record(record)
        return sorted((d.locus_tag, d.get_name(), d.score, str(d.location)) for d in record.get_antismash_domains())
    destroy_config()
    options = build_config(["--rre"], isolated=True, modules=main.get_all_modules())
    try:
        for _ in range(total):
            record = build_record()
            cut0, len0 = rng.choice([20.0, 25.0, 30.0]), rng.choice([40, 50, 60])
            hits, by_proto = {}, {}
            for k in range(4):
                if rng.random() < 0.3:
                    continue
                cds = record.get_cds_by_name(f"g{k}")
                hits[f"g{k}"] = []
                for j in range(rng.choice([1, 1, 2])):
                    start = rng.choice([5, 10, 20])
                    end = start + rng.choice([len0, len0 + 1, len0 + 10, 70, 100])
                    score = rng.choice([cut0, cut0 + 0.5, cut0 + 5.0, 35.0, 40.0, 60.0])
                    if end - start < len0 or score < cut0 or end > len(cds.translation):
                        continue
                    hits[f"g{k}"].append(HmmerHit(location=str(cds.get_sub_location_from_protein_coordinates(start, end)),
                                                  label=f"RRE{j}", locus_tag=f"g{k}", domain=f"RRE{j}", evalue=1e-10, score=score,
                                                  identifier=f"RREFam00{j + 1}.1", description="an RRE", protein_start=start,
                                                  protein_end=end, translation=cds.translation[start:end]))
                if not hits[f"g{k}"]:
                    del hits[f"g{k}"]
                else:
                    by_proto.setdefault(rng.choice([1, 2]), []).append(f"g{k}")
            first = RREFinderResults(record.id, cut0, len0, by_proto, hits)
            text0 = as_json.dumps(first.to_json())
            cut1 = rng.choice([cut0, cut0, cut0 + 5.0, 35.0, 45.0, cut0 - 5.0])
            len1 = rng.choice([len0, len0, len0 + 10, 70, len0 - 10])
            update_config({"rre_cutoff": cut1, "rre_min_length": len1})
            chk.evaluations += 1
            second = rrefinder.regenerate_previous_results(as_json.loads(text0), record, options)
            lenient = cut1 < cut0 or len1 < len0
            chk.count("RREFinder:" + ("more_lenient_options" if lenient else "same_options" if (cut1, len1) == (cut0, len0)
                                     else "stricter_options"))
            info = {"saved_under": [cut0, len0], "reused_under": [cut1, len1],
                    "hits": {g: [(h.score, h.protein_end - h.protein_start) for h in hs] for g, hs in hits.items()}}
            bad = None
            if lenient:
                if second is not None:
                    bad = "results saved under stricter settings are reused under more lenient ones"
            elif second is None:
                bad = "results are discarded although the options are the same or stricter"
            else:
                second = rrefinder.run_on_record(record, second, options)
                text1 = as_json.dumps(second.to_json())
                doms1 = domains_of(second)
                third = rrefinder.regenerate_previous_results(as_json.loads(text1), record, options)
                if third is None:
                    bad = "results regenerated under these options cannot be regenerated from their own saved form"
                else:
                    third = rrefinder.run_on_record(record, third, options)
                    if as_json.dumps(third.to_json()) != text1:
                        bad = "regenerated results do not save to identical JSON"
                    elif domains_of(third) != doms1:
                        bad = ("regenerated results add other domains to the record than the results regenerated from their own "
                               f"saved form: {doms1} / {domains_of(third)}")
                    elif any(d[2] < cut1 for d in doms1):
                        bad = f"a domain under the requested cutoff {cut1} is added to the record: {doms1}"
                    elif (cut1, len1) == (cut0, len0) and (text1 != text0 or doms1 != domains_of(first)):
                        bad = "with unchanged options the regenerated results differ from the original ones"
            if bad:
                chk.violation("counterexample", "RREFinderResults: " + bad,
                              {"theorem_or_correspondence": "C11 save / regenerate cycle (module results, judged by the clauses of "
                                                            "the property)", "input": info})
                break
    finally:
        destroy_config()


def impl_hmmer(args):
    from antismash.common.hmmer import HmmerResults
    from antismash.detection import cluster_hmmer
    j, rid, cur, opt_e, opt_s, mode = args

    def work():
        record = types.SimpleNamespace(id=rid)
        old = (HmmerResults.schema_version, cluster_hmmer.MAX_EVALUE, cluster_hmmer.MIN_SCORE)
        HmmerResults.schema_version = cur
        cluster_hmmer.MAX_EVALUE, cluster_hmmer.MIN_SCORE = opt_e, opt_s
        try:
            data = through_orjson(j)
            if mode == 1:
                res = cluster_hmmer.regenerate_previous_results(data, record, None)
            else:
                res = HmmerResults.from_json(data, record)
                if res is not None and mode == 2:
                    res = res.refilter(opt_e, opt_s)
            if res is None:
                return [0, 0]
            if mode in (1, 2):
                # independent oracle: what a FRESH run with these limits keeps (hmmer.build_hits drops
                # `hsp.bitscore <= min_score or hsp.evalue >= max_evalue`), applied to the saved hits
                fresh = [(h["score"], h["evalue"]) for h in data["hits"] if not (h["score"] <= opt_s or h["evalue"] >= opt_e)]
                kept = [(h.score, h.evalue) for h in res.hits]
                if kept != fresh:
                    # class refilter_inclusive_limits: the only difference is that reuse keeps hits lying exactly on a limit
                    on_limit = [(h["score"], h["evalue"]) for h in data["hits"]
                                if (h["score"], h["evalue"]) not in fresh and h["score"] >= opt_s and h["evalue"] <= opt_e
                                and (h["score"] == opt_s or h["evalue"] == opt_e)]
                    expected_in_class = [(h["score"], h["evalue"]) for h in data["hits"]
                                         if (h["score"], h["evalue"]) in fresh or (h["score"], h["evalue"]) in on_limit]
                    REFILTER_ORACLE.append({"saved_hits_(score, evalue)": [(h["score"], h["evalue"]) for h in data["hits"]],
                                            "max_evalue": opt_e, "min_score": opt_s, "kept_on_reuse": kept,
                                            "kept_by_a_fresh_run": fresh,
                                            "class": REFILTER_CLASS if on_limit and kept == expected_in_class else None})
            return out_ok(res.to_json())
        finally:
            HmmerResults.schema_version, cluster_hmmer.MAX_EVALUE, cluster_hmmer.MIN_SCORE = old
    return guarded(work)


# ---------------------------------------------------------------- fn 5: HMMDetectionResults

_RULE_NAMES = {}


def real_rule_names(strictness):
    """ the rule names of the shipped rule files, through the real get_ruleset """
    if strictness not in _RULE_NAMES:
        from antismash.detection import hmm_detection
        options = types.SimpleNamespace(hmmdetection_strictness=strictness, taxon="bacteria",
                                        hmmdetection_fungal_cutoff_multiplier=1.0,
                                        hmmdetection_fungal_neighbourhood_multiplier=1.5,
                                        hmmdetection_limit_to_rules=[], hmmdetection_limit_to_categories=[])
        _RULE_NAMES[strictness] = sorted(hmm_detection.get_ruleset(options).get_rule_names())
    return _RULE_NAMES[strictness]


def gen_det(rng):
    mults = [1.0, 1.5, 2.0, 0.5, 0.30000000000000004, 0.3]
    if rng.random() < 0.25:
        names = list(real_rule_names(rng.choice(["strict", "relaxed", "loose"])))
    else:
        pool = ["T1PKS", "NRPS", "terpene", "lanthipeptide-class-i", "RiPP-like", "betalactone", "a", "b", "c", "d"]
        names = sorted(rng.sample(pool, rng.randint(0, 6)))
    enabled = list(names)
    r = rng.random()
    what = "as_saved"
    if r < 0.08 and enabled:
        enabled.pop(rng.randrange(len(enabled)))
        what = "rule_removed"
    elif r < 0.16:
        enabled.insert(rng.randint(0, len(enabled)), rng.choice(["zzz", "NRPS-like", "T1PKS"]))
        what = "rule_added"
    elif r < 0.22 and enabled:
        enabled[rng.randrange(len(enabled))] = "renamed"
        what = "rule_renamed"
    elif r < 0.30:
        rng.shuffle(enabled)
        what = "order_only"
    elif r < 0.33 and enabled:
        enabled.append(enabled[0])
        what = "duplicate_only"
    cutoff, neigh = rng.choice(mults), rng.choice(mults)
    j = {"record_id": "rec", "schema_version": 2, "enabled_types": enabled,
         "rule_results": {"schema_version": 4, "tool": "rule-based-clusters", "cds_by_protocluster": [],
                          "outside_protoclusters": [], "multipliers": {"cutoff": cutoff, "neighbourhood": neigh}},
         "strictness": rng.choice(["strict", "relaxed", "loose"])}
    rid, cur_outer, cur_inner = "rec", 2, 4
    fungi = rng.random() < 0.5
    opt_c = cutoff if rng.random() < 0.7 else rng.choice(mults)
    opt_n = neigh if rng.random() < 0.7 else rng.choice(mults)
    r = rng.random()
    if r < 0.04:
        j["schema_version"] = rng.choice([1, 3, None, "2"])
        what = "schema"
    elif r < 0.07:
        cur_outer = 3
        what = "schema"
    elif r < 0.11:
        j["rule_results"]["schema_version"] = rng.choice([3, 5, 1])
        what = "inner_schema"
    elif r < 0.13:
        del j["rule_results"]["schema_version"]
        cur_inner = rng.choice([1, 4])
        what = "inner_schema"
    elif r < 0.16:
        cur_inner = 5
        what = "inner_schema"
    elif r < 0.20:
        rid = "other"
        what = "record_id"
    elif r < 0.23:
        del j[rng.choice(list(j))]
        what = "key_missing"
    elif r < 0.26:
        del j["rule_results"][rng.choice(list(j["rule_results"]))]
        what = "key_missing"
    elif r < 0.29:
        j["strictness"] = rng.choice(["lenient", "", "Strict"])
        what = "strictness_unknown"
    elif r < 0.33:
        j["rule_results"]["multipliers"] = rng.choice([{}, {"cutoff": 2.0}, {"cutoff": 0.0, "neighbourhood": 1.0},
                                                       {"cutoff": 1.0, "neighbourhood": -1.0}, {"cutoff": 1, "neighbourhood": 2},
                                                       {"cutoff": 1.0, "neighbourhood": 1.0, "other": 1.0}])
        what = "multipliers_shape"
    elif r < 0.34:
        j = {}
        what = "empty"
    return [j, rid, names, fungi, float(opt_c), float(opt_n), cur_outer, cur_inner], what


def impl_det(args):
    from antismash.detection import hmm_detection
    from antismash.common.hmm_rule_parser.cluster_prediction import RuleDetectionResults
    j, rid, names, fungi, opt_c, opt_n, cur_outer, cur_inner = args

    def work():
        record = types.SimpleNamespace(id=rid)
        options = types.SimpleNamespace(hmmdetection_strictness="relaxed", taxon="fungi" if fungi else "bacteria",
                                        hmmdetection_fungal_cutoff_multiplier=opt_c,
                                        hmmdetection_fungal_neighbourhood_multiplier=opt_n)
        old = (hmm_detection.HMMDetectionResults.schema_version, RuleDetectionResults.schema_version,
               hmm_detection.get_ruleset)
        hmm_detection.HMMDetectionResults.schema_version = cur_outer
        RuleDetectionResults.schema_version = cur_inner
        hmm_detection.get_ruleset = lambda _options: types.SimpleNamespace(get_rule_names=lambda: set(names))
        try:
            res = hmm_detection.regenerate_previous_results(through_orjson(j), record, options)
            if res is None:
                return [0, 0]
            return out_ok(res.to_json())
        finally:
            (hmm_detection.HMMDetectionResults.schema_version, RuleDetectionResults.schema_version,
             hmm_detection.get_ruleset) = old
    return guarded(work)


# ---------------------------------------------------------------- fn 6: sideloaded

def gen_tool(rng):
    name = rng.choice(["tool", "my tool", "some-tool_x", "Tool", "tool", "my tool", "some-tool_x", "Tool", "tool2", "t.x", ""])
    tool = {"name": name, "version": rng.choice(["1.0", "", "v2"]), "description": rng.choice(["", "descr"]),
            "configuration": rng.choice([{}, {"a": ["1", "2"]}, {"k": "v", "b": []}])}
    r = rng.random()
    if r < 0.05:
        del tool[rng.choice(list(tool))]
    return tool


def gen_side(rng):
    circular = rng.random() < 0.5
    length = rng.choice([1000, 5000])
    origin = length if circular else None
    subs, protos = [], []
    for _ in range(rng.choice([0, 1, 2])):
        start = rng.randint(0, length)
        end = rng.randint(0, length) if circular or rng.random() < 0.08 else rng.randint(start, length) + rng.choice([0, 1, 1, 1, 1, 1])
        if rng.random() < 0.05:
            end = start
        sub = {"circular_origin": origin, "start": start, "end": end, "label": rng.choice(["lab", ""]),
               "details": rng.choice([{}, {"x": ["y"]}, {"x": "y", "z": ["1", "2"]}]), "tool": gen_tool(rng)}
        if rng.random() < 0.05:
            del sub[rng.choice(["start", "end", "label", "tool", "details", "circular_origin"])]
        if rng.random() < 0.05:
            sub["start"] = rng.choice([float(start), start + 0.5, length + 1])
        subs.append(sub)
    for _ in range(rng.choice([0, 1, 2])):
        cs = rng.randint(0, length)
        ce = rng.randint(0, length) if circular or rng.random() < 0.08 else rng.randint(cs, length) + rng.choice([0, 1, 1, 1, 1, 1])
        if rng.random() < 0.05:
            ce = cs
        proto = {"circular_origin": origin, "core_start": cs, "core_end": ce, "product": rng.choice(["prod", "T1PKS"]),
                 "tool": gen_tool(rng), "details": rng.choice([{}, {"x": ["y"]}]),
                 "neighbourhood_left": rng.choice([0, 0, 0, 10, 10, min(cs, 50), cs, cs, cs + 1, -1, 2000]),
                 "neighbourhood_right": rng.choice([0, 0, 0, 10, 10, 50, 50, -1, 2000])}
        if rng.random() < 0.08:
            del proto[rng.choice(list(proto))]
        if rng.random() < 0.03:
            proto["core_start"] = length + rng.choice([0, 1])
        protos.append(proto)
    j = {"record_id": "rec", "schema_version": 1, "protoclusters": protos, "subregions": subs}
    rid, cur = "rec", 1
    what = "as_saved"
    r = rng.random()
    if r < 0.05:
        j["schema_version"] = rng.choice([2, None, "1", 1.0, True])
        what = "schema"
    elif r < 0.08:
        cur = 2
        what = "schema"
    elif r < 0.13:
        rid = "other"
        what = "record_id"
    elif r < 0.16:
        del j[rng.choice(list(j))]
        what = "key_missing"
    elif r < 0.17:
        j = {}
        what = "empty"
    elif r < 0.22:
        origin = None if circular else length      # the same file against a record of the other topology
        what = "topology_changed"
    elif r < 0.24:
        origin = rng.choice([0, length // 2])
        what = "length_changed"
    return [j, rid, origin, cur], what


class FakeRecord:
    def __init__(self, rid, origin):
        self.id = rid
        self.origin = origin

    def is_circular(self):
        return self.origin is not None

    def __len__(self):
        return self.origin if self.origin is not None else 12345


def side_features(res):
    """ the features the annotations turn into; an area that cannot become a feature is reported as
        the exception type (the same for original and regenerated results) """
    try:
        return side_features_raw(res)
    except Exception as exc:  # pylint: disable=broad-except
        return ["raises", type(exc).__name__]


def side_features_raw(res):
    out = []
    for proto in res.get_predicted_protoclusters():
        out.append(("p", str(proto.location), str(proto.core_location), proto.product, proto.tool, proto.neighbourhood_range))
    for sub in res.get_predicted_subregions():
        out.append(("s", str(sub.location), sub.label, sub.tool, tuple(sorted((k, tuple(v)) for k, v in sub.extra_qualifiers.items()))
                    if hasattr(sub, "extra_qualifiers") else ()))
    return out


def impl_side(args, on_cycle=None):
    from antismash.detection import sideloader
    from antismash.detection.sideloader.data_structures import SideloadedResults
    j, rid, origin, cur = args

    def work():
        record = FakeRecord(rid, origin)
        old = SideloadedResults.schema_version
        SideloadedResults.schema_version = cur
        try:
            res = sideloader.regenerate_previous_results(through_orjson(j), record, None)
            if res is None:
                return [0, 0]
            saved = res.to_json()
            if on_cycle is not None:
                again = sideloader.regenerate_previous_results(through_orjson(saved), record, None)
                on_cycle(res, saved, again)
            return out_ok(saved)
        finally:
            SideloadedResults.schema_version = old
    return guarded(work)


# ---------------------------------------------------------------- whole-object cycles (real results objects)

def detection_case(rng):
    """ a record with genes and a rule set with dynamic profiles, as a plain description """
    circular = rng.random() < 0.4
    length = rng.choice([30000, 60000])
    n = rng.randint(2, 9)
    genes = []
    pos = rng.randint(0, 3000)
    for i in range(n):
        glen = rng.choice([300, 900, 1500])
        if pos + glen >= length - 100:
            break
        genes.append((f"g{i}", [(pos, pos + glen, rng.choice([1, -1]))]))
        pos += glen + rng.choice([50, 500, 3000, 9000])
    profiles = ["p", "q", "r"]
    hits = {name: sorted(set(rng.sample(profiles, rng.randint(0, 2)))) for name, _ in genes}
    rules = []
    for k, prof in enumerate(profiles):
        cond = rng.choice([prof, f"{prof} and {profiles[(k + 1) % 3]}", f"{prof} or {profiles[(k + 2) % 3]}",
                           f"cds({prof} and {profiles[(k + 1) % 3]})", f"minimum(2, [p, q, r])"])
        rules.append(f"RULE rule{prof} CATEGORY c CUTOFF {rng.choice([1, 5, 20])} NEIGHBOURHOOD {rng.choice([0, 0, 2, 10])} "
                     f"CONDITIONS {cond}")
    return {"circular": circular, "length": length, "genes": genes, "hits": hits, "rules": "\n".join(rules),
            "profiles": profiles}


def cds_annotations(record):
    out = []
    for cds in record.get_cds_features():
        secmet = None
        if cds.sec_met:
            secmet = tuple((d.name, d.evalue, d.bitscore, d.nseeds, d.tool) for d in cds.sec_met.domains)
        funcs = tuple(sorted((str(f.function), f.tool, f.description, f.product or "") for f in cds.gene_functions))
        out.append((cds.get_name(), secmet, funcs))
    return out


def proto_dump(protos):
    return [(p.product, str(p.location), str(p.core_location), p.cutoff, p.neighbourhood_range, p.tool, p.detection_rule,
             p.product_category) for p in protos]


REAL_RULE_RESULTS = []      # filled by detection_cycle: the rule_results JSON of the real detection


def detection_cycle(case):
    """ runs the real detection, saves, regenerates against an identical fresh record, twice.
        Returns (status, details); status None when the detection itself fails (not this property) """
    import detect_util
    from antismash.detection import hmm_detection
    from antismash.common import json as asjson

    def fresh():
        record = detect_util.make_record(case["length"], case["circular"], case["genes"])
        record.id = "rec"
        return record
    hits = {g: set(p) for g, p in case["hits"].items()}
    ruleset = detect_util.make_ruleset(case["rules"], case["profiles"], hits)
    record = fresh()
    options = types.SimpleNamespace(hmmdetection_strictness="relaxed", taxon="bacteria",
                                    hmmdetection_fungal_cutoff_multiplier=1.0, hmmdetection_fungal_neighbourhood_multiplier=1.5,
                                    hmmdetection_limit_to_rules=[], hmmdetection_limit_to_categories=[])
    old = hmm_detection.get_ruleset
    hmm_detection.get_ruleset = lambda _options: ruleset
    try:
        # the module's own entry point: detection, annotation of the genes, enabled rule names
        results = hmm_detection.run_on_record(record, None, options)
    except Exception as exc:  # pylint: disable=broad-except
        hmm_detection.get_ruleset = old
        return None, f"detection raised {type(exc).__name__}"
    text0 = asjson.dumps(results.to_json())          # before the protoclusters are in the record
    REAL_RULE_RESULTS.append(results.to_json()["rule_results"])
    try:
        # the pipeline (main.run_detection_stage): the results are added to the record, the JSON is
        # written at the end of the run: protocluster_number and contig_edge are part of it
        results.add_to_record(record)
    except Exception as exc:  # pylint: disable=broad-except
        hmm_detection.get_ruleset = old
        return None, f"add_to_record raised {type(exc).__name__}"
    text1 = asjson.dumps(results.to_json())
    REAL_RULE_RESULTS.append(results.to_json()["rule_results"])
    expected = (proto_dump(results.get_predicted_protoclusters()), cds_annotations(record),
                proto_dump(record.get_protoclusters()))
    try:
        text = text1
        for cycle in (1, 2):
            record2 = fresh()
            try:
                again = hmm_detection.regenerate_previous_results(asjson.loads(text), record2, options)
            except Exception as exc:  # pylint: disable=broad-except
                return False, f"cycle {cycle}: regenerating raised {type(exc).__name__}: {exc}"
            if again is None:
                return False, f"cycle {cycle}: results discarded under unchanged options"
            if asjson.dumps(again.to_json()) != text0:
                return False, f"cycle {cycle}: saved JSON text differs (before add_to_record)"
            try:
                again = hmm_detection.run_on_record(record2, again, options)
                again.add_to_record(record2)
            except Exception as exc:  # pylint: disable=broad-except
                return False, f"cycle {cycle}: adding the regenerated results to the record raised {type(exc).__name__}: {exc}"
            text_next = asjson.dumps(again.to_json())
            if text_next != text:
                return False, f"cycle {cycle}: saved JSON text differs"
            got = (proto_dump(again.get_predicted_protoclusters()), cds_annotations(record2),
                   proto_dump(record2.get_protoclusters()))
            if got != expected:
                which = "protoclusters" if got[0] != expected[0] or got[2] != expected[2] else "gene annotations"
                return False, f"cycle {cycle}: {which} differ after regenerating"
            text = text_next
    finally:
        hmm_detection.get_ruleset = old
    return True, hashlib.md5(text1 if isinstance(text1, bytes) else text1.encode()).hexdigest() + f" {len(expected[0])}"


def tta_cycle(rng):
    """ real detect() on a record with regions, then a history of threshold changes; every
        regeneration must be discarded or equal what detect() gives under the options then in force """
    from antismash.config import update_config, get_config
    from antismash.modules import tta
    from antismash.common import json as asjson
    from antismash.common.secmet import Record
    from antismash.common.secmet.features import CDSFeature, SubRegion
    from antismash.common.secmet.locations import FeatureLocation
    tta_setup()
    gc_target = rng.choice([0.3, 0.5, 0.65, 0.7])
    n_codons = 200
    seq = []
    for _ in range(n_codons):
        if rng.random() < 0.08:
            seq.append(rng.choice(["TTA", "TAA"]))
        else:
            seq.append("".join(rng.choice("GC") if rng.random() < gc_target else rng.choice("AT") for _ in range(3)))
    sequence = "".join(seq)

    def fresh():
        record = Record(sequence)
        record.id = "rec"
        record.add_annotation("topology", "linear")
        record.add_cds_feature(CDSFeature(FeatureLocation(0, 300, 1), translation="M" * 100, locus_tag="a"))
        record.add_cds_feature(CDSFeature(FeatureLocation(300, 600, -1), translation="M" * 100, locus_tag="b"))
        record.add_subregion(SubRegion(FeatureLocation(0, 600), tool="verif"))
        record.create_candidate_clusters()
        record.create_regions()
        return record
    gc = fresh().get_gc_content()
    thresholds = [rng.choice([0.0, gc, gc, math.nextafter(gc, 1), math.nextafter(gc, 0), 0.65, 1.0, rng.random()])
                  for _ in range(rng.randint(2, 5))]
    update_config({"tta_threshold": thresholds[0]})
    current = tta.detect(fresh(), get_config())
    history = [thresholds[0]]
    for thr in thresholds[1:]:
        text = asjson.dumps(current.to_json())
        update_config({"tta_threshold": thr})
        history.append(thr)
        record = fresh()
        regen = tta.regenerate_previous_results(asjson.loads(text), record, get_config())
        afresh = tta.detect(fresh(), get_config())
        if regen is None:
            current = afresh
            continue
        result = tta.run_on_record(record, regen, get_config())
        if asjson.dumps(result.to_json()) != asjson.dumps(afresh.to_json()):
            return False, {"sequence": sequence, "gc": gc, "thresholds": history,
                           "regenerated": result.to_json(), "detected": afresh.to_json()}
        feats = lambda res: sorted((str(f.location), tuple(f.notes)) for f in res.features)
        if feats(result) != feats(afresh):
            return False, {"sequence": sequence, "gc": gc, "thresholds": history, "what": "features differ"}
        current = result
    return True, {"gc": gc, "n": len(current.codon_starts), "steps": len(history)}


CHILD = r"""
import sys, os, random, json
sys.path.insert(0, sys.argv[1]); sys.path.insert(0, sys.argv[2])
import common
common.setup_repo_path()
import c11
rng = random.Random(int(sys.argv[3]))
out = []
for _ in range(int(sys.argv[4])):
    case = c11.detection_case(rng)
    ok, info = c11.detection_cycle(case)
    out.append([ok, info])
print(json.dumps(out))
"""


def hash_seed_run(chk, seed, count, hash_seeds):
    """ the same detection cases in child processes with different string hash seeds: the saved
        JSON texts must be the same in all of them """
    outs = {}
    for hs in hash_seeds:
        env = dict(os.environ)
        env["PYTHONHASHSEED"] = str(hs)
        env["PYTHONDONTWRITEBYTECODE"] = "1"
        proc = subprocess.run([common.PYTHON, "-c", CHILD, os.path.join(common.VERIF, "harness"), common.REPO, str(seed),
                               str(count)], env=env, stdout=subprocess.PIPE, stderr=subprocess.PIPE, text=True, timeout=900)
        if proc.returncode != 0:
            chk.violation("broken-correspondence", "hash-seed child process failed",
                          {"theorem_or_correspondence": "hash-seed run", "log": proc.stderr[-2000:]})
            return
        import json
        outs[hs] = json.loads(proc.stdout.strip().splitlines()[-1])
    base = outs[hash_seeds[0]]
    for hs in hash_seeds[1:]:
        for i, (a, b) in enumerate(zip(base, outs[hs])):
            if a != b:
                rng = __import__("random").Random(seed)
                case = None
                for _ in range(i + 1):
                    case = detection_case(rng)
                chk.violation("counterexample", "saved detection results differ between PYTHONHASHSEED "
                              f"{hash_seeds[0]} and {hs}", {"input": case, "outputs": [a, b],
                                                            "theorem_or_correspondence": "hash-seed run"})
                return
    chk.count("hash_seed_cases", count * len(hash_seeds))


# ---------------------------------------------------------------- fn 9: main.run_module / analyse_record / run_detection
# (model: coq/C11/ModelMain.v).  Small fake modules with the module interface, and real ones (tta,
# hmm_detection's regenerate path) behind a recording proxy, drive the real main.run_module /
# main.analyse_record / main.run_detection over the decision table  saved entry x regenerate outcome x
# enabled x is_enabled x run outcome; afterwards the real serialiser.dump_records writes the final map.

EXC = {1: ValueError, 9: RuntimeError, 4: KeyError, 5: TypeError, 2: AssertionError}
# class of the REPAIRED finding FC11a (known_findings.json, status fixed): nothing is suppressed for it any more.  Its
# witness and variants form the regression corpus (regression_falsy_results, run first on every run), the fn 9 decision
# table keeps producing the class (accepted FALSY results, module not run) and the specification fn 19 now demands
# that such results are kept.
MAIN_REPAIRED_CLASS = "falsy_results_dropped"


class Registry:
    """ model identities of the objects that travel through module_results """
    def __init__(self):
        self.ids = {}
        self.keep = []

    def add(self, obj, ident):
        self.ids[id(obj)] = ident
        self.keep.append(obj)
        return obj

    def ident(self, obj):
        return self.ids.get(id(obj), -7)


def fake_results_class():
    from antismash.common.module_results import DetectionResults

    class FakeResults(DetectionResults):
        """ a results object of a fake module; its truth value is part of the case """
        def __init__(self, ident, truthy, owner, log):
            super().__init__("rec")
            self.ident, self.truthy, self.owner, self.log = ident, truthy, owner, log

        def __bool__(self):
            return self.truthy

        def to_json(self):
            return {"fake results": self.ident}

        def add_to_record(self, record):
            self.log.extend([4, self.owner, self.ident])

        def get_predicted_protoclusters(self):
            self.log.extend([4, self.owner, self.ident])
            return []
    return FakeResults


_FAKE_RESULTS = []


def FakeResults(*args):
    if not _FAKE_RESULTS:
        _FAKE_RESULTS.append(fake_results_class())
    return _FAKE_RESULTS[0](*args)


def junk_value(ident, truthy):
    return ["not results", ident] if truthy else []


class FakeModule:
    """ an object with the module interface whose functions do what the case says """
    def __init__(self, beh, reg, log):
        (self.name, self.rk, self.ri, self.rt, self.in_all, self.enabled, self.uk, self.ui, self.ut) = beh
        self.__name__ = mod_name(self.name)
        self.reg, self.log = reg, log

    def check_options(self, _options):
        return []

    def is_enabled(self, _options):
        return bool(self.enabled)

    def regenerate_previous_results(self, previous, _record, _options):
        self.log.extend([1, self.name, self.reg.ident(previous)])
        if self.rk == 0:
            return None
        if self.rk == 1:
            return self.reg.add(FakeResults(self.ri, bool(self.rt), self.name, self.log), self.ri)
        if self.rk == 2:
            return self.reg.add(junk_value(self.ri, bool(self.rt)), self.ri)
        raise EXC[self.rt]("regenerate_previous_results of the fake module raises")

    def run_on_record(self, _record, results, _options):
        self.log.extend([2, self.name, -1 if results is None else self.reg.ident(results)])
        if self.uk == 1 and results is not None:
            return results
        if self.uk in (0, 1):
            return self.reg.add(FakeResults(self.ui, bool(self.ut), self.name, self.log), self.ui)
        if self.uk == 2:
            return None if self.ut else {"not": "results"}
        raise EXC[self.ut]("run_on_record of the fake module raises")


def mod_name(n):
    return {100: "antismash.modules.tta", 101: "antismash.detection.hmm_detection"}.get(n, f"verif.fake.module{n}")


def mod_number(name):
    return {"antismash.modules.tta": 100, "antismash.detection.hmm_detection": 101}.get(name) or int(name.rsplit("module", 1)[1])


class StubRecord:
    """ what run_detection needs of a record besides handing it to the modules: there is always a region """
    id = "rec"
    skip = False

    def add_protocluster(self, _p):
        pass

    def add_subregion(self, _s):
        pass

    def get_protoclusters(self):
        return []

    def get_subregions(self):
        return []

    def create_candidate_clusters(self):
        pass

    def create_regions(self):
        pass

    def get_regions(self):
        return [1]


_DUMP_RECORD = []


def dump_record():
    if not _DUMP_RECORD:
        from antismash.common.secmet.test.helpers import DummyCDS, DummyRecord
        _DUMP_RECORD.append(DummyRecord(seq="ATGC" * 500, features=[DummyCDS(100, 400, locus_tag="cdsA")], record_id="rec"))
    return _DUMP_RECORD[0]


def build_map(entries, reg, log):
    """ entries: [(name, kind, id, truthy)] -> the dict module_results """
    out = {}
    for name, kind, ident, truthy in entries:
        if kind == 0:
            value = reg.add({"saved by": name, "id": ident} if truthy else {}, ident)
        elif kind == 1:
            value = reg.add(FakeResults(ident, bool(truthy), name, log), ident)
        elif kind == 2:
            value = reg.add(junk_value(ident, truthy), ident)
        else:
            value = None
        out[mod_name(name)] = value
    return out


def encode_map(module_results, reg):
    from antismash.common.module_results import ModuleResults
    out = [len(module_results)]
    for key, value in module_results.items():
        if value is None:
            out += [mod_number(key), 3, 0, 0]
        elif isinstance(value, ModuleResults):
            out += [mod_number(key), 1, reg.ident(value), int(bool(value))]
        elif isinstance(value, dict):
            out += [mod_number(key), 0, reg.ident(value), int(bool(value))]
        else:
            out += [mod_number(key), 2, reg.ident(value), int(bool(value))]
    return out


def with_timings(log, timings):
    """ [3; name] after the run_on_record call of every module whose timing was recorded """
    out = []
    i = 0
    timed = {mod_number(k) for k in timings}
    while i < len(log):
        width = 3
        out += log[i:i + width]
        if log[i] == 2 and log[i + 1] in timed:
            out += [3, log[i + 1]]
        i += width
    return out


def finish_main_case(chk, module_results, reg, log, timings, describe):
    """ the later stage: the final map is written out by the real dump_records """
    from antismash.common import serialiser
    from antismash.common.module_results import ModuleResults
    try:
        written = serialiser.dump_records([module_results], [dump_record()])[0]["modules"]
        dumped = 1
        expected = {k: v.to_json() for k, v in module_results.items() if isinstance(v, ModuleResults)}
        if list(written.items()) != list(expected.items()):
            chk.violation("counterexample", "dump_records does not write the results in hand, in their order",
                          {"input": describe, "written": list(written), "in hand": list(expected),
                           "theorem_or_correspondence": "main.run_module bookkeeping"})
    except TypeError:
        dumped = 0
    return [0, dumped] + encode_map(module_results, reg) + with_timings(log, timings)


def impl_main(chk, mode, entries, behs, stages=None):
    """ the real analyse_record (mode 0) / run_detection (mode 1) over fake modules """
    from antismash import main as amain
    from antismash.detection import DetectionStage
    reg, log = Registry(), []
    module_results = build_map(entries, reg, log)
    modules = [FakeModule(beh, reg, log) for beh in behs]
    options = types.SimpleNamespace(all_enabled_modules=[m for m in modules if m.in_all])
    describe = {"mode": mode, "module_results": entries, "modules": behs}

    def work():
        if mode == 0:
            timings = amain.analyse_record(StubRecord(), options, modules, module_results)
        else:
            cuts = stages or [len(modules) // 3, 2 * len(modules) // 3]
            old = amain._DETECTION_MODULES  # pylint: disable=protected-access
            amain._DETECTION_MODULES = {DetectionStage.FULL_GENOME: modules[:cuts[0]],
                                        DetectionStage.AREA_FORMATION: modules[cuts[0]:cuts[1]],
                                        DetectionStage.AREA_REFINEMENT: [],
                                        DetectionStage.PER_AREA: modules[cuts[1]:]}
            try:
                timings = amain.run_detection(StubRecord(), options, module_results)
            finally:
                amain._DETECTION_MODULES = old
        return finish_main_case(chk, module_results, reg, log, timings, describe)
    return guarded(work)


def unflat_main(flat):
    """ the decoded input of a fn 9 case, for replay files """
    body = flat[2:]
    n = body[1]
    entries = [body[2 + 4 * i:6 + 4 * i] for i in range(n)]
    pos = 2 + 4 * n
    behs = [body[pos + 1 + 9 * i:pos + 10 + 9 * i] for i in range(body[pos])]
    return {"function": "main.analyse_record" if body[0] == 0 else "main.run_detection",
            "module_results (name, kind 0 raw 1 results 2 other 3 None, id, truthy)": entries,
            "modules (name, regenerate kind/id/flag, in all_enabled_modules, is_enabled, run_on_record kind/id/flag)": behs,
            "kinds": "regenerate 0 None 1 results 2 other object 3 raises(flag = exception); run_on_record 0 new 1 reuses given 2 not results 3 raises"}


def flat_main(mode, entries, behs):
    flat = [PROP, 9, mode, len(entries)]
    for entry in entries:
        flat += [int(x) for x in entry]
    flat.append(len(behs))
    for beh in behs:
        flat += [int(x) for x in beh]
    return flat


REGEN_TABLE = [(0, 0, 0), (1, 50, 1), (1, 50, 0), (2, 51, 1), (2, 51, 0), (3, 0, 1), (3, 0, 9)]
RUN_TABLE = [(0, 60, 1), (0, 60, 0), (1, 61, 1), (1, 61, 0), (2, 0, 0), (2, 0, 1), (3, 0, 1), (3, 0, 4)]
PREV_TABLE = [None, (0, 40, 1), (0, 40, 0), (3, 0, 0), (1, 41, 1), (2, 42, 1), (2, 42, 0)]


def main_table(rng):
    """ the whole decision table of one run_module step, in both settings, with bystander entries of
        other modules before / after (kept in place; a raw one of a module that is not visited makes
        the dump fail, by design) """
    for prev in PREV_TABLE:
        picked = rng.choice(REGEN_TABLE)
        for regen in REGEN_TABLE:
            if (prev is None or prev[0] != 0) and regen != picked:
                continue       # regenerate is not called: one regenerate behaviour is enough
            for in_all in (0, 1):
                for enabled in (0, 1):
                    for run in RUN_TABLE:
                        if not (in_all and enabled) and run != RUN_TABLE[rng.randrange(len(RUN_TABLE))] \
                                and rng.random() < 0.7:
                            continue
                        for mode in (0, 1):
                            entries = []
                            r = rng.random()
                            if r < 0.35:
                                entries.append((2, 1, 70, rng.choice([0, 1])))
                            elif r < 0.45:
                                entries.append((2, 0, 71, 1))
                            if prev is not None:
                                entries.append((1,) + prev)
                            if rng.random() < 0.3:
                                entries.append((3, rng.choice([1, 1, 3]), 72, 1))
                            beh = (1,) + regen + (in_all, enabled) + run
                            yield mode, entries, [beh], "table"


def gen_main_sequence(rng):
    """ several modules in a row over a map with saved results for some of them """
    pool = [1, 2, 3, 4, 5, 6]
    names = rng.sample(pool, rng.randint(2, 5))
    if rng.random() < 0.1:
        names.append(rng.choice(names))         # a module visited twice
    entries = []
    for name in rng.sample(pool, rng.randint(0, 5)):
        r = rng.random()
        if r < 0.8 or name not in names:
            kind, truthy = (0, int(rng.random() < 0.85)) if r < 0.93 else (rng.choice([1, 3]), 1)
        else:
            kind, truthy = rng.choice([1, 2, 3]), int(rng.random() < 0.7)
        entries.append((name, kind, 40 + name, truthy if kind != 3 else 0))
    wild = rng.random() < 0.3       # modules that break the interface or raise
    behs = []
    for pos, name in enumerate(names):
        r = rng.random()
        if r < 0.35:
            regen = (0, 0, 0)
        elif r < 0.8 or not wild:
            regen = (1, 50 + pos, int(rng.random() < 0.8))
        elif r < 0.9:
            regen = (2, 50 + pos, int(rng.random() < 0.7))
        else:
            regen = (3, 0, rng.choice([1, 9]))
        r = rng.random()
        if r < 0.45:
            run = (0, 60 + pos, int(rng.random() < 0.85))
        elif r < 0.9 or not wild:
            run = (1, 60 + pos, int(rng.random() < 0.85))
        elif r < 0.95:
            run = (2, 0, rng.choice([0, 1]))
        else:
            run = (3, 0, rng.choice([1, 4]))
        behs.append((name,) + regen + (int(rng.random() < 0.6), int(rng.random() < 0.75)) + run)
    return rng.choice([0, 1]), entries, behs, "wild_sequence" if wild else "sequence"


class Proxy:
    """ a real module behind a recorder: the calls go to the real functions """
    def __init__(self, module, number, reg, log, regen_id=50, run_id=60):
        self.module, self.name, self.reg, self.log = module, number, reg, log
        self.__name__ = module.__name__
        self.regen_id, self.run_id = regen_id, run_id

    def is_enabled(self, options):
        return self.module.is_enabled(options)

    def regenerate_previous_results(self, previous, record, options):
        self.log.extend([1, self.name, self.reg.ident(previous)])
        results = self.module.regenerate_previous_results(previous, record, options)
        if results is not None:
            self.reg.add(results, self.regen_id)
        return results

    def run_on_record(self, record, results, options):
        self.log.extend([2, self.name, -1 if results is None else self.reg.ident(results)])
        out = self.module.run_on_record(record, results, options)
        if out is not results:
            self.reg.add(out, self.run_id)
        return out


def classify(fn):
    """ what a real function does on this input, as a behaviour of the model: (kind, id, flag) """
    try:
        res = fn()
    except Exception as exc:  # pylint: disable=broad-except
        return (3, 0, err_code(exc)), None
    if res is None:
        return (0, 0, 0), None
    return (1, 50, int(bool(res))), res


def real_tta_cases(chk, rng, count):
    """ main.run_module over the real TTA module: saved under threshold a, reused under threshold b,
        module enabled or not (--minimal), saved schema below / equal / above, codons or none """
    import copy
    from antismash import main as amain
    from antismash.config import build_config, destroy_config, update_config, get_config
    from antismash.modules import tta
    from antismash.modules.tta.tta import TTAResults
    from antismash.common.secmet.test.helpers import DummyCDS, DummyRecord
    global _TTA_READY
    record = DummyRecord(seq="ATGC" * 500, features=[DummyCDS(100, 400, locus_tag="cdsA")], record_id="rec")
    gc = record.get_gc_content()
    cur = TTAResults.schema_version
    out = []
    table = []
    for saved_thr in (0.3, gc, 0.9):
        for now_thr in (0.3, gc, 0.9):
            for codons in (0, 2):
                for present in ("saved", "absent", "empty"):
                    for schema in (cur, cur - 1, cur + 1):
                        for enabled in (0, 1):
                            table.append((saved_thr, now_thr, codons, present, schema, enabled))
    rng.shuffle(table)
    # every (present, schema, enabled) combination is kept; the threshold grid is sampled
    seen = set()
    chosen = []
    for row in table:
        key = row[2:]
        if key not in seen or len(chosen) < count:
            seen.add(key)
            chosen.append(row)
    try:
        for saved_thr, now_thr, codons, present, schema, enabled in chosen:
            destroy_config()
            build_config(["--tta-threshold", str(now_thr)] + ([] if enabled else ["--minimal"]), isolated=True, modules=[tta])
            options = get_config()
            found = TTAResults("rec", gc, saved_thr)
            if gc >= saved_thr:
                for k in range(codons):
                    found.new_feature_from_basics(112 + 3 * k, 1)
            saved = through_orjson(found.to_json())
            saved["schema_version"] = schema
            reg, log = Registry(), []
            proxy = Proxy(tta, 100, reg, log)
            update_config({"all_enabled_modules": [proxy] if enabled else []})
            assert tta.is_enabled(options) == bool(enabled)
            entries = []
            module_results = {}
            regen = (0, 0, 0)
            if present != "absent":
                raw = reg.add(saved if present == "saved" else {}, 40)
                module_results[tta.__name__] = raw
                entries.append((100, 0, 40, int(bool(raw))))
                regen, _ = classify(lambda: tta.regenerate_previous_results(copy.deepcopy(raw), record, options))
            fresh = tta.detect(record, options)
            beh = (100,) + regen + (enabled, enabled, 1, 60, int(bool(fresh)))
            describe = {"module": "tta", "saved": saved if present == "saved" else present, "gc": gc,
                        "threshold_now": now_thr, "enabled": enabled}

            def work():
                timings = {}
                amain.run_module(record, proxy, options, module_results, timings)
                return finish_main_case(chk, module_results, reg, log, timings, describe)
            impl = guarded(work)
            # the clause itself: saved under another schema version -> never reused
            if present == "saved" and schema != cur and isinstance(module_results.get(tta.__name__), TTAResults) \
                    and reg.ident(module_results[tta.__name__]) == 50:
                chk.violation("counterexample", "TTA results saved under another schema version are reused by main.run_module",
                              {"input": describe, "theorem_or_correspondence": "C11_guards_tta_schema"})
            which = "below" if schema < cur else ("above" if schema > cur else "equal")
            chk.count(f"schema_matrix:main.run_module(tta):{which}")
            out.append((0, entries, [beh], impl, "real_tta", describe))
    finally:
        destroy_config()
        _TTA_READY = False
    return out


def real_hmm_cases(chk, rng):
    """ main.run_module over the real hmm_detection module (regenerate path; the rule set is a small one
        with dynamic profiles): as saved, empty, schema below / above (outer and inner), other record,
        changed rule set; in options.all_enabled_modules or not """
    import copy
    import detect_util
    from antismash import main as amain
    from antismash.detection import hmm_detection
    from antismash.common.hmm_rule_parser.cluster_prediction import RuleDetectionResults
    genes = [("g0", [(100, 1000, 1)]), ("g1", [(1500, 2400, -1)]), ("g2", [(9000, 9900, 1)])]
    rules = "RULE rulep CATEGORY c CUTOFF 5 NEIGHBOURHOOD 2 CONDITIONS p\nRULE ruleq CATEGORY c CUTOFF 5 NEIGHBOURHOOD 0 CONDITIONS q and p"
    hits = {"g0": {"p"}, "g1": {"p", "q"}, "g2": set()}
    ruleset = detect_util.make_ruleset(rules, ["p", "q"], hits)
    other = detect_util.make_ruleset(rules.replace("ruleq", "ruler"), ["p", "q"], hits)

    def fresh(rid="rec"):
        record = detect_util.make_record(30000, False, genes)
        record.id = rid
        return record
    options = types.SimpleNamespace(hmmdetection_strictness="relaxed", taxon="bacteria",
                                    hmmdetection_fungal_cutoff_multiplier=1.0, hmmdetection_fungal_neighbourhood_multiplier=1.5,
                                    hmmdetection_limit_to_rules=[], hmmdetection_limit_to_categories=[])
    out = []
    old = hmm_detection.get_ruleset
    hmm_detection.get_ruleset = lambda _options: ruleset
    try:
        saved = through_orjson(hmm_detection.run_on_record(fresh(), None, options).to_json())
        outer, inner = hmm_detection.HMMDetectionResults.schema_version, RuleDetectionResults.schema_version
        variants = [("as_saved", saved, "rec", ruleset), ("empty", {}, "rec", ruleset), ("absent", None, "rec", ruleset),
                    ("record_id", saved, "other", ruleset), ("rule_set", saved, "rec", other)]
        for label, delta in (("outer_below", -1), ("outer_above", 1)):
            changed = copy.deepcopy(saved)
            changed["schema_version"] = outer + delta
            variants.append((label, changed, "rec", ruleset))
        for label, delta in (("inner_below", -1), ("inner_above", 1)):
            changed = copy.deepcopy(saved)
            changed["rule_results"]["schema_version"] = inner + delta
            variants.append((label, changed, "rec", ruleset))
        for label, j, rid, rset in variants:
            for in_all in (0, 1):
                hmm_detection.get_ruleset = lambda _options, rset=rset: rset
                reg, log = Registry(), []
                proxy = Proxy(hmm_detection, 101, reg, log)
                opts = types.SimpleNamespace(all_enabled_modules=[proxy] if in_all else [], **vars(options))
                entries, module_results, regen = [], {}, (0, 0, 0)
                if j is not None:
                    raw = reg.add(copy.deepcopy(j), 40)
                    module_results[hmm_detection.__name__] = raw
                    entries.append((101, 0, 40, int(bool(raw))))
                    regen, _ = classify(lambda: hmm_detection.regenerate_previous_results(copy.deepcopy(j), fresh(rid), opts))
                beh = (101,) + regen + (in_all, 1, 1, 60, 1)
                record = fresh(rid)
                describe = {"module": "hmm_detection", "variant": label, "in_all_enabled_modules": in_all}

                def work():
                    timings = {}
                    amain.run_module(record, proxy, opts, module_results, timings)
                    return finish_main_case(chk, module_results, reg, log, timings, describe)
                impl = guarded(work)
                kept = module_results.get(hmm_detection.__name__)
                if ("below" in label or "above" in label) and kept is not None and impl[0] == 0 and reg.ident(kept) == 50:
                    chk.violation("counterexample", f"HMM detection results saved under another schema version ({label}) are reused",
                                  {"input": describe, "theorem_or_correspondence": "C11_guards_det_from_json_inv"})
                if "below" in label or "above" in label:
                    chk.count(f"schema_matrix:main.run_module(hmm_detection):{label}")
                out.append((0, entries, [beh], impl, "real_hmm_detection", describe))
    finally:
        hmm_detection.get_ruleset = old
    return out


# regression corpus of the main level, run first: (label, command line, module in options.all_enabled_modules).
# The first row is the recorded witness of FC11a; the others vary the way the module ends up not running (absent from
# all_enabled_modules / listed but is_enabled false) and the threshold (below / equal to the GC content 0.5).
FALSY_CORPUS = [
    ("FC11a witness: --tta-threshold 0.3 --minimal, tta not in all_enabled_modules", ["--tta-threshold", "0.3", "--minimal"], False),
    ("--tta-threshold 0.3 --minimal, tta in all_enabled_modules but is_enabled false", ["--tta-threshold", "0.3", "--minimal"], True),
    ("--tta-threshold 0.5 (== GC content) --minimal, tta not in all_enabled_modules", ["--tta-threshold", "0.5", "--minimal"], False),
    ("--tta-threshold 0.3, tta enabled by default but not in all_enabled_modules", ["--tta-threshold", "0.3"], False),
]


def regression_falsy_results(chk):
    """ regression corpus (repaired finding FC11a, class falsy_results_dropped) on the real code: TTA results
        without codons (TTAResults.__len__ == 0, a falsy object) that tta.regenerate_previous_results ACCEPTS must
        be in module_results after main.run_module when the module does not run, save to the same JSON again and
        go through serialiser.dump_records """
    from antismash import main as amain
    from antismash.common import serialiser
    from antismash.config import build_config, destroy_config, update_config, get_config
    from antismash.modules import tta
    from antismash.modules.tta.tta import TTAResults
    from antismash.common.secmet.test.helpers import DummyCDS, DummyRecord
    global _TTA_READY
    for label, argv, in_all in FALSY_CORPUS:
        chk.count("regression_corpus:" + MAIN_REPAIRED_CLASS)
        record = DummyRecord(seq="ATGC" * 500, features=[DummyCDS(100, 400, locus_tag="cdsA")], record_id="rec")
        describe = {"regression_witness_of_repaired_class": MAIN_REPAIRED_CLASS, "case": label,
                    "record": "DummyRecord(seq='ATGC'*500, one CDS 100..400, id 'rec'), GC content 0.5", "options": argv,
                    "tta in options.all_enabled_modules": in_all}
        try:
            destroy_config()
            build_config(argv, isolated=True, modules=[tta])
            update_config({"all_enabled_modules": [tta] if in_all else []})
            options = get_config()
            saved = through_orjson(TTAResults("rec", record.get_gc_content(), options.tta_threshold).to_json())
            describe["saved"] = saved
            accepted = tta.regenerate_previous_results(through_orjson(saved), record, options)
            runs = in_all and tta.is_enabled(options)
            if accepted is None or len(accepted) != 0 or accepted.to_json() != saved or runs:
                chk.violation("broken-correspondence", "regression corpus: the witness of the repaired finding FC11a no longer "
                              "describes accepted falsy results of a module that does not run",
                              dict(describe, theorem_or_correspondence="regression corpus (generator discipline)"))
                continue
            module_results = {tta.__name__: through_orjson(saved)}
            amain.run_module(record, tta, options, module_results, {})
            kept = module_results.get(tta.__name__)
            describe["module_results after main.run_module"] = {k: type(v).__name__ for k, v in module_results.items()}
            if not isinstance(kept, TTAResults) or kept.to_json() != saved:
                chk.violation("counterexample", f"regression (repaired finding FC11a, class {MAIN_REPAIRED_CLASS}): main.run_module "
                              "drops accepted results that are falsy (TTAResults without TTA codons) when the module does not run - "
                              "the re-saved results file loses the module's entry",
                              dict(describe, theorem_or_correspondence="C11_main_accepted_kept / C11_main_accepted_falsy_kept"))
                continue
            dumped = serialiser.dump_records([module_results], [record])
            if through_orjson(dumped[0]["modules"].get(tta.__name__)) != saved:
                chk.violation("counterexample", f"regression (repaired finding FC11a, class {MAIN_REPAIRED_CLASS}): the kept falsy "
                              "results are not written out identically by serialiser.dump_records",
                              dict(describe, theorem_or_correspondence="C11_main_accepted_kept / C11_main_dump_ok"))
        except Exception as exc:  # pylint: disable=broad-except
            chk.violation("counterexample", f"regression (repaired finding FC11a, class {MAIN_REPAIRED_CLASS}): the reusing run dies "
                          f"with {type(exc).__name__}: {exc}",
                          dict(describe, theorem_or_correspondence="C11_main_accepted_kept / C11_main_total_under_guard"))
        finally:
            destroy_config()
            _TTA_READY = False


def schema_matrix(chk, labels):
    """ every from_json / regenerate with a schema check, deterministically, with the saved version
        below, equal to and above the current one: reused exactly when equal """
    import copy
    rng = __import__("random").Random(5)
    rows = []
    # NRPS/PKS domains
    record, cdss = make_nrps_record(3)
    saved = None
    while saved is None or not saved["cds_results"]:
        record, cdss = make_nrps_record(3)
        try:
            saved = through_orjson(gen_nrps_results(rng, labels, record, cdss).to_json())
        except Exception:  # pylint: disable=broad-except
            saved = None
    names = [c.get_name() for c in cdss]
    rows.append(("NRPSPKSDomains", saved, ["schema_version"], lambda j, cur: impl_nrps([j, "rec", names, cur])))
    tta_j = {"TTA codons": [{"start": 5, "strand": 1}], "schema_version": 2, "record_id": "rec", "gc_content": 0.5, "threshold": 0.3}
    rows.append(("TTAResults", tta_j, ["schema_version"], lambda j, cur: impl_tta([j, 0.3, "rec", cur])))
    hm_j = {"hits": [], "record id": "rec", "schema": 2, "max evalue": 0.01, "min score": 10.0,
            "database": "/db/pfam/35.0/Pfam-A.hmm", "tool": "cluster_hmmer"}
    rows.append(("HmmerResults.from_json", hm_j, ["schema"], lambda j, cur: impl_hmmer([j, "rec", cur, 0.01, 10.0, 0])))
    rows.append(("cluster_hmmer.regenerate", hm_j, ["schema"], lambda j, cur: impl_hmmer([j, "rec", cur, 0.01, 10.0, 1])))
    det_j = {"record_id": "rec", "schema_version": 2, "enabled_types": ["a", "b"],
             "rule_results": {"schema_version": 4, "tool": "rule-based-clusters", "cds_by_protocluster": [],
                              "outside_protoclusters": [], "multipliers": {"cutoff": 1.0, "neighbourhood": 1.0}},
             "strictness": "relaxed"}
    rows.append(("HMMDetectionResults(outer)", det_j, ["schema_version"],
                 lambda j, cur: impl_det([j, "rec", ["a", "b"], False, 1.0, 1.0, cur, 4])))
    rows.append(("HMMDetectionResults(inner)", det_j, ["rule_results", "schema_version"],
                 lambda j, cur: impl_det([j, "rec", ["a", "b"], False, 1.0, 1.0, 2, cur])))
    side_j = {"record_id": "rec", "schema_version": 1, "protoclusters": [], "subregions": [
        {"circular_origin": None, "start": 5, "end": 50, "label": "lab", "details": {}, "tool": {
            "name": "tool", "version": "1.0", "description": "", "configuration": {}}}]}
    rows.append(("SideloadedResults", side_j, ["schema_version"], lambda j, cur: impl_side([j, "rec", None, cur])))
    import c11_rule
    rule_args, what = c11_rule.gen_rule(rng)
    while what != "as_saved":
        rule_args, what = c11_rule.gen_rule(rng)
    rule_args = through_orjson(rule_args)
    rows.append(("RuleDetectionResults", rule_args[0], ["schema_version"],
                 lambda j, cur: c11_rule.impl_rule([j, rule_args[1], cur])))
    for name, base, path, call in rows:
        holder = base
        for key in path[:-1]:
            holder = holder[key]
        cur = holder[path[-1]]
        for which, saved_v, cur_v in (("equal", cur, cur), ("below", cur - 1, cur), ("above", cur + 1, cur),
                                      ("current_raised", cur, cur + 1), ("current_lowered", cur, cur - 1)):
            j = copy.deepcopy(base)
            holder = j
            for key in path[:-1]:
                holder = holder[key]
            holder[path[-1]] = saved_v
            out = call(j, cur_v)
            chk.count(f"schema_matrix:{name}:{which}")
            reused = out[:2] == [0, 1]
            if reused != (which == "equal"):
                text = "are not reused" if which == "equal" else "are reused"
                chk.violation("counterexample", f"{name}: results saved under schema version {saved_v} {text} while the "
                              f"current version is {cur_v}",
                              {"input": {"saved": j, "current_schema_version": cur_v}, "implementation": out[:12],
                               "theorem_or_correspondence": "C11_guards_*_reuse_inv (schema version)"})


def main_level(chk, rng, quick, add_case):
    """ generates and runs the fn 9 family; returns [(index in cases, describe)] for the spec pass """
    todo = list(main_table(rng))
    for _ in range(1500 if quick else 30000):
        todo.append(gen_main_sequence(rng))
    for mode, entries, behs, what in todo:
        impl = impl_main(chk, mode, entries, behs,
                         stages=sorted([rng.randint(0, len(behs)), rng.randint(0, len(behs))]) if mode else None)
        add_case(mode, entries, behs, impl, what, None)
    for mode, entries, behs, impl, what, describe in real_tta_cases(chk, rng, 60 if quick else 400):
        add_case(mode, entries, behs, impl, what, describe)
    for mode, entries, behs, impl, what, describe in real_hmm_cases(chk, rng):
        add_case(mode, entries, behs, impl, what, describe)


# ---------------------------------------------------------------- the reuse path: results file -> read_data -> regeneration
# (model: coq/C11/ModelTop.v).  A first run through the real main.run_detection / analyse_record (the binary-dependent
# run_on_record of full_hmmer / cluster_hmmer / sideloader is replaced by handing out prebuilt results objects; hmm_detection
# over dynamic profiles and tta run for real), the real AntismashResults.write_to_file at the point main._run_antismash
# writes it, annotate_records; then the reusing run: real main.read_data on that file, real run_detection / analyse_record
# over the REAL module lists with nothing (or only tta) enabled, write_to_file, annotate_records.  Compared: the features of
# every record (multiset), the module JSON, the record JSON of the two files.

PFAM_DB = os.path.join("dummy", "pfam", "35.0", "Pfam-A.hmm")
REUSE_PROFILES = ["p", "q"]


def reuse_gen(rng):
    """ the description of one first run: records with genes, whole-genome annotations, areas """
    records = []
    n_records = rng.choice([1, 2, 2, 3])
    for r in range(n_records):
        n_genes = rng.randint(1, 4)
        gene_len = 300
        length = 200 + 600 * n_genes
        gc = rng.choice([0.3, 0.5, 0.7])
        seq = "".join(rng.choice("GC") if rng.random() < gc else rng.choice("AT") for _ in range(length))
        genes = []
        for g in range(n_genes):
            start = 60 + 600 * g
            genes.append([f"r{r}g{g}", start, start + gene_len, rng.choice([1, -1])])
        area = rng.choice(["none", "none", "none", "subregion", "protocluster", "both", "rules", "rules+subregion"])
        subregions, protoclusters, rule_hits = [], [], {}
        if "subregion" in area or area == "both":
            a = rng.randint(0, length - 200)
            subregions.append([a, rng.randint(a + 100, length), rng.choice(["lab", "other label"])])
            if rng.random() < 0.3:
                b = rng.randint(0, length - 200)
                subregions.append([b, rng.randint(b + 100, length), "second"])
        if area in ("protocluster", "both"):
            gene = rng.choice(genes)
            left = rng.choice([0, 30, gene[1]])
            right = rng.choice([0, 50, length - gene[2]])
            protoclusters.append([gene[1], gene[2], rng.choice(["prodA", "prodB"]), left, right])
        if "rules" in area:
            for gene in genes:
                rule_hits[gene[0]] = sorted(rng.sample(REUSE_PROFILES, rng.randint(0, 2)))
            if not any(rule_hits.values()):
                rule_hits[genes[0][0]] = ["p"]
        hmmer = {}
        for tool in ("fullhmmer", "clusterhmmer"):
            hits = []
            if rng.random() < (0.75 if tool == "fullhmmer" else 0.6):
                for gene in genes:
                    for _ in range(rng.choice([0, 1, 1, 2])):
                        a = rng.randint(0, gene_len // 3 - 10)
                        hits.append([gene[0], a, rng.randint(a + 1, gene_len // 3), rng.randint(1, 20000),
                                     rng.choice([1e-10, 2.5e-5, 0.01]), rng.choice([0.0, 12.5, 50.5, 300.25])])
            hmmer[tool] = hits
        records.append({"id": f"rec{r}", "seq": seq, "circular": rng.random() < 0.3, "genes": genes, "area": area,
                        "subregions": subregions, "protoclusters": protoclusters, "rule_hits": rule_hits,
                        "fullhmmer": hmmer["fullhmmer"], "clusterhmmer": hmmer["clusterhmmer"],
                        "misc": rng.random() < 0.5})
    return {"records": records, "fullhmmer_enabled": rng.random() < 0.85, "clusterhmmer_enabled": rng.random() < 0.7,
            "sideload_enabled": any(rc["subregions"] or rc["protoclusters"] for rc in records) or rng.random() < 0.3,
            "tta": rng.choice([None, 0.0, 0.4, 0.65]), "tta_on_reuse": rng.random() < 0.5,
            "rules": "RULE rulep CATEGORY c CUTOFF 1 NEIGHBOURHOOD 0 CONDITIONS p\n"
                     "RULE ruleq CATEGORY c CUTOFF 1 NEIGHBOURHOOD 0 CONDITIONS q"}


def reuse_build_record(rc):
    from antismash.common.secmet import Record
    from antismash.common.secmet.features import CDSFeature, Feature
    from antismash.common.secmet.locations import FeatureLocation
    record = Record(rc["seq"])
    record.id = rc["id"]
    record.name = rc["id"]
    record.add_annotation("topology", "circular" if rc["circular"] else "linear")
    record.add_annotation("molecule_type", "DNA")
    for name, start, end, strand in rc["genes"]:
        record.add_cds_feature(CDSFeature(FeatureLocation(start, end, strand), translation="M" + "A" * ((end - start) // 3 - 1),
                                          locus_tag=name))
    if rc["misc"]:
        feature = Feature(FeatureLocation(5, 25, 1), feature_type="misc_feature")
        feature.notes.append("from the input file")
        record.add_feature(feature)
    return record


def reuse_hmmer_results(record, rc, tool, genes_allowed=None):
    from antismash.common.hmmer import HmmerHit, HmmerResults
    from antismash.detection import full_hmmer, cluster_hmmer
    module = full_hmmer if tool == "fullhmmer" else cluster_hmmer
    hits = []
    for gene, a, b, number, evalue, score in rc[tool]:
        if genes_allowed is not None and gene not in genes_allowed:
            continue
        cds = record.get_cds_by_name(gene)
        hits.append(HmmerHit(location=str(cds.get_sub_location_from_protein_coordinates(a, b)), label=f"label{number}",
                             locus_tag=gene, domain=f"domain{number}", evalue=evalue, score=score,
                             identifier=f"PF{number:05d}.{number % 9 + 1}", description=f"description {number}",
                             protein_start=a, protein_end=b, translation=cds.translation[a:b]))
    return HmmerResults(record.id, module.MAX_EVALUE, module.MIN_SCORE, PFAM_DB, tool, hits)


def reuse_sideloaded(record, rc):
    from antismash.detection.sideloader.data_structures import (SideloadedResults, SubRegionAnnotation,
                                                                  ProtoclusterAnnotation, Tool)
    tool = Tool("manual", "N/A", "command line argument", {})
    origin = len(record) if record.is_circular() else None      # as sideloader.general.load_single_record_annotations
    subs = [SubRegionAnnotation(s, e, label, tool, {}, circular_origin=origin) for s, e, label in rc["subregions"]]
    protos = [ProtoclusterAnnotation(s, e, product, tool, {}, left, right, circular_origin=origin)
              for s, e, product, left, right in rc["protoclusters"]]
    return SideloadedResults(record.id, subs, protos)


def reuse_ruleset(case):
    """ the rule set of the case: dynamic profiles that hit the genes of the record they are asked about """
    from antismash.common.hmm_rule_parser import rule_parser
    from antismash.common.hmm_rule_parser.structures import DynamicProfile, DynamicHit
    from antismash.common.hmm_rule_parser.test.helpers import create_ruleset
    hits = {rc["id"]: rc["rule_hits"] for rc in case["records"]}

    def make(profile):
        def detect(record, _hmmer_hits):
            return {gene: [DynamicHit(gene, profile)] for gene, profs in hits.get(record.id, {}).items() if profile in profs}
        return DynamicProfile(profile, "d", detect)
    rules = rule_parser.Parser(case["rules"], set(REUSE_PROFILES), {"c"}).rules
    return create_ruleset(rules, dynamic_profiles={p: make(p) for p in REUSE_PROFILES})


class FirstRun:
    """ a detection module whose own computation needs external binaries or input files: run_on_record hands out the
        results object prepared for the record; everything else is the real module """
    def __init__(self, module, build):
        self.module, self.build = module, build
        self.__name__ = module.__name__

    def is_enabled(self, _options):
        return True

    def regenerate_previous_results(self, previous, record, options):
        return self.module.regenerate_previous_results(previous, record, options)

    def run_on_record(self, record, results, _options):
        if results is not None:
            return results
        return self.build(record)


def reuse_feature_key(feature):
    """ one Biopython feature of the annotated record, canonically """
    quals = tuple(sorted((key, tuple(str(v) for v in (vals if isinstance(vals, (list, tuple)) else [vals])))
                         for key, vals in feature.qualifiers.items()))
    return (feature.type, str(feature.location), quals)


def reuse_record_features(record):
    return sorted(reuse_feature_key(f) for f in record.to_biopython().features)


def reuse_pipeline(results, options):
    """ the record loop of main._run_antismash between read_data and the output modules (pre_process_sequences, which
        needs gene finding, left out): detection, analysis """
    from antismash import main as amain
    for index, (record, module_results) in enumerate(zip(results.records, results.results)):
        if record.skip:
            continue
        try:
            amain.run_detection(record, options, module_results)
            if not record.get_regions():
                continue
            amain.analyse_record(record, options, amain.get_analysis_modules(), module_results)
        except Exception as exc:  # pylint: disable=broad-except
            exc.verif_record_index = index
            raise


def reuse_json_feature_key(feature):
    """ a feature of a record as saved in the results file (serialiser.feature_to_json), keyed as reuse_feature_key """
    quals = tuple(sorted((key, tuple(str(v) for v in (vals if isinstance(vals, (list, tuple)) else [vals])))
                         for key, vals in feature["qualifiers"].items()))
    return (feature["type"], feature["location"], quals)


def reuse_run(case, tmpdir, read_data=None):
    """ first run, results file, reusing run; returns {"status": "ok" | "differs" | "dies" | "first_run_failed", ...} """
    import detect_util
    from antismash import main as amain
    from antismash.common import serialiser, json as asjson
    from antismash.config import build_config, destroy_config, update_config
    from antismash.detection import DetectionStage, full_hmmer, cluster_hmmer, sideloader, hmm_detection
    from antismash.modules import tta
    global _TTA_READY
    by_id = {rc["id"]: rc for rc in case["records"]}
    ruleset = reuse_ruleset(case)
    use_rules = any(rc["rule_hits"] for rc in case["records"])
    first = {
        DetectionStage.FULL_GENOME: [
            FirstRun(full_hmmer, lambda record: reuse_hmmer_results(record, by_id[record.id], "fullhmmer")),
            FirstRun(sideloader, lambda record: reuse_sideloaded(record, by_id[record.id]))],
        DetectionStage.AREA_FORMATION: [hmm_detection],
        DetectionStage.AREA_REFINEMENT: [],
        DetectionStage.PER_AREA: [
            FirstRun(cluster_hmmer, lambda record: reuse_hmmer_results(
                record, by_id[record.id], "clusterhmmer", {c.get_name() for c in record.get_cds_features_within_regions()}))],
    }
    enabled = []
    if case["fullhmmer_enabled"]:
        enabled.append(first[DetectionStage.FULL_GENOME][0])
    if case["sideload_enabled"]:
        enabled.append(first[DetectionStage.FULL_GENOME][1])
    if use_rules:
        enabled.append(hmm_detection)
    if case["clusterhmmer_enabled"]:
        enabled.append(first[DetectionStage.PER_AREA][0])
    if case["tta"] is not None:
        enabled.append(tta)
    argv = ["--tta-threshold", str(case["tta"] if case["tta"] is not None else 0.65)]
    old_modules, old_ruleset = amain._DETECTION_MODULES, hmm_detection.get_ruleset  # pylint: disable=protected-access
    hmm_detection.get_ruleset = lambda _options: ruleset
    summary = []
    path1, path2 = os.path.join(tmpdir, "first.json"), os.path.join(tmpdir, "second.json")
    try:
        # ---- the first run
        try:
            destroy_config()
            options = build_config(argv, isolated=True, modules=amain.get_all_modules())
            update_config({"all_enabled_modules": enabled})
            records = [reuse_build_record(rc) for rc in case["records"]]
            results = serialiser.AntismashResults("input.gbk", records, [{} for _ in records], "verif", taxon="bacteria")
            amain._DETECTION_MODULES = first  # pylint: disable=protected-access
            try:
                reuse_pipeline(results, options)
            finally:
                amain._DETECTION_MODULES = old_modules  # pylint: disable=protected-access
            results.write_to_file(path1)
            amain.annotate_records(results)
            expected = [reuse_record_features(record) for record in records]
            expected_json = [{name: asjson.dumps(res.to_json()) for name, res in mr.items()} for mr in results.results]
        except Exception as exc:  # pylint: disable=broad-except
            return {"status": "first_run_failed", "what": f"{type(exc).__name__}: {exc}"}
        for record, rc, mr in zip(records, case["records"], results.results):
            summary.append({"id": record.id, "regions": len(record.get_regions()),
                            "fullhmmer": len(record.get_pfam_domains()), "modules": sorted(m.rsplit(".", 1)[-1] for m in mr),
                            "features": len(expected[len(summary)])})
        with open(path1, encoding="utf-8") as handle:
            saved = [sorted(reuse_json_feature_key(f) for f in rec["features"]) for rec in asjson.loads(handle.read())["records"]]
        # ---- the reusing run
        stage = "read_data"
        try:
            destroy_config()
            options = build_config(argv + ["--reuse-results", path1], isolated=True, modules=amain.get_all_modules())
            update_config({"all_enabled_modules": [tta] if case["tta_on_reuse"] and case["tta"] is not None else []})
            reused = (read_data or amain.read_data)(None, options)
            stage = "run_detection / analyse_record"
            reuse_pipeline(reused, options)
            stage = "write_to_file"
            reused.version = "verif"
            reused.write_to_file(path2)
            stage = "annotate_records"
            amain.annotate_records(reused)
        except Exception as exc:  # pylint: disable=broad-except
            return {"status": "dies", "records": summary, "error": err_code(exc), "expected": expected, "saved": saved,
                    "died_at": getattr(exc, "verif_record_index", None),
                    "what": f"the reusing run dies in {stage}: {type(exc).__name__}: {exc}"}
        found = [reuse_record_features(record) for record in reused.records]
        out = {"status": "ok", "records": summary, "expected": expected, "found": found, "saved": saved}
        if [r.id for r in reused.records] != [r.id for r in records]:
            return dict(out, status="differs", what="the records of the results file differ")
        for i, (want, got) in enumerate(zip(expected, found)):
            if want != got:
                missing = [f for f in want if f not in got]
                extra = [f for f in got if f not in want]
                return dict(out, status="differs", record=i,
                            what=f"record {records[i].id}: the annotated record after reuse differs from the first run's: "
                                 f"{len(want)} features then, {len(got)} now; missing {missing[:2]}, unexpected {extra[:2]}")
        found_json = [{name: asjson.dumps(res.to_json()) for name, res in mr.items()} for mr in reused.results]
        for i, (want, got) in enumerate(zip(expected_json, found_json)):
            if list(want) != list(got):
                return dict(out, status="differs", record=i,
                            what=f"record {records[i].id}: results of {list(want)} were saved, the reusing run holds {list(got)}")
            for name in want:
                if want[name] != got[name]:
                    return dict(out, status="differs", record=i,
                                what=f"record {records[i].id}: the regenerated {name} results save to different JSON")
        with open(path1, encoding="utf-8") as handle:
            data1 = asjson.loads(handle.read())
        with open(path2, encoding="utf-8") as handle:
            data2 = asjson.loads(handle.read())
        if asjson.dumps(data1["records"]) != asjson.dumps(data2["records"]):
            return dict(out, status="differs", what="the results file written by the reusing run has different records")
        if {k: v for k, v in data1.items() if k not in ("records", "timings")} != \
                {k: v for k, v in data2.items() if k not in ("records", "timings")}:
            return dict(out, status="differs", what="the results file written by the reusing run has different top-level fields")
        return out
    finally:
        amain._DETECTION_MODULES = old_modules  # pylint: disable=protected-access
        hmm_detection.get_ruleset = old_ruleset
        destroy_config()
        _TTA_READY = False


REUSE_KIND = {"protocluster": 1, "proto_core": 1, "cand_cluster": 2, "subregion": 3, "region": 4, "aSDomain": 5,
              "PFAM_domain": 6, "aSModule": 7, "CDS_motif": 8}


def reuse_abstract(saved, final, found):
    """ one record of a reuse case in the vocabulary of coq/C11/ModelTop.v: every distinct feature gets an identity,
        a kind, a name (the domain name for the kinds sharing Record._domains_by_name) and the created-by-antiSMASH flag;
        what was saved is split by the stage of main.run_detection that adds it, what the analysis modules added is
        final minus saved.  Returns (flat payload, saved ids, final ids, found ids or None) """
    keys = sorted(set(saved) | set(final) | set(found or []))
    ident = {key: i for i, key in enumerate(keys)}
    names = {}

    def feat(key):
        quals = dict(key[2])
        kind = REUSE_KIND.get(key[0], 0)
        name = ident[key]
        if kind in (5, 6, 8):
            label = quals.get("domain_id", quals.get("label", (repr(key),)))[0]
            name = 100000 + names.setdefault(label, len(names))
        return [ident[key], kind, name, int(quals.get("tool") == ("antismash",))]
    base, early, derived, per_area = [], [], [], []
    for key in saved:
        kind = REUSE_KIND.get(key[0], 0)
        tool = dict(key[2]).get("aSTool", ("",))[0]
        if kind == 0 or (kind == 8 and dict(key[2]).get("tool") != ("antismash",)):
            base.append(key)
        elif kind in (2, 4):
            derived.append(key)
        elif tool in ("clusterhmmer",) or kind in (5, 7, 8):
            per_area.append(key)
        else:
            early.append(key)
    rest = list(final)
    for key in saved:
        if key in rest:
            rest.remove(key)
    flat = []
    for group in (base, early, derived, per_area, rest):
        flat.append(len(group))
        for key in group:
            flat += feat(key)
    return (flat, sorted(ident[k] for k in saved), sorted(ident[k] for k in final),
            None if found is None else sorted(ident[k] for k in found))


def reuse_level(chk, rng, quick, add_case):
    """ the reuse-path family: add_case(flat, impl_out, what, describe) per record; whole-file disagreements (module JSON,
        results file text) are judged here against the first run directly """
    import shutil
    import tempfile
    tmpdir = tempfile.mkdtemp(prefix="asv_c11_reuse_")
    reported = False
    try:
        for _ in range(300 if quick else 3000):
            case = reuse_gen(rng)
            out = reuse_run(case, tmpdir)
            chk.count("reuse_path:" + out["status"])
            if out["status"] == "first_run_failed":
                chk.violation("broken-correspondence", "reuse path: the first run of a generated case fails: " + out["what"],
                              {"theorem_or_correspondence": "generator discipline", "input": case})
                break
            describe = {"first run": {k: v for k, v in case.items() if k != "records"},
                        "records": [{k: (v if k != "seq" else f"{len(v)} nt") for k, v in rc.items()} for rc in case["records"]]}
            if out["status"] == "dies" and out["died_at"] is None:
                if not reported:
                    reported = True
                    chk.violation("counterexample", "reuse path: " + out["what"],
                                  {"input": describe, "theorem_or_correspondence": "C11_reuse_after_strip_same_features"})
                continue
            if out["status"] == "differs" and "record" not in out and not reported:
                reported = True
                chk.violation("counterexample", "reuse path: " + out["what"],
                              {"input": describe, "theorem_or_correspondence": "reuse path (results file)"})
            for i, rc in enumerate(case["records"]):
                if out["status"] == "dies":
                    if i != out["died_at"]:
                        continue
                    found = None
                else:
                    found = out["found"][i]
                flat, saved_ids, _final_ids, found_ids = reuse_abstract(out["saved"][i], out["expected"][i], found)
                impl = [1, out["error"]] if found is None else [0, 1, len(saved_ids)] + saved_ids + [len(found_ids)] + found_ids
                info = out["records"][i]
                what = ("regions" if info["regions"] else "no_regions") + ("+fullhmmer" if info["fullhmmer"] else "")
                note = dict(describe, record=rc["id"], outcome=out.get("what", "reused"), first_run_summary=info)
                add_case([PROP, 21] + flat, impl, what, note, info)
            if out["status"] == "differs" and "record" in out and "save to different JSON" in out["what"] + "were saved" \
                    and not reported and ("JSON" in out["what"] or "were saved" in out["what"]):
                reported = True
                chk.violation("counterexample", "reuse path: " + out["what"],
                              {"input": describe, "theorem_or_correspondence": "reuse path (module results)"})
    finally:
        shutil.rmtree(tmpdir, ignore_errors=True)


# ---------------------------------------------------------------- fn 22: Record.strip_antismash_annotations and the name table
# (model: strip / add_feat / add_all of coq/C11/ModelTop.v).  Real features of every kind are added to a real record (areas
# optionally turned into candidate clusters and regions by the record itself), the record is stripped as main.read_data
# does, then further features are added: which features are on the record afterwards, or which exception the name
# table raises.

def strip_gen(rng):
    """ ([feat], create_regions, [feat]) with feat = [identity, kind, name, created_by_antismash] """
    counter = [0]
    names = list(range(1, 7))

    def some(n):
        out = []
        for _ in range(n):
            kind = rng.choice([0, 0, 1, 3, 5, 5, 6, 6, 8, 8])
            counter[0] += 1
            made = 1 if kind in (1, 3, 5, 6) else int(rng.random() < 0.6)
            name = rng.choice(names) if rng.random() < 0.8 else 10 + counter[0]
            out.append([counter[0], kind, name if kind in (5, 6, 8) else counter[0], made])
            if kind == 5 and rng.random() < 0.4:
                counter[0] += 1
                out.append([counter[0], 7, counter[0], 1])        # a module over the domain just added
        return out
    first = some(rng.randint(0, 7))
    if rng.random() < 0.55:
        # the usual history: no clash while the first run annotates
        seen, kept, drop_module = set(), [], False
        for feat in first:
            if feat[1] == 7 and drop_module:
                drop_module = False
                continue
            drop_module = False
            if feat[1] in (5, 6, 8):
                if feat[2] in seen:
                    drop_module = feat[1] == 5
                    continue
                seen.add(feat[2])
            kept.append(feat)
        first = kept
    again = rng.random()
    if again < 0.4:
        # what a reusing run adds: the antiSMASH-made features once more (new objects, same names)
        adds = []
        for feat in first:
            if feat[1] != 0 and feat[3]:
                counter[0] += 1
                adds.append([counter[0], feat[1], feat[2] if feat[1] in (5, 6, 8) else counter[0], 1])
    else:
        adds = some(rng.randint(0, 6))
    return first, int(rng.random() < 0.6), adds


def impl_strip(first, create, adds):
    from antismash.common.secmet.features import Feature, Module
    from antismash.common.secmet.locations import FeatureLocation
    from antismash.common.secmet.test.helpers import (DummyAntismashDomain, DummyCDS, DummyCDSMotif, DummyPFAMDomain,
                                                      DummyProtocluster, DummyRecord, DummySubRegion)

    def work():
        record = DummyRecord(seq="A" * 3000, features=[DummyCDS(0, 2700, locus_tag="cdsA")], record_id="rec")
        made = {}
        last_domain = [None]

        def add(feat, index):
            ident, kind, name, by_antismash = feat
            start = 9 + 12 * index
            end = start + 9
            if kind == 0:
                obj = Feature(FeatureLocation(start, end, 1), feature_type="misc_feature", created_by_antismash=bool(by_antismash))
            elif kind == 1:
                obj = DummyProtocluster(start=start, end=end, core_start=start + 3, core_end=end - 3)
            elif kind == 3:
                obj = DummySubRegion(start=start, end=end)
            elif kind == 5:
                obj = DummyAntismashDomain(start=start, end=end, domain_id=f"name{name}", locus_tag="cdsA")
                last_domain[0] = obj
            elif kind == 6:
                obj = DummyPFAMDomain(start=start, end=end, domain_id=f"name{name}", locus_tag="cdsA")
            elif kind == 7:
                obj = Module(last_domain[0].location, [last_domain[0]])
            else:
                obj = DummyCDSMotif(start=start, end=end, domain_id=f"name{name}", locus_tag="cdsA")
                obj.created_by_antismash = bool(by_antismash)
            made[id(obj)] = (ident, obj)
            record.add_feature(obj)
        for index, feat in enumerate(first):
            add(feat, index)
        if create:
            record.create_candidate_clusters()
            record.create_regions()
        record.strip_antismash_annotations()
        if record.get_regions() or record.get_candidate_clusters():
            return [7, 7]           # candidate clusters / regions survive the strip: differs from every model output
        for index, feat in enumerate(adds):
            add(feat, len(first) + index)
        found = []
        for feature in record.all_features:
            if id(feature) in made:
                found.append(made[id(feature)][0])
            elif feature.type != "CDS":
                return [7, 8]       # a feature nobody added
        return [0, 1, len(found)] + sorted(found)
    return guarded(work)


def strip_level(chk, rng, quick, add_case):
    for _ in range(1000 if quick else 12000):
        first, create, adds = strip_gen(rng)
        out = impl_strip(first, create, adds)
        flat = [PROP, 22, len(first)] + [x for feat in first for x in feat] + [len(adds)] + [x for feat in adds for x in feat]
        what = "error_in_first_run" if False else ("readd" if adds and all(f[3] for f in adds) else "mixed")
        add_case(flat, out, what, {"features added first (identity, kind, name, created_by_antismash)": first,
                                   "create_candidate_clusters + create_regions": create, "added after the strip": adds,
                                   "kinds": "0 other 1 protocluster 3 subregion 5 aSDomain 6 PFAM_domain 7 aSModule 8 CDS_motif"},
                 None)


# ---------------------------------------------------------------- the top-level reader: AntismashResults.from_file / main.read_data

def top_base_file():
    """ a results file of one small record with TTA results, produced by the real writer, as parsed JSON """
    from io import StringIO
    from antismash.common import serialiser
    from antismash.common.secmet.test.helpers import DummyCDS, DummyRecord
    from antismash.modules import tta
    from antismash.modules.tta.tta import TTAResults
    record = DummyRecord(seq="ATGTTAGGCCGCGGCTGA" * 4, features=[DummyCDS(0, 18, locus_tag="cdsA", translation="MLGRG")], record_id="rec1")
    found = TTAResults(record.id, record.get_gc_content(), 0.3)
    found.new_feature_from_basics(3, 1)
    results = serialiser.AntismashResults("dummy.gbk", [record], [{tta.__name__: found}], "verif", taxon="bacteria")
    handle = StringIO()
    results.write_to_file(handle)
    return through_orjson(__import__("json").loads(handle.getvalue()))


def top_variants(rng, cur, compat, count):
    """ (what, schema value or absent, other edits) """
    absent = object()
    listed = sorted(compat)
    below_unlisted = [s for s in (0, -1, min(listed + [cur]) - 1, cur - 1, cur - 2) if s != cur and s not in compat]
    rows = [("equal", cur, None)] + [("below_listed", s, None) for s in listed if s < cur] + \
           [("listed_not_below", s, None) for s in listed if s >= cur] + \
           [("below_unlisted", s, None) for s in below_unlisted] + \
           [("above", s, None) for s in (cur + 1, cur + 2, cur + 10, 2 ** 40)] + [("missing", absent, None)]
    for value in (str(cur), "", None, float(cur), float(cur) + 0.5, float(cur + 1), 1.0, 0.0, True, False, [], [cur], {},
                  {"schema": cur}, str(cur + 1)):
        rows.append(("non_integer", value, None))
    for key in ("version", "input_file", "records"):
        rows.append(("key_missing", cur, ("del", key)))
        rows.append(("key_missing", cur + 1, ("del", key)))
    for top in ([], [cur], cur, "results", None):
        rows.append(("not_an_object", cur, ("top", top)))
    for _ in range(count):
        rows.append(("random", rng.randint(-2, cur + 6), None))
    return absent, rows


def top_level(chk, rng, quick, add_case):
    """ AntismashResults.from_file and main.read_data on results files whose top-level schema is below (listed and
        unlisted), equal to and above the current one, missing or not an integer; under the real SCHEMA_VERSION and
        with it raised / lowered (the compatibility table then in force is the class's own entry for that version) """
    import tempfile
    import shutil
    import copy
    from io import StringIO
    from antismash import main as amain
    from antismash.common import serialiser
    from antismash.config import build_config, destroy_config
    global _TTA_READY
    cls = serialiser.AntismashResults
    real_cur = cls.SCHEMA_VERSION
    base = top_base_file()
    tmpdir = tempfile.mkdtemp(prefix="asv_c11_top_")
    path = os.path.join(tmpdir, "previous.json")
    known = set(cls.COMPATIBLE_SCHEMAS)

    def outcome(fn):
        try:
            res = fn()
        except Exception as exc:  # pylint: disable=broad-except
            return [1, err_code(exc)]
        return [0, 1, len(res.records)]
    try:
        destroy_config()
        with open(path, "w", encoding="utf-8") as handle:
            handle.write("{}")
        options = build_config(["--reuse-results", path], isolated=True, modules=amain.get_all_modules())
        for cur in (real_cur, real_cur + 1, real_cur - 1, 1):
            compat = sorted(cls.COMPATIBLE_SCHEMAS[cur]) if cur in known else []
            absent, rows = top_variants(rng, cur, compat, (40 if quick else 600) if cur == real_cur else 8)
            for what, schema, edit in rows:
                data = copy.deepcopy(base)
                if schema is absent:
                    del data["schema"]
                else:
                    data["schema"] = schema
                if edit and edit[0] == "del":
                    del data[edit[1]]
                elif edit:
                    data = edit[1]
                text = dumps(data)
                text = text.decode() if isinstance(text, bytes) else text
                with open(path, "w", encoding="utf-8") as handle:
                    handle.write(text)
                cls.SCHEMA_VERSION = cur
                try:
                    handle = StringIO(text)
                    handle.name = "previous.json"
                    out = outcome(lambda: cls.from_file(handle))
                    out_path = outcome(lambda: cls.from_file(path))
                    out_main = outcome(lambda: amain.read_data(None, options))
                finally:
                    cls.SCHEMA_VERSION = real_cur
                    if cur not in known:
                        cls.COMPATIBLE_SCHEMAS.pop(cur, None)      # the defaultdict lookup created an entry
                describe = {"schema field of the results file": "absent" if schema is absent else schema,
                            "AntismashResults.SCHEMA_VERSION": cur, "COMPATIBLE_SCHEMAS[SCHEMA_VERSION]": compat,
                            "other change": edit, "from_file": out, "main.read_data": out_main}
                if out_path != out or out_main != out:
                    chk.violation("counterexample", "the readers of a results file disagree on the same file (from_file on a "
                                  f"handle {out}, on a path {out_path}, main.read_data {out_main})",
                                  {"input": describe, "theorem_or_correspondence": "C11_top_accepted_schema"})
                which = what if cur == real_cur else f"{what}(SCHEMA_VERSION {cur})"
                chk.count(f"schema_matrix:AntismashResults.from_file+main.read_data:{which}")
                add_case([PROP, 20] + enc([cur, compat, through_orjson(data)]), out, what, describe, None)
        # not JSON at all / an empty file: refused with ValueError by both readers
        for label, text in (("not_json", "LOCUS not json"), ("truncated", dumps(base)[:200]), ("empty", "")):
            text = text.decode() if isinstance(text, bytes) else text
            with open(path, "w", encoding="utf-8") as handle:
                handle.write(text)
            outs = [outcome(lambda: amain.read_data(None, options))]
            if text:
                outs.append(outcome(lambda: cls.from_file(path)))
            chk.count(f"schema_matrix:AntismashResults.from_file+main.read_data:{label}")
            if any(o != [1, common.ERR["ValueError"]] for o in outs):
                chk.violation("counterexample", f"a results file that is {label} is not refused with ValueError: {outs}",
                              {"input": text[:80], "theorem_or_correspondence": "AntismashResults.from_file"})
    finally:
        cls.SCHEMA_VERSION = real_cur
        shutil.rmtree(tmpdir, ignore_errors=True)
        destroy_config()
        _TTA_READY = False


# ---------------------------------------------------------------- the run

RULE = ("fn1 HMMResult JSON trees (depth <= 3; nested hits inside / touching / outside the parent; floats with 1..17 "
        "digits, 1e-300, ints for floats, floats/bools for ints, null, missing or reordered keys); fn2 NRPSPKSDomains JSON "
        "from real results (modules built by build_modules_for_cds + combine_modules over 3 genes) as saved and with "
        "changed schema / record id / unknown gene / shuffled, added, joined components / missing keys; fn3 TTA saved "
        "results x current threshold on a grid incl. gc == threshold and neighbouring doubles, schema, record id; fn4 "
        "HmmerResults x from_json / cluster_hmmer regenerate / refilter with thresholds stricter, equal and more lenient; "
        "fn5 HMMDetectionResults x rule-name sets (shipped rule files and small sets; removed / added / renamed / "
        "reordered), taxon, multipliers, both schema versions; fn6 sideloaded annotations on linear and circular records "
        "incl. invalid areas and a changed topology; every JSON goes through the real orjson dumps + loads. Whole-object "
        "cycles: real rule detection (dynamic profiles, linear + circular, neighbourhood 0), NRPS/PKS features and "
        "modules added to the record, sideloaded features, TTA threshold histories against a fresh detect(); "
        "hash-seed child processes. non-trivial = the implementation regenerated a result with nested content (not "
        "discarded, not an error) or refused/discarded after a changed setting; distinct by flat encoding")


def run(chk):
    if not chk.build_and_audit():
        return chk.finish(RULE)
    rng = chk.rng
    labels = Labels()
    quick = chk.tier == "quick"
    n = {1: 5000, 2: 1100, 3: 4000, 4: 3500, 5: 3500, 6: 3500, 7: 2500} if quick else \
        {1: 80000, 2: 13000, 3: 55000, 4: 45000, 5: 45000, 6: 45000, 7: 30000}
    cases, impl_outs, meta = [], [], []
    # regression corpus of the main level first (witness of the repaired finding FC11a and variants, real code)
    regression_falsy_results(chk)

    def guard_check(fn, args, out):
        """ the property's last clause, evaluated on the implementation's answer: results saved for
            another record or schema version must not come back as reused results """
        if out[:2] != [0, 1] or not isinstance(args[0], dict):
            return
        j = args[0]
        if fn == 2:
            bad = j.get("record_id") != args[1] or j.get("schema_version") != args[3]
        elif fn == 3:
            bad = j.get("schema_version") != args[3] or (out[-1] == 1 and j.get("record_id") != args[2])
        elif fn == 4:
            bad = j.get("record id") != args[1] or j.get("schema") != args[2]
        elif fn == 6:
            bad = j.get("record_id") != args[1] or j.get("schema_version") != args[3]
        elif fn == 7:
            bad = j.get("schema_version", 1) != args[2]
        else:
            return
        if bad:
            chk.violation("counterexample", f"{FN_NAME[fn]}: results saved for another record or schema version are reused",
                          {"input": args, "implementation": out[:50], "theorem_or_correspondence": "C11_guards_*_reuse_inv"})

    def add(fn, args, out, what, nontrivial):
        guard_check(fn, args, out)
        flat = [PROP, fn] + enc(args)
        cases.append(flat)
        impl_outs.append(out)
        meta.append((fn, what))
        chk.count(f"{FN_NAME[fn]}:{what}")
        if out[0] == 1:
            chk.count(f"{FN_NAME[fn]}:error_" + common.ERR_NAME.get(out[1], str(out[1])))
        elif out[:2] == [0, 0]:
            chk.count(f"{FN_NAME[fn]}:discarded")
        elif out[:2] == [0, 1]:
            chk.count(f"{FN_NAME[fn]}:reused")
        chk.note_case(flat, nontrivial, {"function": FN_NAME[fn], "class": what, "arguments": args,
                                         "implementation": out[:40]} if len(flat) < 600 else None)

    # fn 1
    for _ in range(n[1]):
        j = gen_hmm_json(rng, labels, malformed=rng.random() < 0.7)
        out = impl_hmm([j])
        depth = 0
        cur = j
        while isinstance(cur, dict) and cur.get("internal_hits"):
            depth += 1
            cur = cur["internal_hits"][0]
        chk.count(f"HMMResult:depth{depth}")
        if out == [7, 7]:
            chk.violation("counterexample", "HMMResult: regenerating the saved JSON again gives a different value or text",
                          {"input": j, "theorem_or_correspondence": "HMMResult.from_json(to_json) fixed point"})
        add(1, [j], out, "tree", depth >= 1 and out[0] == 0)

    # fn 2 (+ features added to the record)
    for i in range(n[2]):
        n_genes = 3
        record, cdss = make_nrps_record(n_genes)
        try:
            results = gen_nrps_results(rng, labels, record, cdss)
        except Exception as exc:  # pylint: disable=broad-except
            chk.count("NRPSPKSDomains:generation_failed_" + type(exc).__name__)
            continue
        saved = results.to_json()
        text = dumps(saved)
        j = through_orjson(saved)
        what = mutate_nrps(rng, j)
        names = [c.get_name() for c in cdss]
        cur = 4 if rng.random() < 0.95 else 5
        if cur != 4:
            what = "schema"
        checker = None
        if what == "as_saved":
            results.add_to_record(record)
            expected = record_features(record)

            def checker(record2, text2, expected=expected, text=text, saved=saved):
                if text2 != text:
                    chk.violation("counterexample", "NRPSPKSDomains: the regenerated results save to a different JSON text",
                                  {"input": saved, "theorem_or_correspondence": "NRPSPKSDomains save/regenerate cycle"})
                elif record_features(record2) != expected:
                    chk.violation("counterexample", "NRPSPKSDomains: regenerated results add different features to the record",
                                  {"input": saved, "theorem_or_correspondence": "NRPSPKSDomains add_to_record"})
        out = impl_nrps([j, "rec", names, cur], checker)
        if what == "as_saved" and out[:2] != [0, 1]:
            chk.violation("counterexample", "NRPSPKSDomains: results saved by the module are not reused under the same settings",
                          {"input": saved, "implementation": out, "theorem_or_correspondence": "NRPSPKSDomains cycle"})
        n_modules = sum(len(v["modules"]) for v in saved["cds_results"].values())
        chk.count(f"NRPSPKSDomains:modules{min(n_modules, 4)}")
        add(2, [j, "rec", names, cur], out, what, n_modules >= 1)

    # fn 3
    for _ in range(n[3]):
        args, what = gen_tta(rng)
        out = impl_tta(args)
        gc, saved_thr, thr = args[0].get("gc_content"), args[0].get("threshold"), args[1]
        if isinstance(gc, float) and isinstance(saved_thr, float):
            chk.count("TTAResults:gc%sthreshold_now" % ("==" if gc == thr else ("<" if gc < thr else ">")))
        add(3, args, out, what, out[0] == 0)

    # fn 4
    for _ in range(n[4]):
        args, what = gen_hmmer(rng)
        out = impl_hmmer(args)
        chk.count(f"HmmerResults:mode{args[5]}")
        if out[:2] == [0, 1] and args[5] in (1, 2):
            j = args[0]
            if j["max evalue"] < args[3] or j["min score"] > args[4]:
                chk.violation("counterexample", "hmmer results are reused under more lenient thresholds than they were "
                              "computed with", {"input": args, "theorem_or_correspondence": "C11_guards_hmmer_regen_inv"})
        add(4, args, out, what, bool(args[0].get("hits")))
    if REFILTER_ORACLE:
        listed = [f for f in common.load_known_findings("C11") if f.get("class") == REFILTER_CLASS and f.get("status") == "known"]
        outside = [d for d in REFILTER_ORACLE if d["class"] != REFILTER_CLASS]
        inside = [d for d in REFILTER_ORACLE if d["class"] == REFILTER_CLASS]
        chk.count("HmmerResults:reuse_differs_from_fresh_run_only_in_hits_on_a_limit", len(inside))
        if inside and listed:
            chk.known(listed[0]["what_fails"])
        bad = outside or ([] if listed else inside)
        if bad:
            worst = min(bad, key=lambda d: len(d["saved_hits_(score, evalue)"]))
            chk.violation("counterexample", f"hmmer results narrowed on reuse differ from a fresh run with the same limits on "
                          f"{len(bad)} case(s)" + ("" if outside else f" (class {REFILTER_CLASS}, not listed as known)"),
                          {"theorem_or_correspondence": "C11_hmmer_refilter_as_fresh_run_partial / HmmerResults.refilter vs "
                                                        "hmmer.build_hits", "input": worst})

    try:
        rre_cycles(chk, rng, 150 if chk.tier == "quick" else 3000)
    except Exception as exc:  # pylint: disable=broad-except
        chk.violation("broken-correspondence", f"the RREFinder save/regenerate stream failed: {type(exc).__name__}: {exc}"[:300],
                      {"theorem_or_correspondence": "C11 save / regenerate cycle (RREFinderResults)"})

    # fn 5
    for _ in range(n[5]):
        args, what = gen_det(rng)
        out = impl_det(args)
        if out[:2] == [0, 1]:
            j, _rid, names, fungi, opt_c, opt_n, cur_outer, cur_inner = args
            mult = j["rule_results"]["multipliers"]
            wrong = None
            if set(j["enabled_types"]) != set(names):
                wrong = "although the rule set changed"
            elif j["schema_version"] != cur_outer or j["rule_results"].get("schema_version", 1) != cur_inner:
                wrong = "although the schema version changed"
            elif fungi and (mult.get("cutoff", 1.0) != opt_c or mult.get("neighbourhood", 1.0) != opt_n):
                wrong = "although the fungal multipliers changed"
            if wrong:
                chk.violation("counterexample", "HMM detection results are reused " + wrong,
                              {"input": args, "theorem_or_correspondence": "C11_guards_det_regen_inv"})
        add(5, args, out, what, True)

    # fn 6 (+ features of the regenerated annotations, second cycle)
    for _ in range(n[6]):
        args, what = gen_side(rng)

        def on_cycle(res, saved, again, args=args):
            if again is None or dumps(again.to_json()) != dumps(saved) or side_features(again) != side_features(res):
                chk.violation("counterexample", "SideloadedResults: the second save/regenerate cycle differs from the first",
                              {"input": args, "theorem_or_correspondence": "SideloadedResults cycle"})
        out = impl_side(args, on_cycle)
        add(6, args, out, what, bool(args[0].get("protoclusters") or args[0].get("subregions")))

    # fn 7: the protocluster / CDS payload of RuleDetectionResults (generated saved forms + deviations)
    import c11_rule
    for _ in range(n[7]):
        args, what = c11_rule.gen_rule(rng)
        args = through_orjson(args)
        out = c11_rule.impl_rule(args)
        if what == "as_saved":
            expected = out_ok(c11_rule.dropped_in_record(through_orjson(args[0])))
            if out != expected:
                chk.violation("counterexample", "RuleDetectionResults: saved rule results are not regenerated to the same JSON "
                              "(up to protocluster_number / contig_edge)",
                              {"input": args, "implementation": out[:60],
                               "theorem_or_correspondence": "C11_codec_RuleDetectionResults"})
        add(7, args, out, what, bool(args[0].get("cds_by_protocluster")))

    # fn 9: the bookkeeping of main.run_module / analyse_record / run_detection (fake and real modules)
    main_idx = []

    def add_main(mode, entries, behs, out, what, describe):
        flat = flat_main(mode, entries, behs)
        main_idx.append((len(cases), describe or {"mode": ["analyse_record", "run_detection"][mode],
                                                   "module_results (name, kind 0 raw 1 results 2 other 3 None, id, truthy)": entries,
                                                   "modules (name, regenerate kind/id/flag, in all_enabled_modules, is_enabled, "
                                                   "run_on_record kind/id/flag)": behs}))
        cases.append(flat)
        impl_outs.append(out)
        meta.append((9, what))
        chk.count(f"main.run_module:{what}")
        if out[0] == 1:
            chk.count("main.run_module:error_" + common.ERR_NAME.get(out[1], str(out[1])))
        else:
            chk.count("main.run_module:" + ("final map written by dump_records" if out[1] else "dump_records raises TypeError"))
        visited = {b[0] for b in behs}
        chk.note_case(flat, any(e[1] == 0 and e[0] in visited for e in entries),
                      {"function": "main.run_module", "class": what, "arguments": main_idx[-1][1], "implementation": out[:40]})
    main_level(chk, rng, quick, add_main)
    schema_matrix(chk, labels)

    # fn 20 / 21: the results file (top-level schema guard) and the reuse path through main.read_data
    top_idx = []

    def add_top(flat, out, what, describe, info):
        fn = flat[1]
        top_idx.append((len(cases), describe, info))
        cases.append(flat)
        impl_outs.append(out)
        meta.append((fn, what))
        chk.count(f"{FN_NAME[fn]}:{what}")
        if out[0] == 1:
            chk.count(f"{FN_NAME[fn]}:error_" + common.ERR_NAME.get(out[1], str(out[1])))
        else:
            chk.count(f"{FN_NAME[fn]}:" + ("accepted" if fn == 20 else "reused"))
        chk.note_case(flat, fn == 20 or bool(info and (info["fullhmmer"] or info["regions"])),
                      {"function": FN_NAME[fn], "class": what, "arguments": describe, "implementation": out[:40]}
                      if len(chk.samples) < 6 and fn == 21 else None)
    top_level(chk, rng, quick, add_top)
    reuse_level(chk, rng, quick, add_top)
    strip_idx = []

    def add_strip(flat, out, what, describe, _info):
        strip_idx.append((len(cases), describe))
        cases.append(flat)
        impl_outs.append(out)
        meta.append((22, what))
        chk.count(f"{FN_NAME[22]}:{what}")
        chk.count(f"{FN_NAME[22]}:" + ("error_" + common.ERR_NAME.get(out[1], str(out[1])) if out[0] == 1 else "features_compared"))
        if out[:1] == [7]:
            chk.violation("counterexample", "Record.strip_antismash_annotations leaves candidate clusters / regions behind, or the "
                          "record holds a feature nobody added", {"input": describe, "theorem_or_correspondence": "strip / add model"})
        chk.note_case(flat, True, None)
    strip_level(chk, rng, quick, add_strip)

    # spec_fn_offset: on a disagreement the "saved form" specification (fn + 10) is evaluated on the
    # implementation's output: a saved-form input that is not regenerated identically is a counterexample
    top_describe = {hash(tuple(cases[i])): describe for i, describe, _ in top_idx}
    top_describe.update({hash(tuple(cases[i])): describe for i, describe in strip_idx})
    model_outs = common.correspondence(chk, cases, impl_outs, spec_fn_offset=10,
                                       describe=lambda flat: unflat_main(flat) if flat[1] == 9 else
                                       {"function": FN_NAME.get(flat[1]), "decoded": top_describe.get(hash(tuple(flat))),
                                        "payload": flat[2:] if len(flat) < 400 else flat[2:400] + ["..."]})
    # the specification of the main level (fn 19) on EVERY fn 9 case, on the implementation's outcome
    spec_cases = [[PROP, 19] + cases[i][2:] + impl_outs[i] for i, _ in main_idx]
    # no recorded finding is left at this level (FC11a is repaired): nothing is suppressed; verdict[2] only says that
    # the case lies in the class of the repaired finding (accepted falsy results, module not run), counted below
    repaired_class_cases = 0
    reported = False
    for (i, describe), verdict in zip(main_idx, common.run_driver(spec_cases)):
        if len(verdict) != 3:
            chk.violation("broken-correspondence", "main level specification: case does not decode",
                          {"theorem_or_correspondence": "generator discipline", "flat": cases[i]})
            break
        chk.count("main.run_module:spec_applicable" if verdict[1] else "main.run_module:spec_not_applicable")
        if verdict[1] and verdict[2] == 1:
            repaired_class_cases += 1
        if verdict[0] == 1:
            continue
        if not reported:
            reported = True
            chk.violation("counterexample", "main.run_module: after the run the module's entry is not (exactly) the regenerated / "
                          "new results or nothing - saved results are carried along, lost, or the run dies"
                          + (f" (class {MAIN_REPAIRED_CLASS} of the repaired finding FC11a: accepted falsy results of a module "
                             "that does not run)" if verdict[2] == 1 else ""),
                          {"input": describe, "flat": cases[i], "implementation": impl_outs[i], "model": model_outs[i],
                           "spec_verdict_on_implementation_output": verdict,
                           "theorem_or_correspondence": "C11_main_no_raw_sequence / C11_main_declined_discarded / "
                                                        "C11_main_accepted_kept"})
    chk.extra["main_level_repaired_class_cases"] = repaired_class_cases
    chk.count("main.run_module:class_" + MAIN_REPAIRED_CLASS + "_spec_evaluated", repaired_class_cases)
    if not repaired_class_cases:
        chk.violation("broken-correspondence", f"no generated main-level case lies in the class {MAIN_REPAIRED_CLASS} of the repaired "
                      "finding FC11a", {"theorem_or_correspondence": "generator discipline"})
    # the specifications of the top level (fn 30: accepted only with the current or a listed schema, any other schema
    # refused as coded; fn 31: the record after the reusing run carries exactly the first run's features) on EVERY case
    spec_cases = [[PROP, cases[i][1] + 10] + cases[i][2:] + impl_outs[i] for i, _, _ in top_idx]
    seen = {20: False, 21: False}
    classes = {"whole_genome_domain_without_regions": 0, "whole_genome_domain_with_regions": 0, "schema_unlisted": 0,
               "schema_listed": 0}
    for (i, describe, info), verdict in zip(top_idx, common.run_driver(spec_cases)):
        fn = cases[i][1]
        if len(verdict) != (2 if fn == 20 else 3):
            chk.violation("broken-correspondence", f"{FN_NAME[fn]} specification: case does not decode",
                          {"theorem_or_correspondence": "generator discipline", "flat": cases[i][:200], "verdict": verdict})
            break
        if fn == 20:
            classes["schema_listed" if verdict[1] else "schema_unlisted"] += 1
        else:
            if not verdict[1]:
                chk.violation("broken-correspondence", "reuse path: a generated record lies outside the guard of "
                              "C11_reuse_after_strip_same_features (the input carries a feature the strip removes, or a detection "
                              "stage adds one it leaves)", {"theorem_or_correspondence": "generator discipline", "input": describe})
                break
            if verdict[2]:
                classes["whole_genome_domain_without_regions"] += 1
            elif info and info["fullhmmer"]:
                classes["whole_genome_domain_with_regions"] += 1
        if verdict[0] == 1 or seen[fn]:
            continue
        seen[fn] = True
        if fn == 20:
            chk.violation("counterexample", "AntismashResults.from_file / main.read_data: a results file whose top-level schema is "
                          "neither the current one nor listed as compatible is not refused (or is refused in another way than "
                          "the schema guard does)",
                          {"input": describe, "implementation": impl_outs[i], "model": model_outs[i],
                           "spec_verdict_on_implementation_output": verdict,
                           "theorem_or_correspondence": "C11_top_accepted_schema / C11_top_refuses_unlisted"})
        else:
            chk.violation("counterexample", "reuse path (main.read_data -> run_detection -> analyse_record -> annotate_records on a "
                          "results file written by the first run): the record does not end up with the features of the first run"
                          + (" - a record WITHOUT regions carrying a saved whole-genome domain annotation" if verdict[2] else ""),
                          {"input": describe, "implementation": impl_outs[i][:60], "model": model_outs[i][:60],
                           "spec_verdict_on_implementation_output": verdict,
                           "theorem_or_correspondence": "C11_reuse_after_strip_same_features / C11_reuse_spec_sound"})
    # fn 32 on every fn 22 case: fresh copies of what the strip cleared must all be added again, and the record then holds
    # exactly the survivors and the copies
    strip_reported = False
    for (i, describe), verdict in zip(strip_idx, common.run_driver([[PROP, 32] + cases[i][2:] + impl_outs[i] for i, _ in strip_idx])):
        if len(verdict) != 2:
            chk.violation("broken-correspondence", "strip specification: case does not decode",
                          {"theorem_or_correspondence": "generator discipline", "flat": cases[i], "verdict": verdict})
            break
        classes["strip_then_readd"] = classes.get("strip_then_readd", 0) + verdict[1]
        if verdict[0] == 0 and not strip_reported:
            strip_reported = True
            chk.violation("counterexample", "Record.strip_antismash_annotations + re-adding: after the strip main.read_data applies, fresh "
                          "copies of the annotations it clears cannot all be added again, or the record does not hold exactly the "
                          "survivors and the copies",
                          {"input": describe, "flat": cases[i], "implementation": impl_outs[i], "model": model_outs[i],
                           "spec_verdict_on_implementation_output": verdict,
                           "theorem_or_correspondence": "C11_strip_then_readd / C11_strip_leaves_nothing_stripped"})
    chk.extra["top_level_classes"] = classes
    for name, number in classes.items():
        chk.count("top_level:class_" + name, number)
        if not number:
            chk.violation("broken-correspondence", f"no generated case lies in the class {name}",
                          {"theorem_or_correspondence": "generator discipline"})
    unmodelled = sum(1 for m in model_outs if m[:2] == [1, 98] or m == [-999])
    chk.extra["outside_modelled_domain"] = unmodelled
    if unmodelled:
        chk.violation("broken-correspondence", f"{unmodelled} generated case(s) fall outside the modelled domain",
                      {"theorem_or_correspondence": "generator discipline"})
    chk.crosscheck_vm(cases, model_outs)

    # whole-object cycles on real rule detection results
    n_det = 300 if quick else 5000
    done = 0
    real_cases, real_outs = [], []
    for _ in range(n_det):
        case = detection_case(rng)
        del REAL_RULE_RESULTS[:]
        ok, info = detection_cycle(case)
        for rule_json in REAL_RULE_RESULTS:
            # the rule results of the real detection (before / after add_to_record) through the payload model
            args = through_orjson([rule_json, [g for g, _ in case["genes"]], 4])
            real_cases.append([PROP, 7] + enc(args))
            real_outs.append(c11_rule.impl_rule(args))
            chk.count("RuleDetectionResults:real_detection_results")
        if ok is None:
            chk.count("detection_cycle:" + info)
            continue
        done += 1
        chk.count("detection_cycle:" + ("circular" if case["circular"] else "linear"))
        if ok:
            protos = int(info.split()[1])
            chk.count(f"detection_cycle:protoclusters{min(protos, 3)}")
            chk.note_case([PROP, 7, done, hash(case["rules"]) & 0xffff] + [len(case["genes"])], protos > 0, None)
        else:
            chk.violation("counterexample", "rule detection results: " + info,
                          {"input": case, "theorem_or_correspondence": "HMMDetectionResults save/regenerate cycle"})
            break
    if real_cases:
        real_model = common.correspondence(chk, real_cases, real_outs, label="payload model vs implementation on real detection results",
                                           describe=lambda flat: {"function": FN_NAME.get(flat[1]), "payload": flat[2:]})
        for flat, out in zip(real_cases, real_outs):
            chk.note_case(flat, out[:2] == [0, 1], None)
            if out[:2] != [0, 1]:
                chk.violation("counterexample", "RuleDetectionResults.from_json does not regenerate the rule results of a real detection",
                              {"flat": flat, "implementation": out[:20], "theorem_or_correspondence": "C11_codec_RuleDetectionResults"})
                break
        chk.extra["real_rule_results_outside_model"] = sum(1 for m in real_model if m[:2] == [1, 98] or m == [-999])
        if chk.extra["real_rule_results_outside_model"]:
            chk.violation("broken-correspondence", "real detection results fall outside the modelled domain of the payload model",
                          {"theorem_or_correspondence": "generator discipline"})
    n_tta = 250 if quick else 3500
    for _ in range(n_tta):
        ok, info = tta_cycle(rng)
        if not ok:
            chk.violation("counterexample", "TTA: regenerated results differ from a fresh detection under the current threshold",
                          {"input": info, "theorem_or_correspondence": "TTA threshold history"})
            break
        chk.count("tta_cycle:steps", info["steps"])
        chk.note_case([PROP, 8, int(info["gc"] * 1e6), info["n"], info["steps"]], info["n"] > 0, None)
    hash_seed_run(chk, chk.seed, 40 if quick else 400, [0, 1, 2] if quick else [0, 1, 2, 3, 4])

    trusted = ["orjson (dumps/loads assumed to be a function of the value and to round-trip ints, doubles, strings); "
               "Biopython features behind Protocluster.to_biopython / from_biopython and the record (covered by the "
               "whole-object cycles only)"]
    return chk.finish(RULE, trusted_extra=trusted)


def replay(chk, path):
    import json
    doc = json.load(open(path))
    if "flat" in doc:
        print("model:", common.run_driver([doc["flat"]])[0], "recorded implementation:", doc.get("implementation"))
    else:
        print("recorded input:", doc.get("input"))
        if isinstance(doc.get("input"), dict) and "rules" in doc["input"]:
            case = doc["input"]
            case["genes"] = [(g, [tuple(p) for p in parts]) for g, parts in case["genes"]]
            print("detection cycle now:", detection_cycle(case))
    return 0
