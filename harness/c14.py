"""C14: correspondence for NRPS/PKS module construction (build_modules_for_cds, combine_modules,
Module.from_json(to_json))."""
import os
import sys
import types

import common
from common import err_code

PROP = 14
SUBTYPES = {0: None, 1: "Trans-AT-KS", 2: "Iterative-KS", 3: "Modular-KS"}


def label_table():
    sys.path.insert(0, os.path.join(common.VERIF, "translator"))
    import tables_defs  # type: ignore
    labels, classes = tables_defs.c14_label_index(common.REPO)
    return labels, classes


def make_domain(labels, spec):
    """ spec = (label index, subtype code, id, query_start) """
    from antismash.common.hmmscan_refinement import HMMResult
    lab, sub, _cid, start = spec
    internal = None
    if SUBTYPES[sub]:
        internal = [HMMResult(SUBTYPES[sub], start, start + 10, 1e-10, 50.)]
    return HMMResult(labels[lab], start, start + 10, 1e-20, 100., internal_hits=internal)


class Ids:
    """ maps HMMResult objects (by identity and by value) back to the ids of the input """
    def __init__(self):
        self.by_id = {}

    def register(self, domain, cid):
        self.by_id[id(domain)] = cid

    def comp(self, component):
        if component is None:
            return -1
        dom = component.domain
        if id(dom) in self.by_id:
            return self.by_id[id(dom)]
        # a reloaded component holds a new but equal HMMResult
        raise KeyError("unknown domain object")


def enc_module(module, cid_of):
    comps = [cid_of(c) for c in module._components]
    out = [len(comps)] + comps
    for slot in (module._starter, module._loader, module._carrier_protein, module._end):
        out.append(cid_of(slot) if slot is not None else -1)
    for lst in (module._modifications, module._others):
        out += [len(lst)] + [cid_of(c) for c in lst]
    out += [int(module._first_in_cds), int(module.is_complete()), int(module.is_trans_at()), int(module.is_pks()),
            int(module.is_nrps()), int(module.is_starter_module()), int(module.is_termination_module()),
            int(module.is_iterative())]
    return out


def enc_modules(modules, cid_of):
    out = [len(modules)]
    for module in modules:
        out += enc_module(module, cid_of)
    return out


def reload_modules(modules, by_value):
    """ Module.from_json(m.to_json()); components are identified by their (unique) query_start+label """
    from antismash.detection.nrps_pks_domains.module_identification import Module
    import json
    out = []
    for module in modules:
        out.append(Module.from_json(json.loads(json.dumps(module.to_json()))))
    return out


def impl(fn, args, labels):
    from antismash.detection.nrps_pks_domains import module_identification as mi
    try:
        if fn in (1, 2):
            specs = args[0]
            ids = Ids()
            domains = []
            key_of = {}
            for spec in specs:
                dom = make_domain(labels, spec)
                ids.register(dom, spec[2])
                domains.append(dom)
            modules = mi.build_modules_for_cds(domains, "cds")
            if fn == 1:
                return [0] + enc_modules(modules, ids.comp)
            # identify reloaded components through (label, start, position in module)
            reloaded = reload_modules(modules, None)
            pos = {}
            for old, new in zip(modules, reloaded):
                if len(old._components) != len(new._components):
                    return [1, 98]
                for a, b in zip(old._components, new._components):
                    if a.domain != b.domain or a.locus != b.locus:
                        return [1, 97]
                    ids.by_id[id(b.domain)] = ids.comp(a)
            # the original modules followed by the reloaded ones ("rebuilt from its saved form is identical")
            return [0] + enc_modules(modules, ids.comp) + enc_modules(reloaded, ids.comp)
        if fn == 3:
            prev_specs, cur_specs, same = args
            ids = Ids()

            def mk(specs, name):
                doms = []
                for spec in specs:
                    dom = make_domain(labels, spec)
                    ids.register(dom, spec[2])
                    doms.append(dom)
                return mi.build_modules_for_cds(doms, name)
            prev_modules = mk(prev_specs, "prev")
            cur_modules = mk(cur_specs, "cur")
            strand = 1
            prev_cds = types.SimpleNamespace(location=types.SimpleNamespace(strand=strand))
            cur_cds = types.SimpleNamespace(location=types.SimpleNamespace(strand=strand if same else -strand))
            previous = mi.CDSModuleInfo(prev_cds, prev_modules)
            current = mi.CDSModuleInfo(cur_cds, cur_modules)
            merged = mi.combine_modules(current, previous)
            out = [0]
            out += [0] if merged is None else [1] + enc_module(merged, ids.comp)
            out += enc_modules(previous.modules, ids.comp)
            out += enc_modules(current.modules, ids.comp)
            try:
                reloaded = reload_modules(previous.modules, None)
                for old, new in zip(previous.modules, reloaded):
                    for a, b in zip(old._components, new._components):
                        ids.by_id[id(b.domain)] = ids.comp(a)
                out += [0] + enc_modules(reloaded, ids.comp)
            except Exception as exc:  # pylint: disable=broad-except
                out += [1, err_code(exc)]
            return out
    except Exception as exc:  # pylint: disable=broad-except
        return [1, err_code(exc)]
    raise ValueError(fn)


SPEC_OFFSET = 10     # run_C14 fn 11/12/13: the decidable specification on (payload ++ implementation output)


def decode_domains(flat, labels):
    """ readable form of the domain lists inside a flat case """
    out, pos = [], 2
    for _ in range(2 if flat[1] % SPEC_OFFSET == 3 else 1):
        n = flat[pos]
        pos += 1
        out.append([(labels[flat[pos + 4 * i]], SUBTYPES.get(flat[pos + 4 * i + 1]), flat[pos + 4 * i + 3])
                    for i in range(n)])
        pos += 4 * n
    return out


# No finding class is recorded for this property any more, nothing is suppressed.  more_than_two_carrier_proteins
# (known_findings.json F52, spec verdict [2]) is repaired in /repo: Module.ensure_suitable refuses a carrier protein
# when the module already holds the extra one of the documented double-transporter case.  Its witness heads the
# regression corpus; if a third carrier protein is accepted again, the check reports a counterexample.
REPAIRED_CLASS = "more_than_two_carrier_proteins"    # spec verdict [2], kept as a diagnosis of the violated clause
WITNESS = ["PKS_KS", "ACP", "ACP", "LPG_synthase_C", "Beta_elim_lyase", "ACP", "LPG_synthase_C", "Beta_elim_lyase"]


def spec_pass(chk, cases, impl_outs, model_outs, describe):
    """ the specification (partition, layout rules, slots/flags as functions of the components, merge and
        reload clauses - Model.v spec_fn1/2/3) is evaluated on EVERY implementation output; a violated
        clause is reported with the failing input.  Verdict [2] = only the clause "no more than two carrier
        proteins" fails (the repaired finding F52): a violation like any other, nothing is suppressed """
    spec_cases = [[c[0], c[1] + SPEC_OFFSET] + c[2:] + o for c, o in zip(cases, impl_outs)]
    verdicts = common.run_driver(spec_cases)
    chk.extra["spec_evaluated_on_implementation_outputs"] = len(verdicts)
    bad = [i for i, verdict in enumerate(verdicts) if verdict != [1]]
    chk.extra["spec_violations"] = len(bad)
    chk.extra["spec_violations_" + REPAIRED_CLASS] = sum(1 for i in bad if verdicts[i] == [2])
    if not bad:
        return
    bad.sort(key=lambda i: len(cases[i]))
    first = bad[0]
    replay = {"theorem_or_correspondence": "specification on implementation output (Model.v spec_fn%d)" % cases[first][1],
              "function": cases[first][1], "flat": cases[first], "implementation": impl_outs[first],
              "model": model_outs[first], "input": describe(cases[first]),
              "spec_verdict_on_implementation_output": verdicts[first], "violating_cases": len(bad)}
    if verdicts[first] not in ([0], [2]):
        chk.violation("broken-correspondence", "implementation output could not be decoded by the specification", replay)
    else:
        what = {1: "build_modules_for_cds output violates partition/layout rules",
                2: "module rebuilt from its saved form differs (or build output violates the rules)",
                3: "combine_modules output violates the merge/layout/reload rules"}[cases[first][1]]
        if verdicts[first] == [2]:
            what += " (more than two carrier proteins in one module: repaired finding class %s is back)" % REPAIRED_CLASS
        chk.violation("counterexample", what, replay)


def enc_specs(specs):
    out = [len(specs)]
    for spec in specs:
        out += list(spec)
    return out


class Gen:
    def __init__(self, rng, labels, classes):
        self.rng = rng
        self.labels = labels
        self.index = {l: i for i, l in enumerate(labels)}
        self.classes = {k: sorted(self.index[l] for l in v) for k, v in classes.items()}
        self.class_names = sorted(self.classes)
        self.ks = self.index["PKS_KS"]
        # frequently meaningful labels get extra weight
        self.common = [self.index[l] for l in ("PKS_KS", "PKS_AT", "ACP", "PCP", "PKS_KR", "PKS_DH", "AMP-binding",
                                               "Condensation_LCL", "Thioesterase", "Epimerization", "LPG_synthase_C",
                                               "Beta_elim_lyase", "Trans-AT_docking", "CAL_domain", "PP-binding",
                                               "Condensation_Starter", "TD", "nMT", "NRPS-COM_Nterm", "TIGR01720")]

    def label(self):
        r = self.rng.random()
        if r < 0.55:
            return self.rng.choice(self.common)
        if r < 0.85:
            return self.rng.choice(self.classes[self.rng.choice(self.class_names)])
        return self.rng.randrange(len(self.labels))

    def sequence(self, first_id=0, max_len=9):
        rng = self.rng
        n = rng.choice([0, 1, 1, 2, 2, 3, 3, 4, 4, 5, 6, 7, max_len])
        specs = []
        start = rng.randint(0, 5)
        for i in range(n):
            lab = self.label()
            sub = 0
            if lab == self.ks:
                sub = rng.choice([0, 1, 1, 2, 3])
            elif rng.random() < 0.03:
                sub = rng.choice([1, 2, 3])
            # mostly increasing starts, occasionally ties or out of order (the function sorts, stably)
            r = rng.random()
            if r < 0.9:
                start += rng.randint(1, 30)
            elif r < 0.95:
                pass
            else:
                start = max(0, start - rng.randint(1, 40))
            specs.append((lab, sub, first_id + i, start))
        if rng.random() < 0.15:
            rng.shuffle(specs)
        return specs

    def module_like(self, first_id=0):
        """ sequences shaped like real assembly lines, so that complete modules and merges are frequent """
        rng = self.rng
        ix = self.index
        pieces = rng.choice([
            ["PKS_KS", "PKS_AT", "PKS_KR", "ACP"], ["PKS_KS", "PKS_DH", "PKS_KR", "ACP", "PKS_KR"],
            ["Condensation_LCL", "AMP-binding", "PCP", "Epimerization"], ["AMP-binding", "PCP"],
            ["PKS_KS", "ACP", "ACP", "LPG_synthase_C", "Beta_elim_lyase"], ["PKS_KS"], ["ACP", "Thioesterase"], ["PKS_KR"],
            ["PKS_KS", "Trans-AT_docking", "ACP"], ["CAL_domain", "ACP"], ["PKS_AT", "ACP", "PKS_KS", "PKS_AT"],
            ["Condensation_Starter", "AMP-binding", "nMT", "PCP", "Thioesterase", "PKS_KR"],
            ["ACP", "PKS_KR"], ["PCP", "Epimerization", "Condensation_LCL"], ["Condensation_LCL"], ["PKS_KS", "PKS_AT"],
            ["ACP", "ACP", "LPG_synthase_C", "Beta_elim_lyase"], ["ACP", "LPG_synthase_C", "Beta_elim_lyase"],
            ["PKS_KS", "PKS_AT", "ACP", "ACP", "LPG_synthase_C", "Beta_elim_lyase", "Thioesterase"],
            ["PKS_KS", "ACP", "ACP", "LPG_synthase_C", "NRPS-COM_Nterm", "Beta_elim_lyase"],
            ["PKS_KS", "ACP", "ACP", "LPG_synthase_C"], ["Trans-AT_docking", "ACP", "PKS_KR", "TIGR01720"],
            # a third (fourth) carrier protein followed by the registered pair again: refused since the repair of F52
            ["PKS_KS", "ACP", "ACP", "LPG_synthase_C", "Beta_elim_lyase", "ACP", "LPG_synthase_C", "Beta_elim_lyase"],
            ["PKS_KS", "PKS_AT", "PCP", "ACP", "LPG_synthase_C", "Beta_elim_lyase", "ACP", "LPG_synthase_C",
             "Beta_elim_lyase", "ACP", "LPG_synthase_C", "Beta_elim_lyase", "Thioesterase"],
        ])
        specs = []
        start = 0
        for i, name in enumerate(pieces):
            start += rng.randint(1, 30)
            sub = rng.choice([0, 1, 1, 2]) if name == "PKS_KS" else 0
            specs.append((ix[name], sub, first_id + i, start))
        return specs


RULE = ("every implementation output is also judged by the decidable specification of Model.v (spec_fn1/2/3); "
        "random domain sequences over all labels of the generated class tables (weighted to assembly-line labels, KS subtypes, "
        "ties and disorder in query_start), single genes (build, build+reload) and adjacent gene pairs (combine_modules, both "
        "strand relations); non-trivial = at least two modules or a merge attempt with non-empty genes; distinct by flat encoding")


def run(chk):
    if not chk.build_and_audit():
        return chk.finish(RULE)
    labels, classes = label_table()
    gen = Gen(chk.rng, labels, classes)
    total = 20000 if chk.tier == "quick" else 300000
    cases, impl_outs = [], []
    ix = gen.index
    # regression corpus: witness of the repaired combine_modules defect (known_findings.json F22)
    corpus = [(3, ([(ix["PKS_KS"], 1, 0, 10)],
                   [(ix["ACP"], 0, 1, 10), (ix["Thioesterase"], 0, 2, 30), (ix["PKS_KR"], 0, 3, 50)], True)),
              # witness of the repaired finding F52 (more_than_two_carrier_proteins): KS ACP ACP LPG Beta ACP LPG Beta
              # was ONE module with three carrier proteins, now [KS,CP,CP,+,+] [CP] [+,+]; with a loader (complete
              # module), with a fourth carrier protein, and split over two genes
              (2, ([(ix[name], 0, k, 10 * (k + 1)) for k, name in enumerate(WITNESS)],)),
              (1, ([(ix[name], 0, k, 10 * (k + 1)) for k, name in enumerate(WITNESS)],)),
              (2, ([(ix[name], 0, k, 10 * (k + 1)) for k, name in enumerate(WITNESS[:1] + ["PKS_AT"] + WITNESS[1:])],)),
              (2, ([(ix[name], 0, k, 10 * (k + 1)) for k, name in enumerate(WITNESS + WITNESS[5:])],)),
              (3, ([(ix[name], 0, k, 10 * (k + 1)) for k, name in enumerate(WITNESS[:3])],
                   [(ix[name], 0, 3 + k, 10 * (k + 1)) for k, name in enumerate(WITNESS[3:])], True)),
              (3, ([(ix[name], 0, k, 10 * (k + 1)) for k, name in enumerate(WITNESS[:1])],
                   [(ix[name], 0, 1 + k, 10 * (k + 1)) for k, name in enumerate(WITNESS[1:])], True))]
    for i in range(total):
        r = chk.rng.random()
        if i < len(corpus):
            fn, args = corpus[i]
        elif r < 0.35:
            fn, args = 1, (gen.sequence(),)
        elif r < 0.55:
            fn, args = 2, (gen.sequence() if chk.rng.random() < 0.6 else gen.module_like(),)
        else:
            mk = lambda first: gen.module_like(first) if chk.rng.random() < 0.6 else gen.sequence(first, 6)
            prev = mk(0)
            cur = mk(len(prev))
            if chk.rng.random() < 0.3:
                cur = cur + [(s[0], s[1], len(prev) + len(cur) + j, cur[-1][3] + 20 * (j + 1) if cur else 5)
                             for j, s in enumerate(gen.module_like(0))]
            fn, args = 3, (prev, cur, chk.rng.random() < 0.85)
        if fn == 3:
            flat = [PROP, fn] + enc_specs(args[0]) + enc_specs(args[1]) + [int(args[2])]
        else:
            flat = [PROP, fn] + enc_specs(args[0])
        out = impl(fn, args, labels)
        cases.append(flat)
        impl_outs.append(out)
        chk.count({1: "build_modules_for_cds", 2: "build+from_json(to_json)", 3: "combine_modules"}[fn])
        nontrivial = (fn in (1, 2) and len(out) > 1 and out[0] == 0 and out[1] >= 2) or (fn == 3 and args[0] and args[1])
        if fn == 3 and out[0] == 0 and out[1] == 1:
            chk.count("combine_merged")
        if out[0] == 1:
            chk.count("error_" + common.ERR_NAME.get(out[1], str(out[1])))
        chk.note_case(flat, nontrivial, {"function": fn, "domains": [[(labels[s[0]], SUBTYPES[s[1]], s[3]) for s in a]
                                                                    for a in args if isinstance(a, list)],
                                         "implementation": out})
    describe = lambda flat: {"function": flat[1], "payload": flat[2:],
                             "domains": decode_domains(flat, labels)}
    model_outs = common.correspondence(chk, cases, impl_outs, spec_fn_offset=SPEC_OFFSET, describe=describe)
    spec_pass(chk, cases, impl_outs, model_outs, describe)
    chk.crosscheck_vm(cases, model_outs)
    return chk.finish(RULE)


def replay(chk, path):
    import json
    doc = json.load(open(path))
    print("model:", common.run_driver([doc["flat"]])[0], "recorded implementation:", doc.get("implementation"))
    return 0
