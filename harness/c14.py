"""C14: correspondence for NRPS/PKS module construction (build_modules_for_cds, combine_modules,
Module.from_json(to_json))."""
import os
import sys
import types

import common
from common import err_code

PROP = 14
# codes of the subtype profile names (Model.v: 1 Trans-AT-KS, 2 Iterative-KS, every other name its own code):
# the five profiles of data/ksdomains.hmm, then transATor clade names as find_subtypes("Trans-AT-KS", ...) attaches
# them below a Trans-AT-KS hit
SUBNAMES = {1: "Trans-AT-KS", 2: "Iterative-KS", 3: "Modular-KS", 4: "Hybrid-KS", 5: "Enediyne-KS",
            6: "Clade_12", 7: "Clade_3", 8: "Clade_45"}
SUBCODES = {name: code for code, name in SUBNAMES.items()}

# named layouts of HMMResult.internal_hits: a forest of (code, children).  find_subtypes("PKS_KS", ksdomains.hmm)
# attaches EVERY subtype hit that overlaps the KS (none, one, several - equal or different profiles, in the order of
# the refined hmmscan output), find_subtypes("Trans-AT-KS", transATor.hmm) attaches clade hits below each
# Trans-AT-KS hit; deeper nesting is what HMMResult itself allows
SHAPES = {
    0: [], 1: [(1, [])], 2: [(2, [])], 3: [(3, [])], 4: [(4, [])], 5: [(5, [])],
    "t+m": [(1, []), (3, [])], "m+t": [(3, []), (1, [])], "t+t": [(1, []), (1, [])], "m+m": [(3, []), (3, [])],
    "m+h": [(3, []), (4, [])], "t+i": [(1, []), (2, [])], "i+t": [(2, []), (1, [])], "i+m": [(2, []), (3, [])],
    "i+i": [(2, []), (2, [])], "t+m+h": [(1, []), (3, []), (4, [])], "m+h+t": [(3, []), (4, []), (1, [])],
    "m+t+i": [(3, []), (1, []), (2, [])], "t>c": [(1, [(6, [])])], "t>cc": [(1, [(6, []), (7, [])])],
    "t>c>c": [(1, [(6, [(8, [])])])], "t>c+m": [(1, [(6, [])]), (3, [])], "m+t>c": [(3, []), (1, [(7, [])])],
    "t>c+t>c": [(1, [(6, [])]), (1, [(7, [])])], "m>t": [(3, [(1, [])])], "m>i": [(3, [(2, [])])],
    "i>t": [(2, [(1, [])])], "h>tt": [(4, [(1, []), (1, [])])], "t>t": [(1, [(1, [])])],
}
UNAMBIGUOUS = [1, 1, 1, 2, 3, 4, 5, "t>c", "t>c", "t>cc", "t>c>c", "m>t", "m>i", "i>t", "h>tt", "t>t"]
AMBIGUOUS = ["t+m", "t+m", "m+t", "t+t", "m+m", "m+h", "t+i", "i+t", "i+m", "i+i", "t+m+h", "m+h+t", "m+t+i",
             "t>c+m", "m+t>c", "t>c+t>c"]


def hits_of(sub):
    """ the hit forest of a spec: a shape name / legacy code, or the forest itself """
    if isinstance(sub, (list, tuple)):
        return [(code, hits_of(children)) for code, children in sub]
    return SHAPES[sub]


def enc_hits(hits):
    out = [len(hits)]
    for code, children in hits:
        out += [code] + enc_hits(children)
    return out


def names_of(hits):
    """ readable form of a hit forest """
    return [SUBNAMES[code] if not children else {SUBNAMES[code]: names_of(children)} for code, children in hits]


def detailed_tail(hits):
    """ independent reading of HMMResult.detailed_names[1:] (used for statistics only) """
    out = []
    while len(hits) == 1:
        out.append(hits[0][0])
        hits = hits[0][1]
    return out


def label_table():
    sys.path.insert(0, os.path.join(common.VERIF, "translator"))
    import tables_defs  # type: ignore
    labels, classes = tables_defs.c14_label_index(common.REPO)
    return labels, classes


def double_cases():
    """ DOUBLE_TRANSPORTER_CASES as it is in the source under test (the same table the model is regenerated from) """
    from antismash.detection.nrps_pks_domains import module_identification as mi
    return sorted(tuple(case) for case in mi.DOUBLE_TRANSPORTER_CASES)


def make_hits(hits, lo, hi):
    """ HMMResults for a hit forest inside the parent span [lo, hi): every hit overlaps its parent
        (HMMResult.add_internal_hits insists on that), siblings differ in their coordinates """
    from antismash.common.hmmscan_refinement import HMMResult
    out = []
    for k, (code, children) in enumerate(hits):
        start = lo + min(k, max(0, hi - lo - 1))
        end = max(start + 1, hi - (k % 2))
        hit = HMMResult(SUBNAMES[code], start, end, 1e-10 / (k + 1), 50. + k)
        if children:
            hit.add_internal_hits(make_hits(children, start, end))
        out.append(hit)
    return out


def make_domain(labels, spec):
    """ spec = (label index, subtype hits (shape name or forest), id, query_start) """
    from antismash.common.hmmscan_refinement import HMMResult
    lab, sub, _cid, start = spec
    domain = HMMResult(labels[lab], start, start + 10, 1e-20, 100.)
    hits = hits_of(sub)
    if hits:
        # as find_subtypes does: the hits are attached to the existing domain hit
        domain.add_internal_hits(make_hits(hits, start, start + 10))
    return domain


class Ids:
    """ maps HMMResult objects (by identity and by value) back to the ids of the input """
    def __init__(self):
        self.by_id = {}

    def register(self, domain, cid):
        self.by_id[id(domain)] = cid

    def comp(self, component):
        if component is None:
            return -1
        dom = component.domain
        if id(dom) in self.by_id:
            return self.by_id[id(dom)]
        # a reloaded component holds a new but equal HMMResult
        raise KeyError("unknown domain object")


def enc_module(module, cid_of):
    comps = [cid_of(c) for c in module._components]
    out = [len(comps)] + comps
    for slot in (module._starter, module._loader, module._carrier_protein, module._end):
        out.append(cid_of(slot) if slot is not None else -1)
    for lst in (module._modifications, module._others):
        out += [len(lst)] + [cid_of(c) for c in lst]
    out += [int(module._first_in_cds), int(module.is_complete()), int(module.is_trans_at()), int(module.is_pks()),
            int(module.is_nrps()), int(module.is_starter_module()), int(module.is_termination_module()),
            int(module.is_iterative())]
    # the two views every component gives of its subtype: Component.subtype and Component.subtypes
    out.append(len(module._components))
    for comp in module._components:
        out += [sub_code(comp.subtype), len(comp.subtypes)]
    return out


def sub_code(name):
    if name is None:
        return 0
    return SUBCODES.get(name, 99)


def enc_modules(modules, cid_of):
    out = [len(modules)]
    for module in modules:
        out += enc_module(module, cid_of)
    return out


def reload_modules(modules, by_value):
    """ Module.from_json(m.to_json()); components are identified by their (unique) query_start+label """
    from antismash.detection.nrps_pks_domains.module_identification import Module
    import json
    out = []
    for module in modules:
        out.append(Module.from_json(json.loads(json.dumps(module.to_json()))))
    return out


def impl(fn, args, labels):
    from antismash.detection.nrps_pks_domains import module_identification as mi
    try:
        if fn in (1, 2):
            specs = args[0]
            ids = Ids()
            domains = []
            key_of = {}
            for spec in specs:
                dom = make_domain(labels, spec)
                ids.register(dom, spec[2])
                domains.append(dom)
            modules = mi.build_modules_for_cds(domains, "cds")
            if fn == 1:
                return [0] + enc_modules(modules, ids.comp)
            # identify reloaded components through (label, start, position in module)
            try:
                reloaded = reload_modules(modules, None)
            except Exception as exc:  # pylint: disable=broad-except
                return [1, err_code(exc), 2]      # stage 2: Module.from_json(module.to_json())
            pos = {}
            for old, new in zip(modules, reloaded):
                if len(old._components) != len(new._components):
                    return [1, 98]
                for a, b in zip(old._components, new._components):
                    if a.domain != b.domain or a.locus != b.locus:
                        return [1, 97]
                    ids.by_id[id(b.domain)] = ids.comp(a)
            # the original modules followed by the reloaded ones ("rebuilt from its saved form is identical")
            return [0] + enc_modules(modules, ids.comp) + enc_modules(reloaded, ids.comp)
        if fn == 4:
            return impl_fn4(mi, args[0], labels)
        if fn == 3:
            prev_specs, cur_specs, same = args
            ids = Ids()

            def mk(specs, name):
                doms = []
                for spec in specs:
                    dom = make_domain(labels, spec)
                    ids.register(dom, spec[2])
                    doms.append(dom)
                return mi.build_modules_for_cds(doms, name)
            prev_modules = mk(prev_specs, "prev")
            cur_modules = mk(cur_specs, "cur")
            strand = 1
            prev_cds = types.SimpleNamespace(location=types.SimpleNamespace(strand=strand))
            cur_cds = types.SimpleNamespace(location=types.SimpleNamespace(strand=strand if same else -strand))
            previous = mi.CDSModuleInfo(prev_cds, prev_modules)
            current = mi.CDSModuleInfo(cur_cds, cur_modules)
            merged = mi.combine_modules(current, previous)
            out = [0]
            out += [0] if merged is None else [1] + enc_module(merged, ids.comp)
            out += enc_modules(previous.modules, ids.comp)
            out += enc_modules(current.modules, ids.comp)
            try:
                reloaded = reload_modules(previous.modules, None)
                for old, new in zip(previous.modules, reloaded):
                    for a, b in zip(old._components, new._components):
                        ids.by_id[id(b.domain)] = ids.comp(a)
                out += [0] + enc_modules(reloaded, ids.comp)
            except Exception as exc:  # pylint: disable=broad-except
                out += [1, err_code(exc)]
            return out
    except Exception as exc:  # pylint: disable=broad-except
        return [1, err_code(exc)]
    raise ValueError(fn)


GENERATE_ORACLE = []     # modules whose components come from genes that are not direct neighbours


class FakeCDS:  # pylint: disable=too-few-public-methods
    """ what generate_domains and combine_modules read of a CDS feature """
    def __init__(self, name, strand, region):
        self.name, self.strand, self.region = name, strand, region
        self.location = types.SimpleNamespace(strand=strand)

    def get_name(self):
        return self.name


def impl_generate(genes, labels):
    """ fn 5: the real generate_domains over genes = [(specs, motifs, strand, region)]; the searches (hmmscan runs) are
        replaced by the hits of the case, annotate_domains (feature creation) is switched off """
    from unittest import mock
    from antismash.detection.nrps_pks_domains import domain_identification as di
    ids = Ids()
    regions = {}
    cdses, domains, motifs = [], {}, {}
    for k, (specs, has_motifs, strand, region) in enumerate(genes):
        regions.setdefault(region, types.SimpleNamespace(cds_children=[]))
        cds = FakeCDS(f"g{k}", strand, regions[region])
        regions[region].cds_children.append(cds)
        cdses.append(cds)
        doms = []
        for spec in specs:
            dom = make_domain(labels, spec)
            ids.register(dom, spec[2])
            doms.append(dom)
        if doms:
            domains[cds.name] = doms
        if has_motifs:
            motifs[cds.name] = [object()]
    record = types.SimpleNamespace(id="rec", get_cds_features_within_regions=lambda: list(cdses),
                                   get_regions=lambda: [regions[r] for r in sorted(regions)])
    try:
        with mock.patch.object(di, "get_fasta_from_features", return_value=""), \
                mock.patch.object(di, "find_domains", return_value=domains), \
                mock.patch.object(di, "find_subtypes", side_effect=lambda *a, **k: a[2]), \
                mock.patch.object(di, "find_ab_motifs", return_value=motifs), \
                mock.patch.object(di, "get_database_path", return_value="db"), \
                mock.patch.object(di.CDSResult, "annotate_domains", lambda self, record, cds: None):
            results = di.generate_domains(record)
    except Exception as exc:  # pylint: disable=broad-except
        return [1, err_code(exc)]
    # genes in the order of the loop: region by region
    order = [cds for r in sorted(regions) for cds in regions[r].cds_children]
    # the clause "merging ... of ADJACENT same-strand genes": the components of a module come from one gene or from two
    # genes that follow each other directly in their region
    gene_of = {spec[2]: k for k, (specs, *_rest) in enumerate(genes) for spec in specs}
    place = {cds.name: (id(cds.region), cds.region.cds_children.index(cds)) for cds in cdses}
    for cds in order:
        for module in (results.cds_results[cds].modules if cds in results.cds_results else []):
            owners = sorted({place[f"g{gene_of[ids.comp(comp)]}"] for comp in module._components})  # pylint: disable=protected-access
            if len(owners) > 2 or (len(owners) == 2 and (owners[0][0] != owners[1][0] or owners[1][1] - owners[0][1] != 1)):
                GENERATE_ORACLE.append({"genes": [([labels[sp[0]] for sp in specs], m, st, rg) for specs, m, st, rg in genes],
                                        "module": [labels[comp.domain.hit_id] if False else comp.domain.hit_id
                                                   for comp in module._components],  # pylint: disable=protected-access
                                        "gene_positions_of_its_components": owners})
    out = [0, len(order)]
    for cds in order:
        if cds in results.cds_results:
            out += [1] + enc_modules(results.cds_results[cds].modules, ids.comp)
        else:
            out += [0]
    return out


def impl_fn4(mi, specs, labels):
    """ the hits as supplied -> modules; every module rebuilt from its saved form; the same hits handed over in
        protein order (sorted here, stably, by the harness) -> modules.  A failure is [1, error, stage] """
    ids = Ids()
    domains = []
    for spec in specs:
        dom = make_domain(labels, spec)
        ids.register(dom, spec[2])
        domains.append(dom)
    stage = 1
    try:
        modules = mi.build_modules_for_cds(list(domains), "cds")
        stage = 2
        reloaded = reload_modules(modules, None)
        for old, new in zip(modules, reloaded):
            if len(old._components) != len(new._components):
                return [1, 98, stage]
            for a, b in zip(old._components, new._components):
                if a.domain != b.domain or a.locus != b.locus:
                    return [1, 97, stage]
                ids.by_id[id(b.domain)] = ids.comp(a)
        stage = 3
        in_order = mi.build_modules_for_cds(sorted(domains, key=lambda dom: dom.query_start), "cds")
    except Exception as exc:  # pylint: disable=broad-except
        return [1, err_code(exc), stage]
    return [0] + enc_modules(modules, ids.comp) + enc_modules(reloaded, ids.comp) + enc_modules(in_order, ids.comp)


SPEC_OFFSET = 10     # run_C14 fn 11/12/13: the decidable specification on (payload ++ implementation output)


def parse_hits(flat, pos):
    n = flat[pos]
    pos += 1
    hits = []
    for _ in range(n):
        code = flat[pos]
        children, pos = parse_hits(flat, pos + 1)
        hits.append((code, children))
    return hits, pos


def parse_specs(flat, pos):
    """ one encoded domain list -> [(label index, hit forest, id, query_start)], next position """
    n = flat[pos]
    pos += 1
    specs = []
    for _ in range(n):
        lab, cid, start = flat[pos:pos + 3]
        hits, pos = parse_hits(flat, pos + 3)
        specs.append((lab, hits, cid, start))
    return specs, pos


def decode_domains(flat, labels):
    """ readable form of the domain lists inside a flat case: (label, subtype hits, query_start) """
    out, pos = [], 2
    if flat[1] % SPEC_OFFSET == 5:
        for _ in range(flat[2]):
            specs, pos = parse_specs(flat, pos if out else 3)
            out.append([(labels[lab], names_of(hits) or None, start) for lab, hits, _cid, start in specs]
                       + [("motifs, strand, region", tuple(flat[pos:pos + 3]))])
            pos += 3
        return out
    for _ in range(2 if flat[1] % SPEC_OFFSET == 3 else 1):
        specs, pos = parse_specs(flat, pos)
        out.append([(labels[lab], names_of(hits) or None, start) for lab, hits, _cid, start in specs])
    return out


# No finding class is recorded for this property any more, nothing is suppressed.  more_than_two_carrier_proteins
# (known_findings.json F52, spec verdict [2]) is repaired in /repo: Module.ensure_suitable refuses a carrier protein
# when the module already holds the extra one of the documented double-transporter case.  Its witness heads the
# regression corpus; if a third carrier protein is accepted again, the check reports a counterexample.
REPAIRED_CLASS = "more_than_two_carrier_proteins"    # spec verdict [2], kept as a diagnosis of the violated clause
WITNESS = ["PKS_KS", "ACP", "ACP", "LPG_synthase_C", "Beta_elim_lyase", "ACP", "LPG_synthase_C", "Beta_elim_lyase"]


CLAUSES = ["module is not empty", "no docking (ignored) domain inside a module", "explicit starter only in front",
           "at most one loader", "no NRPS loader on a PKS starter or vice versa",
           "one terminating domain, only special domains after it",
           "a further carrier protein is directly followed by a registered DOUBLE_TRANSPORTER_CASES pair; a modification "
           "behind a carrier protein is a trans-AT KR or a member of such a pair",
           "at most two carrier proteins", "the loader precedes every modification, carrier protein and terminating domain",
           "starter slot = first starter", "loader slot = the loader",
           "carrier protein slot = first carrier protein", "end slot = the terminating domain",
           "modifications list = the modification domains", "others list = the remaining domains",
           "reported flags are those of the reported slots", "is_complete / is_trans_at follow their definition "
           "(trans-AT: PKS, starter, no loader, starter an UNAMBIGUOUS Trans-AT-KS or a Trans-AT docking domain present)",
           "is_iterative / Component.subtype: the subtype is the name of the ONLY first-level subtype hit of the domain "
           "(none if there is no hit or there are several)"]


def diagnose(case, out, labels):
    """ which clause fails on which module (Model.v diag_fn); only words the report """
    try:
        res = common.run_driver([[case[0], 15] + case[2:] + out])[0]
    except Exception:  # pylint: disable=broad-except
        return None
    if len(res) < 3 or res[0] == -1:
        return None
    found = {"domains_partitioned_in_protein_order": bool(res[0]), "first_in_cds_flags_ok": bool(res[1])}
    if res[2] >= 0:
        found["first_bad_module_index"] = res[2]
        found["violated_clauses"] = [CLAUSES[k] for k, bit in enumerate(res[3:3 + len(CLAUSES)]) if not bit]
        # the components of that module, from the implementation's output
        pos = 2
        for _ in range(res[2]):
            pos = skip_module(out, pos)
        ncomp = out[pos]
        specs = parse_specs(case, 2)[0]
        by_id = {cid: labels[lab] for lab, _hits, cid, _start in specs}
        hits_by_id = {cid: names_of(hits) for lab, hits, cid, _start in specs}
        found["module"] = [by_id.get(cid, "?") for cid in out[pos + 1:pos + 1 + ncomp]]
        found["module_subtype_hits"] = [hits_by_id.get(cid) or None for cid in out[pos + 1:pos + 1 + ncomp]]
    return found


def skip_module(out, pos):
    pos += 1 + out[pos]          # components
    pos += 4                     # slots
    for _ in range(2):           # modifications, others
        pos += 1 + out[pos]
    pos += 8                     # first_in_cds + seven flags
    return pos + 1 + 2 * out[pos]   # subtype code and number of subtypes per component


STAGES = {1: "build_modules_for_cds on the hits as supplied", 2: "Module.from_json(module.to_json())",
          3: "build_modules_for_cds on the hits in protein order"}


def labels_of(describe):
    return describe.labels


def spec_pass(chk, cases, impl_outs, model_outs, describe):
    """ the specification (partition, layout rules, slots/flags as functions of the components, merge and
        reload clauses, independence of the supply order - Model.v spec_fn1/2/3/4) is evaluated on EVERY
        implementation output; a violated clause is reported with the failing input (the hit list in the order it
        was supplied).  Verdicts: [1] satisfied, [0] failure or partition/layout violated, [2] only the clause
        "no more than two carrier proteins" (the repaired finding F52), [3] a module rebuilt from its saved form
        differs, [4] the modules depend on the supply order of the hits, [-1] output undecodable.
        Nothing is suppressed """
    spec_cases = [[c[0], c[1] + SPEC_OFFSET] + c[2:] + o for c, o in zip(cases, impl_outs)]
    verdicts = common.run_driver(spec_cases)
    chk.extra["spec_evaluated_on_implementation_outputs"] = len(verdicts)
    # fn 5 (generate_domains) has no specification function of its own: model = implementation, and the modules it
    # returns per gene are judged through fn 1 / 3 (the same build_modules_for_cds / combine_modules)
    bad = [i for i, verdict in enumerate(verdicts) if verdict != [1] and cases[i][1] != 5]
    chk.extra["spec_violations"] = len(bad)
    chk.extra["spec_violations_" + REPAIRED_CLASS] = sum(1 for i in bad if verdicts[i] == [2])
    chk.extra["spec_violations_reload_differs"] = sum(1 for i in bad if verdicts[i] == [3])
    chk.extra["spec_violations_supply_order_dependence"] = sum(1 for i in bad if verdicts[i] == [4])
    if not bad:
        return
    # the shortest hit list of every violated clause; a raised exception / broken layout first
    bad.sort(key=lambda i: (len(cases[i]), verdicts[i]))
    seen = set()
    for first in bad:
        key = (cases[first][1], tuple(verdicts[first]), tuple(impl_outs[first][:3]) if impl_outs[first][:1] == [1] else ())
        if key in seen or len(seen) >= 8:
            continue
        seen.add(key)
        fn = cases[first][1]
        out = impl_outs[first]
        replay = {"theorem_or_correspondence": "specification on implementation output (Model.v spec_fn%d)" % fn,
                  "function": fn, "flat": cases[first], "implementation": out, "case_index": first,
                  "model": None, "input": describe(cases[first]),
                  "hit_list_in_supply_order": describe(cases[first])["domains"],
                  "spec_verdict_on_implementation_output": verdicts[first], "violating_cases": len(bad)}
        if fn in (1, 2, 4) and verdicts[first] in ([0], [2]) and out[:1] == [0]:
            found = diagnose(cases[first], out, labels_of(describe))
            if found:
                replay["diagnosis"] = found
        if verdicts[first] not in ([0], [2], [3], [4]):
            chk.violation("broken-correspondence", "implementation output could not be decoded by the specification", replay)
            continue
        what = {1: "build_modules_for_cds output violates partition/layout rules",
                2: "module rebuilt from its saved form differs (or build output violates the rules)",
                3: "combine_modules output violates the merge/layout/reload rules",
                4: "build_modules_for_cds output violates partition/layout rules"}[fn]
        if out[:1] == [1]:
            what = "%s raised %s" % (STAGES.get(out[2], "module construction") if fn in (2, 4) and len(out) > 2
                                     else {1: "build_modules_for_cds", 2: "build_modules_for_cds",
                                           3: "build_modules_for_cds or combine_modules", 4: "module construction"}[fn],
                                     common.ERR_NAME.get(out[1], str(out[1])))
        elif replay.get("diagnosis", {}).get("violated_clauses"):
            diag = replay["diagnosis"]
            what = "build_modules_for_cds returned the module %s, violating: %s" % (
                ",".join(diag.get("module", [])), "; ".join(diag["violated_clauses"]))
            if verdicts[first] == [2]:
                what += " (repaired finding class %s is back)" % REPAIRED_CLASS
        elif replay.get("diagnosis") and not replay["diagnosis"]["domains_partitioned_in_protein_order"]:
            what = "the modules of build_modules_for_cds do not partition the gene's non-docking domains in protein order"
        elif verdicts[first] == [2]:
            what += " (more than two carrier proteins in one module: repaired finding class %s is back)" % REPAIRED_CLASS
        elif verdicts[first] == [3]:
            what = "a module rebuilt from its saved form (Module.from_json(m.to_json())) differs from the module"
        elif verdicts[first] == [4]:
            what = ("the modules depend on the order in which the hits are supplied: build_modules_for_cds(hits) differs "
                    "from build_modules_for_cds(hits sorted by query_start)")
        chk.violation("counterexample", what, replay)


def enc_specs(specs):
    out = [len(specs)]
    for lab, sub, cid, start in specs:
        out += [lab, cid, start] + enc_hits(hits_of(sub))
    return out


class Gen:
    def __init__(self, rng, labels, classes):
        self.rng = rng
        self.labels = labels
        self.index = {l: i for i, l in enumerate(labels)}
        self.classes = {k: sorted(self.index[l] for l in v) for k, v in classes.items()}
        self.class_names = sorted(self.classes)
        self.ks = self.index["PKS_KS"]
        # frequently meaningful labels get extra weight
        self.common = [self.index[l] for l in ("PKS_KS", "PKS_AT", "ACP", "PCP", "PKS_KR", "PKS_DH", "AMP-binding",
                                               "Condensation_LCL", "Thioesterase", "Epimerization", "LPG_synthase_C",
                                               "Beta_elim_lyase", "Trans-AT_docking", "CAL_domain", "PP-binding",
                                               "Condensation_Starter", "TD", "nMT", "NRPS-COM_Nterm", "TIGR01720")]

    def forest(self, depth=1):
        """ an arbitrary hit forest: 1-3 hits per level, any names, up to three levels """
        rng = self.rng
        hits = []
        for _ in range(rng.choice([1, 1, 2, 2, 3])):
            code = rng.choice([1, 1, 2, 3, 4]) if depth == 1 else rng.choice([1, 6, 6, 7, 8])
            children = self.forest(depth + 1) if depth < 3 and rng.random() < 0.3 else []
            hits.append((code, children))
        return hits

    def ks_shape(self):
        """ subtype hits of a KS as find_subtypes can leave them: none, exactly one (with or without nested
            transATor hits), several at the first level (Trans-AT-KS first / later / absent / repeated) """
        rng = self.rng
        r = rng.random()
        if r < 0.20:
            return 0
        if r < 0.62:
            return rng.choice(UNAMBIGUOUS)
        if r < 0.94:
            return rng.choice(AMBIGUOUS)
        return self.forest()

    def label(self):
        r = self.rng.random()
        if r < 0.55:
            return self.rng.choice(self.common)
        if r < 0.85:
            return self.rng.choice(self.classes[self.rng.choice(self.class_names)])
        return self.rng.randrange(len(self.labels))

    def sequence(self, first_id=0, max_len=9):
        rng = self.rng
        n = rng.choice([0, 1, 1, 2, 2, 3, 3, 4, 4, 5, 6, 7, max_len])
        specs = []
        start = rng.randint(0, 5)
        for i in range(n):
            lab = self.label()
            sub = 0
            if lab == self.ks or rng.random() < 0.03:
                sub = self.ks_shape()
            # mostly increasing starts, occasionally ties or out of order (the function sorts, stably)
            r = rng.random()
            if r < 0.9:
                start += rng.randint(1, 30)
            elif r < 0.95:
                pass
            else:
                start = max(0, start - rng.randint(1, 40))
            specs.append((lab, sub, first_id + i, start))
        if rng.random() < 0.15:
            rng.shuffle(specs)
        return specs

    def module_like(self, first_id=0):
        """ sequences shaped like real assembly lines, so that complete modules and merges are frequent """
        rng = self.rng
        ix = self.index
        pieces = rng.choice([
            ["PKS_KS", "PKS_AT", "PKS_KR", "ACP"], ["PKS_KS", "PKS_DH", "PKS_KR", "ACP", "PKS_KR"],
            ["Condensation_LCL", "AMP-binding", "PCP", "Epimerization"], ["AMP-binding", "PCP"],
            ["PKS_KS", "ACP", "ACP", "LPG_synthase_C", "Beta_elim_lyase"], ["PKS_KS"], ["ACP", "Thioesterase"], ["PKS_KR"],
            ["PKS_KS", "Trans-AT_docking", "ACP"], ["CAL_domain", "ACP"], ["PKS_AT", "ACP", "PKS_KS", "PKS_AT"],
            ["Condensation_Starter", "AMP-binding", "nMT", "PCP", "Thioesterase", "PKS_KR"],
            ["ACP", "PKS_KR"], ["PCP", "Epimerization", "Condensation_LCL"], ["Condensation_LCL"], ["PKS_KS", "PKS_AT"],
            ["PKS_KS", "ACP", "PKS_KR"], ["PKS_KS", "ACP"], ["PKS_KS", "PKS_DH", "ACP", "PKS_KR", "PKS_KS", "ACP"],
            ["ACP", "ACP", "LPG_synthase_C", "Beta_elim_lyase"], ["ACP", "LPG_synthase_C", "Beta_elim_lyase"],
            ["PKS_KS", "PKS_AT", "ACP", "ACP", "LPG_synthase_C", "Beta_elim_lyase", "Thioesterase"],
            ["PKS_KS", "ACP", "ACP", "LPG_synthase_C", "NRPS-COM_Nterm", "Beta_elim_lyase"],
            ["PKS_KS", "ACP", "ACP", "LPG_synthase_C"], ["Trans-AT_docking", "ACP", "PKS_KR", "TIGR01720"],
            # a third (fourth) carrier protein followed by the registered pair again: refused since the repair of F52
            ["PKS_KS", "ACP", "ACP", "LPG_synthase_C", "Beta_elim_lyase", "ACP", "LPG_synthase_C", "Beta_elim_lyase"],
            ["PKS_KS", "PKS_AT", "PCP", "ACP", "LPG_synthase_C", "Beta_elim_lyase", "ACP", "LPG_synthase_C",
             "Beta_elim_lyase", "ACP", "LPG_synthase_C", "Beta_elim_lyase", "Thioesterase"],
        ])
        specs = []
        start = 0
        for i, name in enumerate(pieces):
            start += rng.randint(1, 30)
            sub = self.ks_shape() if name == "PKS_KS" else 0
            specs.append((ix[name], sub, first_id + i, start))
        return specs


    # ---------------- one module split over two adjacent genes (combine_modules)
    SPLIT_LINES = [["PKS_KS", "ACP", "PKS_KR"], ["PKS_KS", "PKS_DH", "ACP", "PKS_KR"], ["PKS_KS", "PKS_DH", "PKS_KR", "ACP"],
                   ["PKS_KS", "PKS_AT", "PKS_KR", "ACP"], ["PKS_KS", "PKS_AT", "ACP", "Thioesterase"],
                   ["PKS_KS", "Trans-AT_docking", "ACP", "PKS_KR"], ["Trans-AT_docking", "PKS_KS", "ACP"],
                   ["Condensation_LCL", "AMP-binding", "PCP", "Epimerization"], ["Condensation_LCL", "AMP-binding", "nMT", "PCP"],
                   ["AMP-binding", "PCP", "Thioesterase"], ["CAL_domain", "ACP", "PKS_KR"], ["PKS_KS", "ACP", "Thioesterase", "PKS_KR"],
                   ["PKS_KS", "ACP", "ACP", "LPG_synthase_C", "Beta_elim_lyase"], ["PKS_KS", "PKS_KS", "ACP", "PKS_KR"],
                   ["PKS_KS", "ACP", "PKS_KR", "PKS_KR"], ["Condensation_Starter", "AMP-binding", "PCP"],
                   ["PKS_KS", "AMP-binding", "PCP"], ["Condensation_LCL", "PKS_AT", "ACP"], ["PKS_KS", "ACP", "PKS_KS", "ACP", "PKS_KR"]]
    SPLIT_BEFORE = [[], [], ["PKS_AT", "ACP"], ["PKS_KS", "PKS_AT", "ACP"], ["AMP-binding", "PCP"], ["NRPS-COM_Nterm"], ["PKS_KR"]]
    SPLIT_AFTER = [[], [], ["PKS_KS", "PKS_AT", "ACP"], ["PKS_KR"], ["Thioesterase"], ["Condensation_LCL", "AMP-binding", "PCP"],
                   ["PKS_KS", "ACP"], ["PKS_Docking_Cterm"]]

    def split_pair(self):
        """ an assembly line cut somewhere inside a module: [complete part] head | tail [more domains] """
        rng = self.rng
        line = rng.choice(self.SPLIT_LINES)
        cut = rng.randint(1, len(line) - 1) if rng.random() < 0.9 else rng.randint(0, len(line))
        prev = self.place(rng.choice(self.SPLIT_BEFORE) + line[:cut], 0)
        cur = self.place(line[cut:] + rng.choice(self.SPLIT_AFTER), len(prev))
        if rng.random() < 0.2:
            prev, cur = self.supply(prev), self.supply(cur)
        return prev, cur

    # ---------------- supply order of the hits (build_modules_for_cds orders them by query_start itself)
    SUPPLY_MODES = ["position", "shuffle", "shuffle", "shuffle", "reverse", "by_label", "rotate", "swap"]

    def supply(self, specs, mode=None):
        """ the same hits handed over in another order """
        rng = self.rng
        mode = mode or rng.choice(self.SUPPLY_MODES)
        specs = list(specs)
        if mode == "position":
            specs.sort(key=lambda s: s[3])
        elif mode == "shuffle":
            rng.shuffle(specs)
        elif mode == "reverse":
            specs.reverse()
        elif mode == "by_label":          # hits grouped by profile, as a per-profile scan would list them
            specs.sort(key=lambda s: (self.labels[s[0]], s[3]))
        elif mode == "rotate" and specs:
            k = rng.randrange(len(specs))
            specs = specs[k:] + specs[:k]
        elif mode == "swap" and len(specs) > 1:
            k = rng.randrange(len(specs) - 1)
            specs[k], specs[k + 1] = specs[k + 1], specs[k]
        return specs

    def place(self, items, first_id=0, ties=False):
        """ items: label names or (label name, KS subtype code) in protein order -> specs with increasing
            query_start; with ties some neighbours share their query_start (the sort is stable: among equal
            positions the supply order decides) """
        rng = self.rng
        specs = []
        start = rng.randint(0, 5)
        for i, item in enumerate(items):
            name, sub = item if isinstance(item, tuple) else (item, None)
            if name not in self.index:      # a label the source under test no longer knows
                continue
            if sub is None:
                sub = self.ks_shape() if name == "PKS_KS" else 0
            if not (ties and i and rng.random() < 0.35):
                start += rng.randint(1, 30)
            specs.append((self.index[name], sub, first_id + i, start))
        return specs

    # ---------------- tandem carrier proteins (DOUBLE_TRANSPORTER_CASES, the only reader of the look-ahead)
    PREFIXES = [[], [("PKS_KS", 3)], [("PKS_KS", 1)], [("PKS_KS", 0), "PKS_AT"], ["PKS_AT"], ["Condensation_LCL", "AMP-binding"],
                ["AMP-binding"], ["Condensation_Starter", "AMP-binding", "nMT"], ["CAL_domain"],
                [("PKS_KS", 1), "PKS_DH", "PKS_KR"], ["Condensation_LCL"], [("PKS_KS", 3), "Trans-AT_docking"],
                [("PKS_KS", 2), "PKS_AT", "ACP", ("PKS_KS", 1)], ["Heterocyclization", "A-OX", "cMT"], ["PKS_KR"],
                ["Thioesterase"], ["NRPS-COM_Nterm", "Condensation_DCL", "AMP-binding"],
                [("PKS_KS", "t+m")], [("PKS_KS", "m+t"), "Trans-AT_docking"], [("PKS_KS", "t>c")], [("PKS_KS", "t>c+m"), "PKS_DH"]]
    SUFFIXES = [[], ["PKS_KR"], ["Thioesterase"], ["PKS_KR", "Thioesterase"], ["Thioesterase", "Thioesterase"], ["ACP"],
                ["PKS_KR", "PKS_KR"], [("PKS_KS", 1), "PKS_AT", "ACP"], ["Epimerization"], ["TD", "PKS_KR"],
                ["Condensation_LCL", "AMP-binding", "PCP"], ["Trans-AT_docking", "PKS_KR"], ["TIGR01720", "PKS_DH"],
                ["PKS_Docking_Cterm"], ["nMT", "PCP", "Epimerization"], [("PKS_KS", "t+m"), "ACP", "PKS_KR"]]
    CORE_CPS = [("ACP", "ACP"), ("PCP", "PCP"), ("ACP", "PCP"), ("PP-binding", "PKS_PP")]
    INTERLOPERS = ["NRPS-COM_Nterm", "TIGR01720", "cMT", "ACPS", "PKS_KR", "Trans-AT_docking", "PCP", "Thioesterase"]

    def set_cases(self, cases):
        import itertools
        self.cases = [tuple(case) for case in cases]
        self.carriers = sorted(self.labels[i] for i in self.classes["CARRIER_PROTEINS"])
        tails = []
        for case in self.cases:
            elems = sorted(set(case))
            # every permutation, every prefix of one, every repetition: all words over the members up to one longer
            for n in range(len(case) + 2):
                tails += [list(word) for word in itertools.product(elems, repeat=n)]
            tails.append(list(case) + list(case))
            tails.append(list(case) + [self.carriers[0]] + list(case))
            for extra in self.INTERLOPERS:
                for pos in range(len(case) + 1):
                    tails.append(list(case[:pos]) + [extra] + list(case[pos:]))
                tails.append(list(reversed(case)) + [extra])
        self.tails = [t for i, t in enumerate(tails) if t not in tails[:i]]
        also = [(a, b) for a in self.carriers for b in self.carriers if (a, b) not in self.CORE_CPS]
        self.all_cps = [pair for pair in self.CORE_CPS if pair[0] in self.carriers and pair[1] in self.carriers] + also

    def tandem_items(self, prefix=None, pair=None, tail=None, suffix=None):
        """ [module context] CP CP [members of a registered pair in some arrangement] [further domains] """
        rng = self.rng
        prefix = rng.choice(self.PREFIXES) if prefix is None else prefix
        pair = (rng.choice(self.all_cps) if rng.random() < 0.5 else rng.choice(self.all_cps[:4])) if pair is None else pair
        tail = rng.choice(self.tails) if tail is None else tail
        if suffix is None:
            suffix = rng.choice(self.SUFFIXES) if rng.random() < 0.8 else [self.labels[self.label()] for _ in range(rng.randint(1, 3))]
        return list(prefix) + list(pair) + list(tail) + list(suffix)

    def tandem(self, first_id=0, **parts):
        rng = self.rng
        specs = self.place(self.tandem_items(**parts), first_id, ties=rng.random() < 0.25)
        return self.supply(specs)

    def tandem_core(self, thorough):
        """ deterministic part: every arrangement of the pair members behind CP CP, in every module context
            (quick: carrier protein pair, following domains and supply order drawn at random; thorough: the full
            product over the core carrier protein pairs, in position order and in two other supply orders) """
        out = []
        for tail in self.tails:
            for prefix in self.PREFIXES:
                if thorough:
                    for pair in self.all_cps[:4]:
                        for suffix in self.SUFFIXES:
                            specs = self.place(self.tandem_items(prefix, pair, tail, suffix), 0, ties=self.rng.random() < 0.15)
                            out.append(self.supply(specs, "position"))
                            out.append(self.supply(specs, "shuffle"))
                            out.append(self.supply(specs))
                else:
                    specs = self.place(self.tandem_items(prefix, None, tail, None), 0, ties=self.rng.random() < 0.15)
                    out.append(self.supply(specs, "position"))
                    out.append(self.supply(specs, self.rng.choice(["shuffle", "reverse", "by_label", "shuffle"])))
        return out

    def permutation_family(self):
        """ one hit list with pairwise different positions in many supply orders (all of them up to four hits) """
        import itertools
        rng = self.rng
        r = rng.random()
        if r < 0.5:
            base = self.place(self.tandem_items(), 0)
        elif r < 0.8:
            base = self.module_like()
        else:
            base = sorted({s[3]: s for s in self.sequence(0, 7)}.values(), key=lambda s: s[3])
        if len(base) <= 4:
            return [list(perm) for perm in itertools.permutations(base)]
        return [self.supply(base, "shuffle") for _ in range(6)] + [self.supply(base, "reverse"), self.supply(base, "by_label")]

    def single_gene(self, first_id=0, max_len=9):
        """ one gene for build / build+reload / supply order independence """
        rng = self.rng
        r = rng.random()
        if r < 0.4:
            return self.tandem(first_id)
        if r < 0.7:
            specs = self.module_like(first_id)
            if rng.random() < 0.3:      # ties
                specs = [(s[0], s[1], s[2], s[3] if rng.random() < 0.7 else specs[max(0, k - 1)][3]) for k, s in enumerate(specs)]
            return self.supply(specs) if rng.random() < 0.6 else specs
        specs = self.sequence(first_id, max_len)
        return self.supply(specs) if rng.random() < 0.3 else specs


RULE = ("every implementation output is also judged by the decidable specification of Model.v (spec_fn1/2/3/4); "
        "random domain sequences over all labels of the generated class tables (weighted to assembly-line labels); every KS (and 3 % of the other domains) carries subtype hits as find_subtypes can leave them: none, exactly one (plain or with nested transATor hits, up to three levels), several at the first level (Trans-AT-KS first / later / absent, equal and different names), random forests; "
        "hit lists supplied in position order AND shuffled / reversed / grouped by profile / rotated, with pairwise different and "
        "with tied query_start; tandem carrier proteins: [module context] CP CP [every word over the members of each "
        "DOUBLE_TRANSPORTER_CASES entry up to one longer than the entry, the entry twice, with a foreign domain at every place] "
        "[further domains] for all carrier protein labels; permutation families (all supply orders of up to four hits); single "
        "genes (build, build+reload, build+reload+build in position order) and adjacent gene pairs (combine_modules, both strand "
        "relations; 30 % of them one assembly-line module cut in two at a random place); non-trivial = at least two modules or a merge attempt with non-empty genes; distinct by flat encoding")
FN_NAMES = {1: "build_modules_for_cds", 2: "build+from_json(to_json)", 3: "combine_modules",
            4: "build(as supplied)+reload+build(position order)", 5: "generate_domains (the loop over the genes of the regions)"}


def run(chk):
    import time
    t0 = time.time()
    if not chk.build_and_audit():
        return chk.finish(RULE)
    t1 = time.time()
    labels, classes = label_table()
    gen = Gen(chk.rng, labels, classes)
    gen.set_cases(double_cases())
    thorough = chk.tier != "quick"
    total = 500000 if thorough else 20000
    cases, impl_outs = [], []
    ix = gen.index
    # regression corpus: witness of the repaired combine_modules defect (known_findings.json F22)
    corpus = [(3, ([(ix["PKS_KS"], 1, 0, 10)],
                   [(ix["ACP"], 0, 1, 10), (ix["Thioesterase"], 0, 2, 30), (ix["PKS_KR"], 0, 3, 50)], True)),
              # witness of the repaired finding F52 (more_than_two_carrier_proteins): KS ACP ACP LPG Beta ACP LPG Beta
              # was ONE module with three carrier proteins, now [KS,CP,CP,+,+] [CP] [+,+]; with a loader (complete
              # module), with a fourth carrier protein, and split over two genes
              (2, ([(ix[name], 0, k, 10 * (k + 1)) for k, name in enumerate(WITNESS)],)),
              (1, ([(ix[name], 0, k, 10 * (k + 1)) for k, name in enumerate(WITNESS)],)),
              (2, ([(ix[name], 0, k, 10 * (k + 1)) for k, name in enumerate(WITNESS[:1] + ["PKS_AT"] + WITNESS[1:])],)),
              (2, ([(ix[name], 0, k, 10 * (k + 1)) for k, name in enumerate(WITNESS + WITNESS[5:])],)),
              (3, ([(ix[name], 0, k, 10 * (k + 1)) for k, name in enumerate(WITNESS[:3])],
                   [(ix[name], 0, 3 + k, 10 * (k + 1)) for k, name in enumerate(WITNESS[3:])], True)),
              (3, ([(ix[name], 0, k, 10 * (k + 1)) for k, name in enumerate(WITNESS[:1])],
                   [(ix[name], 0, 1 + k, 10 * (k + 1)) for k, name in enumerate(WITNESS[1:])], True)),
              # the F52 witness with the hits supplied in reverse order
              (4, ([(ix[name], 0, k, 10 * (k + 1)) for k, name in enumerate(WITNESS)][::-1],))]
    # an AMBIGUOUS subtype call (several subtype hits inside one KS hit) is no subtype: KS, ACP, KR with the KS
    # carrying Trans-AT-KS + Modular-KS in either order / twice Trans-AT-KS, in one gene and split over two genes;
    # and the unambiguous controls (plain, with nested transATor clade hits)
    for shape in ("t+m", "m+t", "t+t", "t>c+m", 1, "t>c", "t>cc", "m>t", "i+t", "i>t"):
        trio = [(ix["PKS_KS"], shape, 0, 10), (ix["ACP"], 0, 1, 30), (ix["PKS_KR"], 0, 2, 50)]
        corpus.append((4, (trio,)))
        corpus.append((3, (trio[:1], [(ix["ACP"], 0, 1, 10), (ix["PKS_KR"], 0, 2, 30)], True)))
        corpus.append((3, ([(ix["PKS_AT"], 0, 3, 5), (ix["ACP"], 0, 4, 8)] + trio[:1],
                           [(ix["PKS_KS"], 4, 5, 2)] + trio[1:], True)))
    # every arrangement of the pair members behind two carrier proteins, in every module context
    queue = list(corpus) + [(4, (specs,)) for specs in gen.tandem_core(thorough)]
    chk.extra["tandem_core_cases"] = len(queue) - len(corpus)
    chk.extra["double_transporter_cases"] = [list(case) for case in gen.cases]
    chk.extra["tandem_tails"] = len(gen.tails)
    queue.reverse()     # consumed from the end
    orders = {"position_order": 0, "other_order": 0, "tied_positions": 0}
    tandem_seen = 0
    sub_kinds = {}
    for i in range(total):
        r = chk.rng.random()
        if queue:
            fn, args = queue.pop()
        elif r < 0.08:
            # two to five genes of one or two regions: module pieces split over neighbours, genes whose only hit forms
            # no module (a docking domain), genes with a/b motifs only, genes without anything, either strand
            genes, next_id = [], 0
            region = 0
            for _ in range(chk.rng.choice([2, 3, 3, 4, 5])):
                kind = chk.rng.random()
                if kind < 0.3 and len(genes) < 4:
                    prev, cur = gen.split_pair()
                    pieces = [prev, cur]
                elif kind < 0.55:
                    pieces = [gen.module_like(0)]
                elif kind < 0.7:
                    pieces = [[(gen.index[chk.rng.choice(["PKS_Docking_Nterm", "PKS_Docking_Cterm", "NRPS-COM_Nterm"])], 0, 0, 5)]]
                elif kind < 0.85:
                    pieces = [[]]
                else:
                    pieces = [gen.sequence(0, 4)]
                for specs in pieces:
                    specs = [(sp[0], sp[1], next_id + j, sp[3]) for j, sp in enumerate(specs)]
                    next_id += len(specs)
                    if chk.rng.random() < 0.12:
                        region += 1
                    genes.append((specs, chk.rng.random() < (0.15 if specs else 0.4), 1, region))
            if chk.rng.random() < 0.35:
                # directed: the two halves of one module with a gene in between whose only hit forms no module (or that has
                # a/b motifs only): the halves are NOT neighbours and must stay apart
                prev, cur = gen.split_pair()
                middle = ([(gen.index[chk.rng.choice(["PKS_Docking_Nterm", "PKS_Docking_Cterm", "NRPS-COM_Nterm"])], 0, 0, 5)]
                          if chk.rng.random() < 0.7 else [])
                genes, next_id = [], 0
                for specs in (prev, middle, cur):
                    specs = [(sp[0], sp[1], next_id + j, sp[3]) for j, sp in enumerate(specs)]
                    next_id += len(specs)
                    genes.append((specs, not specs, 1, 0))
                chk.count("generate_domains_split_module_with_a_gene_in_between")
            strand = chk.rng.choice([1, 1, -1])
            genes = [(sp, m, strand if chk.rng.random() < 0.9 else -strand, rg) for sp, m, _st, rg in genes]
            if strand == -1:
                genes = genes[::-1]          # downstream gene first, as the record lists a reverse-strand cluster
                first = {}
                for _sp, _m, _st, rg in genes:
                    first.setdefault(rg, len(first))
                genes = [(sp, m, st, first[rg]) for sp, m, st, rg in genes]
            fn, args = 5, (genes,)
        elif r < 0.12:
            fn, args = 1, (gen.single_gene(),)
        elif r < 0.20:
            fn, args = 2, (gen.single_gene(),)
        elif r < 0.52:
            fn, args = 4, (gen.single_gene(),)
        elif r < 0.56:
            family = [(4, (specs,)) for specs in gen.permutation_family()]
            chk.count("permutation_families")
            fn, args = family[0]
            queue.extend(family[1:])
        else:
            def mk(first):
                q = chk.rng.random()
                if q < 0.5:
                    specs = gen.module_like(first)
                    return gen.supply(specs) if chk.rng.random() < 0.25 else specs
                if q < 0.6:
                    return gen.tandem(first)
                return gen.sequence(first, 6)
            if chk.rng.random() < 0.3:
                prev, cur = gen.split_pair()
                chk.count("combine_split_module_pairs")
            else:
                prev = mk(0)
                cur = mk(len(prev))
            if chk.rng.random() < 0.3:
                cur = cur + [(s[0], s[1], len(prev) + len(cur) + j, max(c[3] for c in cur) + 20 * (j + 1) if cur else 5)
                             for j, s in enumerate(gen.module_like(0))]
            fn, args = 3, (prev, cur, chk.rng.random() < 0.85)
        if fn == 5:
            flat = [PROP, 5, len(args[0])]
            for specs, has_motifs, strand, region in args[0]:
                flat += enc_specs(specs) + [int(has_motifs), strand, region]
            out = impl_generate(args[0], labels)
            cases.append(flat)
            impl_outs.append(out)
            chk.count(FN_NAMES[5])
            merged = out[0] == 0 and any(len(sp) for sp, *_ in args[0])
            chk.note_case(flat, merged, {"function": 5, "genes": [([labels[s[0]] for s in sp], m, st, rg) for sp, m, st, rg in args[0]],
                                         "implementation": out[:40]})
            continue
        if fn == 3:
            flat = [PROP, fn] + enc_specs(args[0]) + enc_specs(args[1]) + [int(args[2])]
        else:
            flat = [PROP, fn] + enc_specs(args[0])
        out = impl(fn, args, labels)
        cases.append(flat)
        impl_outs.append(out)
        chk.count(FN_NAMES[fn])
        for specs in args[:2] if fn == 3 else args[:1]:
            starts = [s[3] for s in specs]
            orders["position_order" if starts == sorted(starts) else "other_order"] += 1
            if len(set(starts)) < len(starts):
                orders["tied_positions"] += 1
            for spec in specs:
                hits = hits_of(spec[1])
                if spec[0] == gen.ks or hits:
                    first = [code for code, _children in hits]
                    kind = ("no_subtype_hit" if not hits else
                            "one_first_level_hit" + ("_nested" if hits[0][1] else "") if len(hits) == 1 else
                            "several_first_level_hits_" + ("trans_at_ks_first" if first[0] == 1 else
                                                           "trans_at_ks_later" if 1 in first else "no_trans_at_ks"))
                    sub_kinds[kind] = sub_kinds.get(kind, 0) + 1
                    if len(hits) > 1 and len(set(first)) == 1:
                        sub_kinds["several_first_level_hits_equal_names"] = sub_kinds.get("several_first_level_hits_equal_names", 0) + 1
                    if len(detailed_tail(hits)) > 1:
                        sub_kinds["subtypes_longer_than_one"] = sub_kinds.get("subtypes_longer_than_one", 0) + 1
            names = [labels[s[0]] for s in sorted(specs, key=lambda s: s[3])]
            if any(a in gen.carriers and b in gen.carriers for a, b in zip(names, names[1:])):
                tandem_seen += 1
        nontrivial = (fn in (1, 2, 4) and len(out) > 1 and out[0] == 0 and out[1] >= 2) or (fn == 3 and args[0] and args[1])
        if fn == 3 and out[0] == 0 and out[1] == 1:
            chk.count("combine_merged")
        if out[0] == 1:
            chk.count("error_" + common.ERR_NAME.get(out[1], str(out[1])))
        chk.note_case(flat, nontrivial, {"function": fn, "domains": [[(labels[s[0]], names_of(hits_of(s[1])) or None, s[3])
                                                                     for s in a] for a in args if isinstance(a, list)],
                                         "implementation": out})
    if GENERATE_ORACLE:
        chk.violation("counterexample", f"generate_domains merged modules of genes that are not direct neighbours in their region "
                      f"({len(GENERATE_ORACLE)} case(s))",
                      {"theorem_or_correspondence": "C14 'merging ... of adjacent same-strand genes' / generate_domains",
                       "input": min(GENERATE_ORACLE, key=lambda d: len(d["genes"]))})
    chk.extra["hit_lists_by_supply_order"] = orders
    chk.extra["hit_lists_with_adjacent_carrier_proteins"] = tandem_seen
    chk.extra["domains_by_subtype_hit_layout"] = sub_kinds
    t2 = time.time()
    def describe(flat):
        return {"function": flat[1], "payload": flat[2:], "domains": decode_domains(flat, labels)}
    describe.labels = labels
    # first the specification on every implementation output (a violated clause with its hit list is the best
    # report), then model = implementation
    spec_pass(chk, cases, impl_outs, None, describe)
    t3 = time.time()
    model_outs = common.correspondence(chk, cases, impl_outs, spec_fn_offset=SPEC_OFFSET, describe=describe)
    for _kind, _what, rep in chk.violations:
        if isinstance(rep, dict) and rep.get("model", 0) is None and "case_index" in rep:
            rep["model"] = model_outs[rep["case_index"]]
    t4 = time.time()
    chk.crosscheck_vm(cases, model_outs)
    chk.extra["wall_split_s"] = {"build_and_audit": round(t1 - t0, 1), "generate_and_run_implementation": round(t2 - t1, 1),
                                 "specification": round(t3 - t2, 1), "model": round(t4 - t3, 1),
                                 "vm_compute_crosscheck": round(time.time() - t4, 1)}
    return chk.finish(RULE)


def replay(chk, path):
    import json
    doc = json.load(open(path))
    print("model:", common.run_driver([doc["flat"]])[0], "recorded implementation:", doc.get("implementation"))
    return 0
