"""C06: regions are the disjoint connected components of overlapping areas.
Histories of add / create / clear on a real secmet Record with real SubRegion, Protocluster-backed
CandidateCluster and CDS objects; the regions of every create_regions are compared with the Coq model, and
implementation-side oracles check numbering (1..n in list order, numbers identify the feature) and that no
stale parent / region link survives a clear + re-create."""
import common
from common import err_code

PROP = 6


def gen_areas(rng):
    n = rng.choice([300, 1000, 5000])
    k = rng.choice([1, 2, 3, 4, 5, 6, 8])
    areas = set()
    pos = rng.randint(0, n // 10)
    for _ in range(k):
        r = rng.random()
        if r < 0.2 and areas:
            s0, e0 = rng.choice(sorted(areas))
            s = rng.randint(s0, e0 - 1)                      # nested in / overlapping an earlier area
            e = rng.randint(s + 1, min(n, max(s + 1, e0 + rng.choice([-5, 0, 1, 30]))))
        else:
            s = min(n - 1, pos)
            e = min(n, s + rng.choice([1, 5, 20, 60, 200]))
        if s < e:
            areas.add((s, e))
        pos = e + rng.choice([-10, -1, 0, 0, 1, 7, 50])
        pos = max(0, min(n - 1, pos))
    return n, sorted(areas)


def build_record(n, circular, genes):
    from antismash.common.secmet.test.helpers import DummyRecord, DummyCDS
    record = DummyRecord(seq="A" * n, circular=circular)
    for i, (s, e) in enumerate(genes):
        record.add_cds_feature(DummyCDS(s, e, locus_tag=f"g{i}"))
    return record


def make_area(kind, s, e):
    from antismash.common.secmet.test.helpers import DummySubRegion, DummyCandidateCluster, DummyProtocluster
    if kind == "sub":
        return DummySubRegion(s, e)
    proto = DummyProtocluster(start=s, end=e, core_start=s, core_end=e)
    return DummyCandidateCluster([proto])


def expected_components(areas):
    """ independent oracle: connected components of 'share a base' among (start, end) areas -> sorted (hull, members) """
    parent = list(range(len(areas)))

    def find(x):
        while parent[x] != x:
            x = parent[x]
        return x
    for a in range(len(areas)):
        for b in range(a + 1, len(areas)):
            if areas[a][0] < areas[b][1] and areas[b][0] < areas[a][1]:
                parent[find(a)] = find(b)
    comps = {}
    for i, area in enumerate(areas):
        comps.setdefault(find(i), []).append(area)
    out = []
    for members in comps.values():
        members.sort(key=lambda m: (m[0], -(m[1] - m[0])))
        out.append((min(m[0] for m in members), max(m[1] for m in members), members))
    return sorted(out)


def observe_regions(record):
    out = []
    for region in record.get_regions():
        members = sorted(((int(a.location.start), int(a.location.end)) for a in list(region.candidate_clusters) + list(region.subregions)),
                         key=lambda m: (m[0], -(m[1] - m[0])))
        out.append((int(region.location.start), int(region.location.end), members))
    return out


def oracle(record, areas_in_record):
    """ numbering and parent links on the implementation's state; returns a description of the first failure """
    regions = record.get_regions()
    for i, region in enumerate(regions):
        if region.get_region_number() != i + 1 or record.get_region(i + 1) is not region:
            return f"region {i} has number {region.get_region_number()}"
    for a, b in zip(regions, regions[1:]):
        if not a.location.end <= b.location.start:
            return "regions overlap or are out of order"
    for area in areas_in_record:
        if area.parent is not None and area.parent not in regions:
            return "an area's parent is a region that is no longer in the record"
        if regions and area.parent is None:
            return "an area in the record belongs to no region"
    for cds in record.get_cds_features():
        if cds.region is not None and cds.region not in regions:
            return f"gene {cds.get_name()} links to a region that is no longer in the record"
        if cds.region is not None and not cds.is_contained_by(cds.region):
            return f"gene {cds.get_name()} is linked to a region that does not contain it"
    return None


RULE = ("records of 300-5000 bases (linear, and circular without origin-spanning areas) with 1-8 areas (sub-regions and single-"
        "protocluster candidate clusters; nested, chained, touching, 1 base apart) supplied in random order, 0-6 genes incl. genes "
        "straddling area junctions; history: add areas, create_regions, then one of {clear_regions+create_regions, "
        "clear_subregions, add one more area + clear_regions + create_regions}; after every create the regions are compared with "
        "the model and the numbering / parent-link oracles are evaluated.  Non-trivial = some region has >= 2 areas")


def run(chk):
    if not chk.build_and_audit():
        return chk.finish(RULE)
    rng = chk.rng
    total = 2500 if chk.tier == "quick" else 40000
    cases, impl_outs = [], []

    def compare(n, areas, record, label):
        flat = [PROP, 1, n, len(areas)] + [x for a in areas for x in a]
        try:
            got = observe_regions(record)
            out = [len(got)]
            for s, e, members in got:
                out += [s, e, len(members)] + [x for m in members for x in m]
            if got != expected_components(list(areas)):
                chk.violation("counterexample", "regions are not the connected components of the overlapping areas",
                              {"theorem_or_correspondence": "C06_components_linear / Record.create_regions",
                               "input": {"length": n, "areas": areas, "step": label}, "implementation": got,
                               "expected": expected_components(list(areas)), "flat": flat})
        except Exception as exc:  # pylint: disable=broad-except
            got, out = [], [-1, err_code(exc)]
        cases.append(flat)
        impl_outs.append(out)
        chk.count(label)
        chk.note_case(flat, any(len(m) >= 2 for _, _, m in got), {"step": label, "length": n, "areas": areas, "implementation": got})

    for _ in range(total):
        n, areas = gen_areas(rng)
        circular = rng.random() < 0.3
        genes = set()
        for _ in range(rng.choice([0, 2, 4, 6])):
            if areas and rng.random() < 0.6:
                s0, e0 = rng.choice(areas)
                s = max(0, rng.choice([s0, e0]) + rng.randint(-8, 4))
            else:
                s = rng.randrange(0, n)
            e = min(n, s + rng.choice([3, 9, 30]))
            if s < e:
                genes.add((s, e))
        order = list(areas)
        rng.shuffle(order)
        kinds = {a: rng.choice(["sub", "sub", "cand"]) for a in areas}
        try:
            record = build_record(n, circular, sorted(genes))
            objs = []
            for a in order:
                obj = make_area(kinds[a], *a)
                if kinds[a] == "sub":
                    record.add_subregion(obj)
                else:
                    record.add_protocluster(obj.protoclusters[0])
                    record.add_candidate_cluster(obj)
                objs.append(obj)
            record.create_regions()
            compare(n, areas, record, "create")
            bad = oracle(record, objs)
            step = rng.choice(["recreate", "clear_subregions", "add_then_recreate"])
            current = list(areas)
            if not bad:
                if step == "recreate":
                    record.clear_regions()
                    record.create_regions()
                elif step == "clear_subregions":
                    record.clear_subregions()
                    objs = [o for o, a in zip(objs, order) if kinds[a] != "sub"]
                    current = [a for a in areas if kinds[a] != "sub"]
                else:
                    s = rng.randrange(0, n - 1)
                    extra = (s, min(n, s + rng.choice([1, 30, 300])))
                    if extra not in current:
                        obj = make_area("sub", *extra)
                        record.add_subregion(obj)
                        objs.append(obj)
                        current = sorted(current + [extra])
                    record.clear_regions()
                    record.create_regions()
                compare(n, current, record, step)
                bad = oracle(record, objs)
            if bad:
                chk.violation("counterexample", f"record state after {step if bad else 'create'}: {bad}",
                              {"theorem_or_correspondence": "C06_numbering / C06_no_stale_parents (implementation-side oracle)",
                               "input": {"length": n, "circular": circular, "areas_in_supply_order": order, "kinds": {str(k): v for k, v in kinds.items()},
                                         "genes": sorted(genes), "history": ["add areas", "create_regions", step]},
                               "failure": bad})
        except Exception as exc:  # pylint: disable=broad-except
            flat = [PROP, 1, n, len(areas)] + [x for a in areas for x in a]
            cases.append(flat)
            impl_outs.append([-1, err_code(exc)])
            chk.count("error_" + type(exc).__name__)
            chk.note_case(flat, False)
    # ---- numbering histories (fn 2): add_subregion / clear_subregions on a record without regions
    from antismash.common.secmet.test.helpers import DummySubRegion
    for _ in range(total // 3):
        n = 400
        record = build_record(n, False, [])
        ops, objs, used = [], {}, set()
        for step in range(rng.choice([1, 2, 3, 5, 8])):
            if ops and rng.random() < 0.12:
                record.clear_subregions()
                ops.append([1])
                continue
            s = rng.randrange(0, n - 1)
            e = rng.randrange(s + 1, min(n, s + 60) + 1)
            if (s, e) in used:
                continue
            used.add((s, e))
            obj = DummySubRegion(s, e)
            record.add_subregion(obj)
            objs[id(obj)] = len(objs) + 1
            index = [id(o) for o in record.get_subregions()].index(id(obj))
            ops.append([0, index, objs[id(obj)]])
        flat = [PROP, 2, len(ops)] + [x for op in ops for x in op]
        members = record.get_subregions()
        out = [len(members)]
        for pos, obj in enumerate(members):
            number = obj.get_subregion_number()
            if record.get_subregion(number) is not obj:
                chk.violation("counterexample", "a sub-region's number does not identify it",
                              {"theorem_or_correspondence": "C06_numbering_inv / Record.add_subregion", "input": {"ops": ops}, "flat": flat})
            out += [objs[id(obj)], number]
        cases.append(flat)
        impl_outs.append(out)
        chk.count("numbering_history")
        chk.note_case(flat, len(members) >= 2, {"step": "numbering", "ops": ops, "implementation": out} if rng.random() < 0.01 else None)
    model_outs = common.correspondence(chk, cases, impl_outs,
                                       describe=lambda flat: {"function": "Record.create_regions", "length": flat[2], "areas": flat[4:]})
    chk.crosscheck_vm(cases, model_outs)
    known_findings(chk)
    return chk.finish(RULE)


def known_findings(chk):
    """ recorded, unrepaired defects: printed only while the stored witness still reproduces """
    from antismash.common.secmet.test.helpers import DummyRecord, DummySubRegion
    for finding in common.load_known_findings("C06"):
        if finding["status"] != "known" or finding["class"] != "origin_spanning_area":
            continue
        w = finding["witness"]
        record = DummyRecord(seq="A" * w["length"], circular=w["circular"])
        try:
            for s, e in w["subregions"]:
                record.add_subregion(DummySubRegion(s, e, record_length=w["length"]))
            record.create_regions()
        except ValueError as exc:
            if "regions cannot overlap" in str(exc):
                chk.known(finding["what_fails"])


def replay(chk, path):
    import json
    doc = json.load(open(path))
    if "flat" in doc:
        print("model:", common.run_driver([doc["flat"]])[0], "recorded implementation:", doc.get("implementation"))
    else:
        print(doc.get("input"), doc.get("failure"))
    return 0
