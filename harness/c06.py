"""C06: regions are the disjoint connected components of overlapping areas.
Histories of add / create / clear on a real secmet Record with real SubRegion, Protocluster-backed
CandidateCluster and CDS objects; the regions of every create_regions are compared with the Coq model, and
implementation-side oracles check numbering (1..n in list order, numbers identify the feature) and that no
stale parent / region link survives a clear + re-create."""
import common
from common import err_code

PROP = 6


def gen_areas(rng):
    n = rng.choice([300, 1000, 5000])
    k = rng.choice([1, 2, 3, 4, 5, 6, 8])
    areas = set()
    pos = rng.randint(0, n // 10)
    for _ in range(k):
        r = rng.random()
        if r < 0.2 and areas:
            s0, e0 = rng.choice(sorted(areas))
            s = rng.randint(s0, e0 - 1)                      # nested in / overlapping an earlier area
            e = rng.randint(s + 1, min(n, max(s + 1, e0 + rng.choice([-5, 0, 1, 30]))))
        else:
            s = min(n - 1, pos)
            e = min(n, s + rng.choice([1, 5, 20, 60, 200]))
        if s < e:
            areas.add((s, e))
        pos = e + rng.choice([-10, -1, 0, 0, 1, 7, 50])
        pos = max(0, min(n - 1, pos))
    return n, sorted(areas)


def build_record(n, circular, genes):
    from antismash.common.secmet.test.helpers import DummyRecord, DummyCDS
    record = DummyRecord(seq="A" * n, circular=circular)
    for i, (s, e) in enumerate(genes):
        record.add_cds_feature(DummyCDS(s, e, locus_tag=f"g{i}"))
    return record


def form_candidates(record):
    """ Record.create_candidate_clusters with the CandidateCluster constructor of the formation module and the
        formation function observed: -> (every candidate constructed, in construction order; the returned list) """
    from antismash.common.secmet.features.candidate_cluster import formation
    from antismash.common.secmet import record as record_module
    built, returned = [], []
    constructor, former = formation.CandidateCluster, record_module.create_candidates_from_protoclusters

    def construct(*args, **kwargs):
        built.append(constructor(*args, **kwargs))
        return built[-1]

    def form(*args, **kwargs):
        returned.extend(former(*args, **kwargs))
        return list(returned)
    formation.CandidateCluster, record_module.create_candidates_from_protoclusters = construct, form
    try:
        record.create_candidate_clusters()
    finally:
        formation.CandidateCluster, record_module.create_candidates_from_protoclusters = constructor, former
    return built, returned


def make_area(kind, s, e):
    from antismash.common.secmet.test.helpers import DummySubRegion, DummyCandidateCluster, DummyProtocluster
    if kind == "sub":
        return DummySubRegion(s, e)
    proto = DummyProtocluster(start=s, end=e, core_start=s, core_end=e)
    return DummyCandidateCluster([proto])


def expected_components(areas):
    """ independent oracle: connected components of 'share a base' among (start, end) areas -> sorted (hull, members) """
    parent = list(range(len(areas)))

    def find(x):
        while parent[x] != x:
            x = parent[x]
        return x
    for a in range(len(areas)):
        for b in range(a + 1, len(areas)):
            if areas[a][0] < areas[b][1] and areas[b][0] < areas[a][1]:
                parent[find(a)] = find(b)
    comps = {}
    for i, area in enumerate(areas):
        comps.setdefault(find(i), []).append(area)
    out = []
    for members in comps.values():
        members.sort(key=lambda m: (m[0], -(m[1] - m[0])))
        out.append((min(m[0] for m in members), max(m[1] for m in members), members))
    return sorted(out)


def observe_regions(record):
    out = []
    for region in record.get_regions():
        members = sorted(((int(a.location.start), int(a.location.end)) for a in list(region.candidate_clusters) + list(region.subregions)),
                         key=lambda m: (m[0], -(m[1] - m[0])))
        out.append((int(region.location.start), int(region.location.end), members))
    return out


def loc_parts(location):
    return [(int(p.start), int(p.end)) for p in location.parts]


def sort_key(location):
    """ (start, -length), the start of an origin-spanning location counted from the origin backwards """
    parts = loc_parts(location)
    length = sum(e - s for s, e in parts)
    if len(parts) > 1:
        return (parts[0][0] - parts[0][1], -length)
    return (parts[0][0], -length)


def oracle(record, areas_in_record):
    """ numbering and parent links on the implementation's state; returns a description of the first failure """
    regions = record.get_regions()
    for i, region in enumerate(regions):
        if region.get_region_number() != i + 1 or record.get_region(i + 1) is not region:
            return f"region {i} has number {region.get_region_number()}"
    for i, a in enumerate(regions):
        for b in regions[i + 1:]:
            if parts_share_base(loc_parts(a.location), loc_parts(b.location)):
                return "two regions of the record overlap"
    for a, b in zip(regions, regions[1:]):
        if not sort_key(a.location) <= sort_key(b.location):
            return "regions are out of location order"
    for name, members, number_of, getter in (
            ("sub-region", record.get_subregions(), lambda x: x.get_subregion_number(), record.get_subregion),
            ("candidate cluster", record.get_candidate_clusters(), record.get_candidate_cluster_number, record.get_candidate_cluster),
            ("protocluster", record.get_protoclusters(), lambda x: x.get_protocluster_number(), record.get_protocluster)):
        for i, member in enumerate(members):
            if number_of(member) != i + 1 or getter(i + 1) is not member:
                return f"{name} at position {i} carries number {number_of(member)}"
        for a, b in zip(members, members[1:]):
            if not sort_key(a.location) <= sort_key(b.location):
                return f"{name}s are out of location order"
    current = list(record.get_subregions()) + list(record.get_candidate_clusters())
    for area in areas_in_record:
        if area.parent is not None and area.parent not in regions:
            return "an area's parent is a region that is no longer in the record"
        if regions and area.parent is None and any(area is c for c in current):
            return "an area in the record belongs to no region"
    for area in current:
        if area.parent is not None and not any(area.parent is r for r in regions):
            return "an area's parent is a region that is no longer in the record"
    tracked = [p for a in areas_in_record if hasattr(a, "protoclusters") for p in a.protoclusters]
    for proto in list(record.get_protoclusters()) + tracked:       # also the protoclusters a clear has removed
        if proto.parent is not None and not any(proto.parent is c for c in record.get_candidate_clusters()):
            return "a protocluster's parent is a candidate cluster that is no longer in the record"
    for cds in record.get_cds_features():
        if cds.region is not None and cds.region not in regions:
            return f"gene {cds.get_name()} links to a region that is no longer in the record"
        if cds.region is not None and not cds.is_contained_by(cds.region):
            return f"gene {cds.get_name()} is linked to a region that does not contain it"
    return None


# ---------------------------------------------------------------- circular records (fn 3, fn 4)

def enc_loc(location):
    """ Biopython / secmet location -> flat [nparts, (start, end, strand)*]; strand None is 2 """
    out = [len(location.parts)]
    for part in location.parts:
        out += [int(part.start), int(part.end), 2 if part.strand is None else int(part.strand)]
    return out


def make_ring_area(kind, s, e, n):
    """ s > e means [s, n) + [0, e) """
    from antismash.common.secmet.test.helpers import DummySubRegion, DummyCandidateCluster, DummyProtocluster
    if kind == "sub":
        if s == e:                                           # the whole ring, starting at s
            from antismash.common.secmet.locations import CompoundLocation, FeatureLocation
            return DummySubRegion(location=CompoundLocation([FeatureLocation(s, n, 1), FeatureLocation(0, e, 1)]))
        return DummySubRegion(s, e, record_length=n)
    proto = DummyProtocluster(start=s, end=e, core_start=s, core_end=e, record_length=n)
    if s > e:
        return DummyCandidateCluster([proto], circular_wrap_point=n)
    return DummyCandidateCluster([proto])


def gen_ring_areas(rng, force_span=None):
    """ layouts on a ring: 1-7 areas, usually with one or more origin-spanning ones, others placed
        relative to the ends of the spanning area (chained into its upper part, its lower part, nested in
        either, touching, one base apart) or anywhere """
    n = rng.choice([60, 100, 300, 1000])
    k = rng.choice([1, 2, 3, 3, 4, 4, 5, 6, 7])
    areas = []
    spans = rng.choice([0, 1, 1, 1, 2]) if force_span is None else force_span
    for _ in range(spans):
        s = rng.randrange(n // 2, n)
        e = rng.randrange(1, min(s, n // 2) + 1)
        if rng.random() < 0.05:
            e = s                                            # covers the whole ring
        areas.append((s, e))
    anchors = [x for a in areas for x in a] or [n // 3, 2 * n // 3]
    while len(areas) < max(k, spans):
        r = rng.random()
        if r < 0.55:
            a = rng.choice(anchors) + rng.choice([-12, -5, -1, 0, 1, 5, 12])
            s = max(0, min(n - 1, a - rng.choice([0, 1, 3, 10, 30])))
            e = max(s + 1, min(n, a + rng.choice([0, 1, 3, 10, 30])))
        elif r < 0.65:
            s, e = rng.choice([(0, rng.randrange(1, n // 3)), (rng.randrange(2 * n // 3, n - 1), n)])
        elif r < 0.68 and not any(x >= y for x, y in areas):
            s, e = 0, n                                      # whole record (only without spanning areas, see notes)
        else:
            s = rng.randrange(0, n - 1)
            e = min(n, s + rng.choice([1, 2, 5, 10, 40, n // 4]))
        if (s, e) == (0, n) and any(x >= y for x, y in areas):
            continue     # [0, n) next to an origin-spanning area: CDSCollection.__lt__ holds both ways round (see notes)
        if (s, e) not in areas or rng.random() < 0.3:
            areas.append((s, e))
            anchors += [s, e]
    rng.shuffle(areas)
    return n, areas


def ring_parts(area, n):
    s, e = area
    return [(s, e)] if s < e else [(s, n), (0, e)]


def ring_kinds(rng, areas):
    """ an area written (s, s) is the whole ring from s: only built as a sub-region """
    return ["sub" if s == e else rng.choice(["sub", "sub", "cand"]) for s, e in areas]


def parts_share_base(pa, pb):
    return any(a0 < b1 and b0 < a1 for a0, a1 in pa for b0, b1 in pb)


def ring_components(areas, n):
    """ independent oracle: the partition of area indexes into connected components of 'share a base' """
    parts = [ring_parts(a, n) for a in areas]
    parent = list(range(len(areas)))

    def find(x):
        while parent[x] != x:
            x = parent[x]
        return x
    for a in range(len(areas)):
        for b in range(a + 1, len(areas)):
            if parts_share_base(parts[a], parts[b]):
                parent[find(a)] = find(b)
    comps = {}
    for i in range(len(areas)):
        comps.setdefault(find(i), []).append(i)
    return sorted(sorted(c) for c in comps.values())


def merged(intervals):
    """ union of half-open intervals as a sorted list of maximal intervals """
    out = []
    for s, e in sorted(intervals):
        if out and s <= out[-1][1]:
            out[-1][1] = max(out[-1][1], e)
        else:
            out.append([s, e])
    return out


def ring_spec(areas, n, got):
    """ the clauses of C06 on the implementation's outcome `got` (None = create_regions raised, else a list of
        (parts, cand ids, sub ids)); returns None or the first clause that fails """
    if got is None:
        return "region creation did not succeed"
    comps = ring_components(areas, n)
    groups = sorted(sorted(c + s) for _, c, s in got)
    flat = sorted(x for g in groups for x in g)
    if flat != list(range(len(areas))):
        return "an area is in no region or in more than one"
    if groups != comps:
        return "the regions' member sets are not the connected components of the overlapping areas"
    for i, (pa, _, _) in enumerate(got):
        for pb, _, _ in got[i + 1:]:
            if parts_share_base(pa, pb):
                return "two regions overlap"
    for parts, cands, subs in got:
        if merged([x for m in cands + subs for x in ring_parts(areas[m], n)]) != merged(parts):
            return "a region's location is not the span of its areas"
    return None


def observe_ring(record, index_of):
    out = []
    for region in record.get_regions():
        parts = [(int(p.start), int(p.end)) for p in region.location.parts]
        out.append((parts, [index_of[id(c)] for c in region.candidate_clusters],
                    [index_of[id(s)] for s in region.subregions], enc_loc(region.location)))
    return out


def enc_regions(observed):
    out = [0, len(observed)]
    for _parts, cands, subs, eloc in observed:
        out += eloc + [len(cands)] + cands + [len(subs)] + subs
    return out


def ring_case(n, circular, areas, kinds, genes=()):
    """ builds the real record, runs create_regions; -> (flat case, implementation output, observed or None, record, objs) """
    record = build_record(n, circular, sorted(genes))
    objs, index_of = [], {}
    flat = [PROP, 3, n, 1 if circular else 0, len(areas)]
    for i, ((s, e), kind) in enumerate(zip(areas, kinds)):
        obj = make_ring_area(kind, s, e, n)
        index_of[id(obj)] = i
        objs.append(obj)
        flat += [1 if kind == "cand" else 0] + enc_loc(obj.location)
        if kind == "sub":
            record.add_subregion(obj)
        else:
            record.add_protocluster(obj.protoclusters[0])
            record.add_candidate_cluster(obj)
    try:
        record.create_regions()
    except Exception as exc:  # pylint: disable=broad-except
        return flat, [1, err_code(exc)], None, record, objs
    observed = observe_ring(record, index_of)
    return flat, enc_regions(observed), observed, record, objs


RULE = ("records of 300-5000 bases (linear, and circular without origin-spanning areas) with 1-8 areas (sub-regions and single-"
        "protocluster candidate clusters; nested, chained, touching, 1 base apart) supplied in random order, 0-6 genes incl. genes "
        "straddling area junctions; history: add areas, create_regions, then one of {clear_regions+create_regions, "
        "clear_subregions, add one more area + clear_regions + create_regions}; ring histories: circular records of 60-1000 "
        "bases, 1-7 areas, 75 % with 1-2 origin-spanning ones, create_regions, then one of {re-create, clear_subregions, "
        "clear_candidate_clusters, clear_protoclusters, strip_antismash_annotations, add one more area, remove everything by "
        "one of four clear paths and hand the SAME objects to the record again in another order}, then (half of the cases) 1-3 "
        "genes added AFTER the regions; numbering histories: the four ordered lists under add / clear_* / strip / add-again of "
        "the same objects; add_region histories; link histories incl. strip and add-again; after every create the regions are "
        "compared with the model and the numbering / parent-link oracles are evaluated.  Non-trivial = some region has >= 2 "
        "areas, a numbering list of >= 2 members that was cleared and refilled, a refused add_region, a link history with a "
        "clear and a surviving link, a late gene inside a region")

def run(chk):
    if not chk.build_and_audit():
        return chk.finish(RULE)
    rng = chk.rng
    total = 2500 if chk.tier == "quick" else 40000
    cases, impl_outs = [], []

    def compare(n, areas, record, label):
        flat = [PROP, 1, n, len(areas)] + [x for a in areas for x in a]
        try:
            got = observe_regions(record)
            out = [len(got)]
            for s, e, members in got:
                out += [s, e, len(members)] + [x for m in members for x in m]
            if got != expected_components(list(areas)):
                chk.violation("counterexample", "regions are not the connected components of the overlapping areas",
                              {"theorem_or_correspondence": "C06_components_linear / Record.create_regions",
                               "input": {"length": n, "areas": areas, "step": label}, "implementation": got,
                               "expected": expected_components(list(areas)), "flat": flat})
        except Exception as exc:  # pylint: disable=broad-except
            got, out = [], [-1, err_code(exc)]
        cases.append(flat)
        impl_outs.append(out)
        chk.count(label)
        chk.note_case(flat, any(len(m) >= 2 for _, _, m in got), {"step": label, "length": n, "areas": areas, "implementation": got})

    for _ in range(total):
        n, areas = gen_areas(rng)
        circular = rng.random() < 0.3
        genes = set()
        for _ in range(rng.choice([0, 2, 4, 6])):
            if areas and rng.random() < 0.6:
                s0, e0 = rng.choice(areas)
                s = max(0, rng.choice([s0, e0]) + rng.randint(-8, 4))
            else:
                s = rng.randrange(0, n)
            e = min(n, s + rng.choice([3, 9, 30]))
            if s < e:
                genes.add((s, e))
        order = list(areas)
        rng.shuffle(order)
        kinds = {a: rng.choice(["sub", "sub", "cand"]) for a in areas}
        try:
            record = build_record(n, circular, sorted(genes))
            objs = []
            for a in order:
                obj = make_area(kinds[a], *a)
                if kinds[a] == "sub":
                    record.add_subregion(obj)
                else:
                    record.add_protocluster(obj.protoclusters[0])
                    record.add_candidate_cluster(obj)
                objs.append(obj)
            record.create_regions()
            compare(n, areas, record, "create")
            bad = oracle(record, objs)
            step = rng.choice(["recreate", "clear_subregions", "add_then_recreate"])
            current = list(areas)
            if not bad:
                if step == "recreate":
                    record.clear_regions()
                    record.create_regions()
                elif step == "clear_subregions":
                    record.clear_subregions()
                    objs = [o for o, a in zip(objs, order) if kinds[a] != "sub"]
                    current = [a for a in areas if kinds[a] != "sub"]
                else:
                    s = rng.randrange(0, n - 1)
                    extra = (s, min(n, s + rng.choice([1, 30, 300])))
                    if extra not in current:
                        obj = make_area("sub", *extra)
                        record.add_subregion(obj)
                        objs.append(obj)
                        current = sorted(current + [extra])
                    record.clear_regions()
                    record.create_regions()
                compare(n, current, record, step)
                bad = oracle(record, objs)
            if bad:
                chk.violation("counterexample", f"record state after {step if bad else 'create'}: {bad}",
                              {"theorem_or_correspondence": "C06_numbering / C06_no_stale_parents (implementation-side oracle)",
                               "input": {"length": n, "circular": circular, "areas_in_supply_order": order, "kinds": {str(k): v for k, v in kinds.items()},
                                         "genes": sorted(genes), "history": ["add areas", "create_regions", step]},
                               "failure": bad})
        except Exception as exc:  # pylint: disable=broad-except
            flat = [PROP, 1, n, len(areas)] + [x for a in areas for x in a]
            cases.append(flat)
            impl_outs.append([-1, err_code(exc)])
            chk.count("error_" + type(exc).__name__)
            chk.note_case(flat, False)
    run_numbering(chk, rng, total // 3, cases, impl_outs)
    pending = run_rings(chk, rng, 2 * total, cases, impl_outs)
    if chk.tier == "thorough":
        pending += run_rings_exhaustive(chk, cases, impl_outs)
    pending_add = run_add_region(chk, rng, total, cases, impl_outs)
    run_links(chk, rng, total // 2, cases, impl_outs)
    pending_late = LATE_PENDING[:]
    del LATE_PENDING[:]
    model_outs = common.correspondence(chk, cases, impl_outs,
                                       describe=lambda flat: {"function": "Record.create_regions", "length": flat[2], "areas": flat[4:]})
    decide_rings(chk, pending, model_outs)
    decide_add_region(chk, pending_add, model_outs)
    decide_late_genes(chk, pending_late, model_outs)
    chk.crosscheck_vm(cases, model_outs)
    known_findings(chk)
    return chk.finish(RULE)



def add_objects(record, objs):
    """ hands areas to the record: a candidate cluster after its protoclusters """
    for obj in objs:
        if hasattr(obj, "protoclusters"):
            for proto in obj.protoclusters:
                if not any(proto is p for p in record.get_protoclusters()):
                    record.add_protocluster(proto)
            record.add_candidate_cluster(obj)
        else:
            record.add_subregion(obj)


def list_diff(before, after, ident):
    """ what happened to one ordered feature list of the record during a call, as operations of the numbering model:
        nothing, one insertion [0, index, id], or a clear [1] followed by the insertions that rebuild `after` """
    if len(after) == len(before) and all(a is b for a, b in zip(after, before)):
        return []
    if len(after) == len(before) + 1:
        i = 0
        while i < len(before) and after[i] is before[i]:
            i += 1
        if all(after[j + 1] is before[j] for j in range(i, len(before))):
            return [[0, i, ident(after[i])]]
    return [[1]] + [[0, i, ident(obj)] for i, obj in enumerate(after)]


def run_numbering(chk, rng, total, cases, impl_outs):
    """ fn 2: histories of add_subregion / add_protocluster / add_candidate_cluster / add_region and clear_subregions /
        clear_candidate_clusters / clear_protoclusters / clear_regions / strip_antismash_annotations on one record, in
        which features removed by a clear are handed to the record AGAIN (the same objects, whose numbers of their earlier
        life are still in the numbering dictionaries), in any order.  Each of the four ordered lists is followed
        separately: after every call the list is compared with what it was (insertion at an index / cleared and rebuilt)
        and the resulting operations are given to the numbering model; at the end every member's number is compared
        with the model's and must be position + 1 and lead back to the member. """
    from antismash.common.secmet.test.helpers import DummySubRegion, DummyProtocluster, DummyCandidateCluster
    from antismash.common.secmet.features import Region
    kinds = ("sub", "proto", "cand", "region")
    for _ in range(total):
        n = 400
        circular = rng.random() < 0.3
        record = build_record(n, circular, [])
        ids, alive = {}, []
        pool = {k: [] for k in kinds}
        ops = {k: [] for k in kinds}
        history = []

        def ident(obj):
            if id(obj) not in ids:
                ids[id(obj)] = len(ids) + 1
                alive.append(obj)
            return ids[id(obj)]

        def lists():
            return {"sub": list(record.get_subregions()), "proto": list(record.get_protoclusters()),
                    "cand": list(record.get_candidate_clusters()), "region": list(record.get_regions())}

        def span():
            if circular and rng.random() < 0.1:
                s = rng.randrange(n // 2, n)
                return s, rng.randrange(1, n // 4)
            s = rng.randrange(0, n - 1)
            return s, rng.randrange(s + 1, min(n, s + rng.choice([8, 60])) + 1)

        adders = {"sub": record.add_subregion, "proto": record.add_protocluster, "cand": record.add_candidate_cluster,
                  "region": record.add_region}
        before = lists()
        for _step in range(rng.choice([2, 4, 6, 9, 12, 16])):
            r = rng.random()
            try:
                if r < 0.4:
                    kind = rng.choice(kinds)
                    s, e = span()
                    if kind == "sub":
                        obj = make_ring_area("sub", s, e, n)
                    elif kind == "proto":
                        obj = DummyProtocluster(start=s, end=e, core_start=s, core_end=e, record_length=n)
                    elif kind == "cand":
                        proto = DummyProtocluster(start=s, end=e, core_start=s, core_end=e, record_length=n)
                        obj = DummyCandidateCluster([proto], circular_wrap_point=n) if s > e else DummyCandidateCluster([proto])
                    else:
                        obj = Region(subregions=[make_ring_area("sub", s, e, n)])
                    pool[kind].append(obj)
                    history.append(("add_" + kind, (s, e)))
                    adders[kind](obj)
                elif r < 0.72:
                    kind = rng.choice(kinds)
                    current = before[kind]
                    absent = [o for o in pool[kind] if not any(o is c for c in current)]
                    if not absent:
                        continue
                    obj = rng.choice(absent)
                    history.append(("add_again_" + kind, (int(obj.location.start), int(obj.location.end))))
                    adders[kind](obj)
                else:
                    call = rng.choice(["clear_subregions", "clear_candidate_clusters", "clear_protoclusters", "clear_regions",
                                       "strip_antismash_annotations"])
                    history.append((call,))
                    getattr(record, call)()
            except Exception as exc:  # pylint: disable=broad-except
                # add_region of a region overlapping another one (nothing changes), or a re-creation that fails half way
                # (recorded class origin_spanning_long_arc): the lists are followed by their state, whatever happened
                history.append(("raised " + type(exc).__name__,))
                chk.count("numbering_call_raised_" + type(exc).__name__)
            after = lists()
            for kind in kinds:
                for obj in after[kind]:
                    if not any(obj is o for o in pool[kind]):
                        pool[kind].append(obj)            # regions made by a re-creation
                ops[kind] += list_diff(before[kind], after[kind], ident)
            before = after
        getters = {"sub": (record.get_subregion_number, record.get_subregion),
                   "proto": (record.get_protocluster_number, record.get_protocluster),
                   "cand": (record.get_candidate_cluster_number, record.get_candidate_cluster),
                   "region": (record.get_region_number, record.get_region)}
        for kind in kinds:
            flat = [PROP, 2, len(ops[kind])] + [x for op in ops[kind] for x in op]
            members = before[kind]
            out = [len(members)]
            failure = None
            for pos, obj in enumerate(members):
                try:
                    number = getters[kind][0](obj)
                except ValueError:
                    number = -1
                if number != pos + 1 or getters[kind][1](number) is not obj:
                    failure = failure or f"the {kind} at position {pos} of its list shows number {number}"
                out += [ident(obj), number]
            if failure:
                chk.violation("counterexample", "numbering after a history of add / clear / add-again calls: " + failure,
                              {"theorem_or_correspondence": "C06_numbering_inv (implementation-side oracle) / Record.add_*",
                               "input": {"length": n, "circular": circular, "history": history, "list": kind,
                                         "list_operations": ops[kind]},
                               "implementation": out, "flat": flat})
            cases.append(flat)
            impl_outs.append(out)
            chk.count("numbering_history_" + kind)
            chk.note_case(flat, len(members) >= 2 and any(op[0] == 1 for op in ops[kind]),
                          {"step": "numbering " + kind, "history": history, "ops": ops[kind], "implementation": out}
                          if rng.random() < 0.003 else None)


# ---- genes added after the regions (fn 6) ----
LATE_PENDING = []


def gene_in_region(gene_parts, region_parts):
    return all(any(p0 <= s and e <= p1 for p0, p1 in region_parts) for s, e in gene_parts)


def region_ok(parts, n):
    """ the hypothesis reg_ok of C06_late_gene_link_complete on one region location: one non-empty part inside the
        record, or the two parts [s, n) + [0, e) with 0 < e <= s < n """
    if len(parts) == 1:
        return 0 <= parts[0][0] < parts[0][1] <= n
    return (len(parts) == 2 and parts[1][0] == 0 and parts[0][1] == n
            and 0 < parts[1][1] <= parts[0][0] < parts[0][1])


def late_genes(chk, rng, record, n, circular, cases, impl_outs, context, fixed=None):
    """ adds 1-3 genes (or the genes `fixed` of the regression corpus) to a record that already has its regions
        (Record.add_cds_feature -> _link_cds_to_parent) and notes, for each, which regions took the gene and where
        cds.region points; the verdict (the gene points to the one region containing it, as if it had been there before
        the regions) waits for the model's answer """
    from antismash.common.secmet.test.helpers import DummyCDS
    from antismash.common.secmet.locations import CompoundLocation, FeatureLocation
    regions = list(record.get_regions())
    if not regions:
        return
    bad_layout = [loc_parts(reg.location) for reg in regions if not region_ok(loc_parts(reg.location), n)
                  or (len(reg.location.parts) == 2 and any(p.strand != 1 for p in reg.location.parts))]
    if bad_layout:
        chk.violation("counterexample", "a region location built by create_regions is outside the hypothesis reg_ok of "
                      "C06_late_gene_link_complete (one non-empty part, or [s, N) + [0, e) with 0 < e <= s < N, forward)",
                      {"theorem_or_correspondence": "C06_late_gene_link_complete (hypothesis on the produced layout, tested on every run)",
                       "input": {"length": n, "circular": circular, "history": context}, "regions_outside": bad_layout})
    chk.count("late_gene_layout_checked")
    taken = {str(c.location) for c in record.get_cds_features()}
    for k in range(len(fixed) if fixed is not None else rng.choice([1, 2, 3])):
        region = rng.choice(regions)
        parts = loc_parts(region.location)
        r = rng.random()
        gene = None
        if fixed is not None:
            gene = [tuple(g) for g in fixed[k]]
        elif r < 0.7:
            p0, p1 = rng.choice(parts)
            length = rng.choice([3, 6, 9])
            if p1 - p0 >= length:
                s = rng.choice([p0, p1 - length, rng.randint(p0, p1 - length)])
                gene = [(s, s + length)]
        elif r < 0.8 and len(parts) == 2 and parts[1][0] == 0 and parts[0][1] == n:
            a, b = rng.choice([3, 6]), rng.choice([3, 6])
            if parts[0][1] - parts[0][0] >= a and parts[1][1] >= b:
                gene = [(n - a, n), (0, b)]                      # a gene crossing the origin inside the crossing region
        if gene is None:
            s = rng.randrange(0, n - 3)
            gene = [(s, s + 3)]
        strand = 1 if fixed is not None else rng.choice([1, -1])
        if len(gene) == 1:
            location = FeatureLocation(gene[0][0], gene[0][1], strand)
        else:
            location = CompoundLocation([FeatureLocation(s, e, 1) for s, e in gene])
        if str(location) in taken:
            continue
        by_bases = [all(any(p0 <= x < p1 for p0, p1 in loc_parts(reg.location)) for s, e in gene for x in range(s, e))
                    for reg in regions]
        if by_bases != [gene_in_region(gene, loc_parts(reg.location)) for reg in regions]:
            continue      # a gene over the junction of a whole-ring region [s:n)+[0:s): "contains" is ambiguous there
        taken.add(str(location))
        cds = DummyCDS(location=location, locus_tag=f"late{k}_{len(taken)}")
        flat = [PROP, 6, len(regions)] + [x for reg in regions for x in enc_loc(reg.location)] + enc_loc(location)
        try:
            record.add_cds_feature(cds)
        except Exception as exc:  # pylint: disable=broad-except
            cases.append(flat)
            impl_outs.append([-1, err_code(exc)])
            chk.count("late_gene_error_" + type(exc).__name__)
            chk.note_case(flat, False)
            continue
        hits = [i for i, reg in enumerate(regions) if any(c is cds for c in reg.cds_children)]
        linked = -1
        for i, reg in enumerate(regions):
            if cds.region is reg:
                linked = i
        if cds.region is not None and linked == -1:
            linked = -2
        expected = [i for i, reg in enumerate(regions) if gene_in_region(gene, loc_parts(reg.location))]
        out = [len(hits)] + hits + [linked]
        cases.append(flat)
        impl_outs.append(out)
        verdict = None
        if hits != expected or linked != (expected[-1] if expected else -1):
            verdict = ("a gene added after the regions does not point to the region that contains it" if expected
                       else "a gene added after the regions is linked to a region that does not contain it")
        region_parts = [loc_parts(reg.location) for reg in regions]
        LATE_PENDING.append({"index": len(cases) - 1, "n": n, "circular": circular, "regions": region_parts, "gene": gene,
                             "expected": expected, "hits": hits, "linked": linked, "impl": out, "verdict": verdict,
                             "context": context})
        chk.count("late_gene")
        chk.count("late_gene_inside_a_region" if expected else "late_gene_outside_the_regions")
        chk.note_case(flat, bool(expected), {"step": "late gene", "length": n, "regions": region_parts, "gene": gene,
                                            "implementation": out} if rng.random() < 0.002 else None)


def late_gene_class(item):
    """ the shape of the REPAIRED finding C06-K4 late_gene_origin_region_unlinked (nothing is suppressed any more; the
        label only goes into the report when the failure comes back): the record has two or more regions, the first one
        spans the origin and contains the gene, the gene lies wholly in its part BEFORE the origin, and the gene is linked
        to nothing """
    regions, gene = item["regions"], item["gene"]
    if len(regions) < 2 or len(regions[0]) != 2 or item["expected"] != [0] or len(gene) != 1:
        return None
    if not (regions[0][0][0] <= gene[0][0] and gene[0][1] <= regions[0][0][1]):
        return None
    if item["hits"] or item["linked"] != -1:
        return None
    return "late_gene_origin_region_unlinked"


def decide_late_genes(chk, pending, model_outs):
    for item in pending:
        if item["verdict"] is None:
            continue
        cls = late_gene_class(item)
        chk.violation("counterexample", "add_cds_feature after create_regions: " + item["verdict"],
                      {"theorem_or_correspondence": "C06_late_gene_link_complete / C06_late_gene_link_sound (independent oracle on "
                                                    "the implementation's outcome; the clause is C08's: each gene points to the "
                                                    "one region containing it, whether added before or after the areas)",
                       "input": {"length": item["n"], "circular": item["circular"], "regions_in_record_order": item["regions"],
                                 "late_gene": item["gene"], "history": item["context"]},
                       "regions_that_took_the_gene": item["hits"], "cds_region": item["linked"], "expected": item["expected"],
                       "model": model_outs[item["index"]],
                       "class_of_failure": None if cls is None else cls + " (C06-K4, repaired: the defect is back)"})


def known_classes():
    return {f["class"] for f in common.load_known_findings("C06") if f["status"] == "known"}


def ring_genes(rng, n, areas):
    """ small genes that neither overlap one another nor cross the origin (C08's recorded classes are avoided) """
    genes, pos = [], rng.randrange(0, 5)
    anchors = sorted({x for a in areas for x in a})
    for _ in range(rng.choice([0, 0, 3, 6])):
        if anchors and rng.random() < 0.6:
            pos = max(pos, rng.choice(anchors) + rng.randint(-6, 2))
        end = pos + rng.choice([3, 6])
        if end > n:
            break
        genes.append((pos, end))
        pos = end + rng.randrange(0, n // 6 + 1)
    return genes


# regression corpus, run first: witnesses of the repaired finding F12 origin_spanning_area (several sections of the
# sweep overlap the origin-spanning first one; the unrepaired create_regions merged only the last of them and raised
# ValueError) - the recorded witness, the smallest layout found, three overlapping sections, the shape of C07-K1
RING_CORPUS = [
    (100, [(29, 42), (90, 99), (60, 24), (59, 77)]),
    (100, [(43, 56), (32, 33), (51, 2)]),
    (1000, [(700, 50), (710, 760), (800, 850), (990, 1000), (300, 400)]),
    (1000, [(600, 40), (990, 1000), (610, 700), (100, 200), (699, 720), (20, 60)]),
    # a layout reported independently as "whole-record region when a member of the crossing component starts past the
    # midpoint (start >= L - end)": such a member is sent to the pre-origin chunk by _split_sections_around_origin, the
    # hulls of the two chunks overlap and connect_locations answers [0:L] - the recorded class origin_spanning_long_arc
    # (the component 39..28 covers 29 of the 40 bases); kept here so that its attribution to that class stays under watch
    (40, [(39, 13), (10, 28), (21, 23), (5, 8), (28, 30)]),
]
# ... of the repaired finding C06-K4 late_gene_origin_region_unlinked (a gene added after the regions, inside the part
# before the origin of the origin-crossing first region, was linked to nothing when the record had other regions): the
# recorded witness, the smallest layout (two regions), the gene at both ends of the pre-origin part, genes after the
# origin / across it / in the other regions / outside every region.  (length, sub-regions, late genes)
LATE_GENE_CORPUS = [
    (1000, [(900, 50), (100, 200), (400, 500), (600, 700)],
     [[(950, 980)], [(10, 40)], [(120, 150)], [(300, 320)], [(900, 903)], [(997, 1000)], [(994, 1000), (0, 6)], [(600, 700)]]),
    (100, [(59, 24), (29, 42)], [[(97, 100)], [(59, 62)], [(0, 3)], [(29, 32)], [(39, 42)], [(45, 48)]]),
    (1000, [(100, 200), (900, 50), (300, 350), (400, 500), (600, 700), (750, 800)], [[(940, 949)], [(950, 980)], [(750, 756)]]),
]
# ... and of the repaired finding C06-K3 add_region_scan_stops_early (an origin-spanning new region sharing bases with a
# region other than the first was accepted), with the neighbouring call that must be accepted
ADD_REGION_CORPUS = [
    (1000, [(50, 150), (400, 500), (800, 950), (900, 20)]),
    (1000, [(50, 150), (400, 500), (800, 950), (950, 20), (940, 960)]),
    (100, [(10, 20), (30, 40), (60, 70), (65, 5), (90, 15), (70, 10)]),
]


def clearing_raised(chk, exc, n, circular, areas, kinds, step):
    """ a clear_* call re-creates the regions from the areas that are left and that can fail on the layouts of the
        recorded class origin_spanning_long_arc (the areas left over are a subset of the layout): counted there,
        reported everywhere else """
    subsets = [areas, [a for a, k in zip(areas, kinds) if k == "sub"], [a for a, k in zip(areas, kinds) if k != "sub"]]
    if (isinstance(exc, ValueError) and "origin_spanning_long_arc" in known_classes()
            and any(sub and long_arc_components(sub, n) for sub in subsets)):
        chk.count("ring_history_discarded_long_arc_recreation")
        return
    chk.violation("counterexample", f"{step} raised {type(exc).__name__}: {exc}",
                  {"theorem_or_correspondence": "Record.clear_* / strip_antismash_annotations (region re-creation must succeed)",
                   "input": {"length": n, "circular": circular, "areas_in_supply_order": areas, "kinds": kinds,
                             "history": ["add areas", "create_regions", step]}})


def run_rings(chk, rng, total, cases, impl_outs):
    """ fn 3: real circular (and a few linear) records, areas incl. origin-spanning ones added in supply order,
        create_regions, then a clear / re-create step; every outcome is judged by the independent ring oracle and
        compared with the model.  Returns the verdicts that wait for the model's answer. """
    pending = []

    def note(n, circular, areas, kinds, flat, out, observed, label):
        verdict = ring_spec(areas, n, None if observed is None else [(p, c, s) for p, c, s, _ in observed])
        cases.append(flat)
        impl_outs.append(out)
        pending.append({"index": len(cases) - 1, "n": n, "circular": circular, "areas": list(areas), "kinds": list(kinds),
                        "verdict": verdict, "observed": observed, "step": label, "impl": out})
        chk.count("ring_" + label)
        spanning = sum(1 for s, e in areas if s >= e)
        chk.count(f"ring_spanning_areas_{min(spanning, 2)}")
        chk.note_case(flat, observed is not None and any(len(c) + len(s) >= 2 for _, c, s, _ in observed),
                      {"step": "ring " + label, "length": n, "areas": areas, "implementation": out} if rng.random() < 0.002 else None)

    corpus = [(n, list(areas), kinds, None) for n, areas in RING_CORPUS for kinds in (["sub"] * len(areas), ["cand"] * len(areas))]
    corpus += [(n, list(areas), kinds, late) for n, areas, late in LATE_GENE_CORPUS
               for kinds in (["sub"] * len(areas), ["cand"] * len(areas))]
    for _ in range(total):
        fixed_late = None
        if corpus:
            n, areas, kinds, fixed_late = corpus.pop(0)
            circular, genes = True, []
            chk.count("ring_corpus" if fixed_late is None else "late_gene_corpus")
        else:
            n, areas = gen_ring_areas(rng)
            circular = True
            if not any(s >= e for s, e in areas) and rng.random() < 0.3:
                circular = False
            kinds = ring_kinds(rng, areas)
            genes = ring_genes(rng, n, areas)
        try:
            flat, out, observed, record, objs = ring_case(n, circular, areas, kinds, genes)
        except Exception as exc:  # pylint: disable=broad-except
            chk.violation("broken-correspondence", f"building a ring record failed: {exc!r}",
                          {"theorem_or_correspondence": "harness (ring record construction)", "input": {"length": n, "areas": areas, "kinds": kinds}})
            continue
        note(n, circular, areas, kinds, flat, out, observed, "create")
        if observed is None:
            continue
        bad = oracle(record, objs)
        step = rng.choice(["recreate", "clear_subregions", "clear_candidate_clusters", "add_then_recreate", "none",
                           "clear_protoclusters", "strip", "add_again", "add_again"])
        if fixed_late is not None:
            step = "none"           # the late-gene corpus: the genes go into the record as create_regions left it
        keep = list(range(len(areas)))
        if not bad and step != "none":
            error = None
            try:
                if step == "recreate":
                    record.clear_regions()
                    record.create_regions()
                elif step == "clear_subregions":
                    keep = [i for i in keep if kinds[i] != "sub"]
                    record.clear_subregions()
                elif step == "clear_candidate_clusters":
                    keep = [i for i in keep if kinds[i] != "cand"]
                    record.clear_candidate_clusters()
                elif step == "clear_protoclusters":
                    keep = [i for i in keep if kinds[i] != "cand"]
                    record.clear_protoclusters()
                elif step == "strip":
                    keep = []
                    try:
                        record.strip_antismash_annotations()
                    except Exception as exc:  # pylint: disable=broad-except
                        clearing_raised(chk, exc, n, circular, areas, kinds, step)
                        continue
                    if any(o.parent is not None for o in objs) or any(
                            p.parent is not None for o in objs if hasattr(o, "protoclusters") for p in o.protoclusters):
                        bad = "a parent link survives strip_antismash_annotations"
                elif step == "add_again":
                    # everything is removed by one of the clear paths, then the SAME objects are handed to the record
                    # again in another order (their numbers and the numbers of their earlier life are still stored)
                    way = rng.choice(["strip", "cands_subs", "protos_subs", "subs_cands"])
                    try:
                        if way == "strip":
                            record.strip_antismash_annotations()
                        elif way == "cands_subs":
                            record.clear_candidate_clusters()
                            record.clear_subregions()
                        elif way == "protos_subs":
                            record.clear_protoclusters()
                            record.clear_subregions()
                        else:
                            record.clear_subregions()
                            record.clear_candidate_clusters()
                    except Exception as exc:  # pylint: disable=broad-except
                        clearing_raised(chk, exc, n, circular, areas, kinds, step + " " + way)
                        continue
                    if record.get_regions() or record.get_candidate_clusters() or record.get_subregions():
                        bad = "areas or regions remain although every area was cleared"
                    bad = bad or oracle(record, objs)
                    keep = list(range(len(areas)))
                    rng.shuffle(keep)
                    if rng.random() < 0.3:
                        keep.sort(key=lambda i: sort_key(objs[i].location), reverse=True)
                    if way in ("cands_subs", "subs_cands") and rng.random() < 0.5:
                        record.clear_protoclusters()
                    add_objects(record, [objs[i] for i in keep])
                    record.clear_regions()
                    record.create_regions()
                else:
                    s = rng.randrange(0, n - 1)
                    extra = (s, min(n, s + rng.choice([1, 5, 30])))
                    obj = make_ring_area("sub", extra[0], extra[1], n)
                    record.add_subregion(obj)
                    objs.append(obj)
                    areas = areas + [extra]
                    kinds = kinds + ["sub"]
                    keep.append(len(areas) - 1)
                    record.clear_regions()
                    record.create_regions()
            except Exception as exc:  # pylint: disable=broad-except
                error = exc
            cur_areas = [areas[i] for i in keep]
            cur_kinds = [kinds[i] for i in keep]
            cur_objs = [objs[i] for i in keep]
            flat2 = [PROP, 3, n, 1 if circular else 0, len(cur_areas)]
            for obj, kind in zip(cur_objs, cur_kinds):
                flat2 += [1 if kind == "cand" else 0] + enc_loc(obj.location)
            if error is not None:
                note(n, circular, cur_areas, cur_kinds, flat2, [1, err_code(error)], None, step)
                continue
            if not cur_areas:
                if record.get_regions():
                    bad = "regions remain although every area was cleared"
            else:
                observed2 = observe_ring(record, {id(o): i for i, o in enumerate(cur_objs)})
                note(n, circular, cur_areas, cur_kinds, flat2, enc_regions(observed2), observed2, step)
            bad = bad or oracle(record, objs)
        if bad:
            chk.violation("counterexample", f"record state after {step if step != 'none' else 'create'}: {bad}",
                          {"theorem_or_correspondence": "C06_numbering_inv / C06_no_stale_parents (implementation-side oracle)",
                           "input": {"length": n, "circular": circular, "areas_in_supply_order": areas, "kinds": kinds,
                                     "genes": genes, "history": ["add areas", "create_regions", step],
                                     "areas_added_again_in_this_order": [areas[i] for i in keep] if step == "add_again" else None},
                           "failure": bad})
        elif fixed_late is not None or rng.random() < 0.5:
            late_genes(chk, rng, record, n, circular, cases, impl_outs,
                       {"areas_in_supply_order": areas, "kinds": kinds, "genes_before": genes,
                        "history": ["add areas", "create_regions", step, "add_cds_feature"]}, fixed=fixed_late)
            bad = oracle(record, objs)
            if bad:
                chk.violation("counterexample", f"record state after genes were added to a record with regions: {bad}",
                              {"theorem_or_correspondence": "C06_no_stale_parents (implementation-side oracle)",
                               "input": {"length": n, "circular": circular, "areas_in_supply_order": areas, "kinds": kinds,
                                         "genes": genes, "history": ["add areas", "create_regions", step, "add_cds_feature"]},
                               "failure": bad})
    return pending



def run_rings_exhaustive(chk, cases, impl_outs, n=6):
    """ thorough tier: every multiset of 1-3 sub-regions on a circular record of 6 bases (all arcs, origin-spanning
        ones included; [0, 6) never together with an origin-spanning arc), in one supply order and its reverse """
    import itertools
    arcs = [(s, e) for s in range(n) for e in range(s + 1, n + 1)] + [(s, e) for s in range(2, n) for e in range(1, s + 1)]
    pending = []
    for k in (1, 2, 3):
        for combo in itertools.combinations_with_replacement(arcs, k):
            if (0, n) in combo and any(s >= e for s, e in combo):
                continue
            for areas in {combo, tuple(reversed(combo))}:
                areas = list(areas)
                kinds = ["sub"] * len(areas)
                flat, out, observed, _record, _objs = ring_case(n, True, areas, kinds)
                verdict = ring_spec(areas, n, None if observed is None else [(p, c, s) for p, c, s, _ in observed])
                cases.append(flat)
                impl_outs.append(out)
                pending.append({"index": len(cases) - 1, "n": n, "circular": True, "areas": areas, "kinds": kinds,
                                "verdict": verdict, "observed": observed, "step": "exhaustive", "impl": out})
                chk.count("ring_exhaustive_n6")
                chk.note_case(flat, len(areas) >= 2)
    return pending


def long_arc_components(areas, n):
    """ the recorded class origin_spanning_long_arc, decided on the input alone: the connected components (of 'share
        a base') that hold an origin-spanning area, do not cover the whole ring, and whose members - split the way
        connect_locations splits them: an origin-spanning area into its part before and its part after the origin, any
        other area to the side of the origin it lies nearer to - have hulls on the two sides that overlap;
        connect_locations then answers with the hull of both, which is the whole record """
    found = []
    for comp in ring_components(areas, n):
        if not any(areas[i][0] >= areas[i][1] for i in comp):
            continue
        if merged([x for m in comp for x in ring_parts(areas[m], n)]) == [[0, n]]:
            continue
        pre, post = [], []
        for i in comp:
            s, e = areas[i]
            if s >= e:
                pre.append(s)
                post.append(e)
            elif s < n - e:
                post.append(e)
            else:
                pre.append(s)
        if min(pre) < max(post):
            found.append(comp)
    return found


def ring_class(item):
    """ which recorded class a failing outcome belongs to (None: none).  After the repair of origin_spanning_area the
        only recorded class is origin_spanning_long_arc: the layout has a long-arc component (long_arc_components) and
        the outcome has the recorded shape - a region that is the whole record, or ValueError because that whole-record
        location overlaps another region """
    n = item["n"]
    if not any(s >= e for s, e in item["areas"]):
        return None
    if not long_arc_components(item["areas"], n):
        return None
    if item["observed"] is None:
        return "origin_spanning_long_arc" if item["impl"] == [1, 1] else None
    if any(parts == [(0, n)] for parts, _, _, _ in item["observed"]):
        return "origin_spanning_long_arc"
    return None


def decide_rings(chk, pending, model_outs):
    known = known_classes()
    for item in pending:
        if item["verdict"] is None:
            continue
        index = item["index"]
        cls = ring_class(item)
        if cls is not None and cls in known and model_outs[index] == item["impl"]:
            chk.count("known_class_" + cls)
            continue
        chk.violation("counterexample", "create_regions: " + item["verdict"],
                      {"theorem_or_correspondence": "C06_components_ring (independent oracle on the implementation's outcome)",
                       "input": {"length": item["n"], "circular": item["circular"], "areas_in_supply_order": item["areas"],
                                 "kinds": item["kinds"], "step": item["step"]},
                       "implementation": "raised" if item["observed"] is None else [(p, c, s) for p, c, s, _ in item["observed"]],
                       "expected_components": ring_components(item["areas"], item["n"]),
                       "model": model_outs[index], "class_of_failure": cls})



def gen_add_region_history(rng):
    n = rng.choice([100, 1000])
    circular = rng.random() < 0.6
    news = []
    if circular and rng.random() < 0.5:
        news.append((rng.randrange(n // 2, n), rng.randrange(1, n // 3)))
    for _ in range(rng.choice([2, 3, 4, 6, 8])):
        if circular and rng.random() < 0.15:
            s = rng.randrange(n // 2, n)
            news.append((s, rng.randrange(1, min(s, n // 3) + 1)))
            continue
        if news and rng.random() < 0.5:
            a = rng.choice([x for pair in news for x in pair]) + rng.choice([-10, -1, 0, 1, 10])
            s = max(0, min(n - 1, a - rng.choice([0, 1, 5, 20])))
            e = max(s + 1, min(n, a + rng.choice([0, 1, 5, 20])))
        else:
            s = rng.randrange(0, n - 1)
            e = min(n, s + rng.choice([1, 5, 20, n // 5]))
        news.append((s, e))
    if circular and rng.random() < 0.5:
        rng.shuffle(news)
    return n, circular, news


def run_add_region(chk, rng, total, cases, impl_outs):
    """ fn 4: histories of Record.add_region(Region(subregions=[x])) on linear and circular records; every call is
        either accepted or refused with ValueError.  Independent oracle: refused iff the new region shares a base
        with a region of the record; the list stays in location order and numbered 1..n. """
    from antismash.common.secmet.features import Region
    pending = []
    corpus = list(ADD_REGION_CORPUS)
    for _ in range(total):
        if corpus:
            n, news = corpus.pop(0)
            news, circular = list(news), True
            chk.count("add_region_corpus")
        else:
            n, circular, news = gen_add_region_history(rng)
        record = build_record(n, circular, [])
        flat = [PROP, 4, n, len(news)]
        flags, steps, index_of = [], [], {}
        for i, (s, e) in enumerate(news):
            sub = make_ring_area("sub", s, e, n)
            index_of[id(sub)] = i
            flat += [0] + enc_loc(sub.location)
            new = ring_parts((s, e), n)
            expected_refusal = any(parts_share_base(new, loc_parts(r.location)) for r in record.get_regions())
            try:
                record.add_region(Region(subregions=[sub]))
                flags.append(0)
            except Exception as exc:  # pylint: disable=broad-except
                flags.append(err_code(exc))
            failure = None
            if (flags[-1] != 0) != expected_refusal or flags[-1] not in (0, 1):
                failure = ("a region sharing bases with a region of the record was accepted" if expected_refusal
                           else "a region sharing no base with any region of the record was refused")
            else:
                regions = record.get_regions()
                for pos, region in enumerate(regions):
                    if region.get_region_number() != pos + 1 or record.get_region(pos + 1) is not region:
                        failure = "region numbers do not identify the regions"
                if any(not sort_key(a.location) <= sort_key(b.location) for a, b in zip(regions, regions[1:])):
                    failure = "regions are out of location order"
            steps.append({"new": (s, e), "accepted": flags[-1] == 0, "failure": failure})
        observed = observe_ring(record, index_of)
        out = [len(flags)] + flags + enc_regions(observed)[1:]
        cases.append(flat)
        impl_outs.append(out)
        pending.append({"index": len(cases) - 1, "n": n, "circular": circular, "news": news, "steps": steps, "impl": out})
        chk.count("add_region_history")
        chk.count("add_region_refusals", sum(1 for f in flags if f))
        chk.note_case(flat, any(flags), {"step": "add_region history", "length": n, "circular": circular, "new_regions": news,
                                        "implementation": out} if rng.random() < 0.002 else None)
    return pending


def decide_add_region(chk, pending, model_outs):
    """ no class of add_region failures is recorded (C06-K3 add_region_scan_stops_early is repaired): every failure of
        the independent oracle is a violation """
    for item in pending:
        failing = [st for st in item["steps"] if st["failure"]]
        if not failing:
            continue
        chk.violation("counterexample", "add_region: " + failing[0]["failure"],
                      {"theorem_or_correspondence": "C06_add_region_rejects_overlap_ring (independent oracle on the implementation's outcome)",
                       "input": {"length": item["n"], "circular": item["circular"], "add_region_calls": item["news"]},
                       "steps": item["steps"], "implementation": item["impl"], "model": model_outs[item["index"]]})



_LOGGED = []


def logged_record(n, circular, genes):
    """ a record of a harness subclass of the test helpers' DummyRecord that remembers what every create_regions call
        grouped (strip_antismash_annotations re-creates the regions up to three times on its way) """
    if not _LOGGED:
        from antismash.common.secmet.test.helpers import DummyRecord

        class LoggedRecord(DummyRecord):
            """ DummyRecord + a log of create_regions outcomes """
            def create_regions(self, *args, **kwargs):
                count = super().create_regions(*args, **kwargs)
                log = self.__dict__.get("create_log")
                if log is not None:
                    log.append(self.__dict__["snapshot"]())
                return count
        _LOGGED.append(LoggedRecord)
    from antismash.common.secmet.test.helpers import DummyCDS
    record = _LOGGED[0](seq="A" * n, circular=circular)
    for i, (s, e) in enumerate(genes):
        record.add_cds_feature(DummyCDS(s, e, locus_tag=f"g{i}"))
    return record


def form_candidates(record):
    """ Record.create_candidate_clusters with the CandidateCluster constructor of the formation module and the
        formation function observed: -> (every candidate constructed, in construction order; the returned list) """
    from antismash.common.secmet.features.candidate_cluster import formation
    from antismash.common.secmet import record as record_module
    built, returned = [], []
    constructor, former = formation.CandidateCluster, record_module.create_candidates_from_protoclusters

    def construct(*args, **kwargs):
        built.append(constructor(*args, **kwargs))
        return built[-1]

    def form(*args, **kwargs):
        returned.extend(former(*args, **kwargs))
        return list(returned)
    formation.CandidateCluster, record_module.create_candidates_from_protoclusters = construct, form
    try:
        record.create_candidate_clusters()
    finally:
        formation.CandidateCluster, record_module.create_candidates_from_protoclusters = constructor, former
    return built, returned


def run_links(chk, rng, total, cases, impl_outs):
    """ fn 5: histories of add_protocluster / add_candidate_cluster / add_subregion / create_regions / clear_* on a real
        Record; afterwards every protocluster's parent, every area's parent and every gene's region link is compared
        with the link model (which is told what create_regions grouped, see Model.v) """
    from antismash.common.secmet.test.helpers import DummyProtocluster, DummyCandidateCluster
    for _ in range(total):
        n = 400
        circular = rng.random() < 0.5
        genes, pos = [], rng.randrange(0, 20)
        while pos + 9 <= n and len(genes) < 12:
            genes.append((pos, pos + rng.choice([3, 6, 9])))
            pos = genes[-1][1] + rng.randrange(0, 60)
        record = logged_record(n, circular, genes)
        gene_id = {cds.get_name(): i for i, cds in enumerate(record.get_cds_features())}
        ids, protos, areas, ops = {}, [], [], []
        forming = rng.random() < 0.5     # histories with create_candidate_clusters: genes define products, so hybrids form
        if forming:
            from antismash.common.secmet.qualifiers.gene_functions import GeneFunction
            for cds in record.get_cds_features():
                for prod in range(4):
                    if rng.random() < 0.5:
                        cds.gene_functions.add(GeneFunction.CORE, "tool", "desc", f"p{prod}")

        def grouping():
            out = [len(record.get_regions())]
            for region in record.get_regions():
                members = [ids[id(a)] for a in list(region.candidate_clusters) + list(region.subregions)]
                cds = [gene_id[c.get_name()] for c in region.cds_children]
                out += [len(members)] + members + [len(cds)] + cds
            return out

        record.snapshot = grouping
        record.create_log = []

        def random_span():
            if circular and rng.random() < 0.15:
                s = rng.randrange(n // 2, n)
                return s, rng.randrange(1, n // 4)
            s = rng.randrange(0, n - 1)
            return s, min(n, s + rng.choice([1, 10, 40, 90]))
        try:
            for _ in range(rng.choice([2, 4, 6, 9, 12, 16])):
                kind = rng.choice(["sub", "sub", "cand", "cand", "create", "create", "clear_regions", "clear_cands", "clear_subs",
                                   "clear_protos", "strip", "again", "again", "again"]
                                  + (["protos"] * 8 + ["form"] * 12 + ["clear_cands"] * 4 if forming else []))
                if kind == "protos":
                    # two to four protoclusters close to each other: cores inside independent extents, products of the genes
                    base = rng.randrange(0, n - 120)
                    anchors = [g for g in genes if 61 <= g[0] and g[0] + 40 <= n]
                    if anchors and rng.random() < 0.35:
                        # a hybrid pair ending together, a third protocluster interleaved with both: the neighbouring
                        # group repeats the interleaved one (built and dropped as redundant)
                        gs, ge = rng.choice(anchors)
                        cds = next(c for c in record.get_cds_features() if int(c.location.start) == gs)
                        pa, pb, pc = rng.sample(range(4), 3)
                        for prod in (pa, pb):
                            if f"p{prod}" not in [f.product for f in cds.gene_functions.get_by_function(GeneFunction.CORE)]:
                                cds.gene_functions.add(GeneFunction.CORE, "tool", "desc", f"p{prod}")
                        b = gs - 61
                        layout = [(pa, b, ge + 3, gs - 1, ge + 3), (pb, b + rng.choice([0, 20]), ge + 3, gs - 21, ge + 3),
                                  (pc, b + 10, min(n, ge + 33), b + 15, gs - 6)]
                        for prod, s, e, core_s, core_e in layout:
                            child = DummyProtocluster(start=s, end=e, core_start=core_s, core_end=core_e, product=f"p{prod}")
                            ids[id(child)] = 100 + len(protos)
                            protos.append(child)
                            record.add_protocluster(child)
                            ops.append([0, ids[id(child)]])
                        chk.count("link_form_pattern")
                        continue
                    for prod in rng.sample(range(4), rng.choice([2, 3, 3, 4])):
                        # extents that often coincide in one or both ends (redundant and promoted candidates)
                        s = base + rng.choice([0, 0, 10, 20, rng.randrange(0, 40)])
                        e = min(n, base + rng.choice([60, 60, 80, 100, rng.randrange(50, 120)]))
                        core_s = rng.randrange(s, e - 4)
                        core_e = rng.randrange(core_s + 1, e + 1)
                        child = DummyProtocluster(start=s, end=e, core_start=core_s, core_end=core_e, product=f"p{prod}")
                        ids[id(child)] = 100 + len(protos)
                        protos.append(child)
                        record.add_protocluster(child)
                        ops.append([0, ids[id(child)]])
                    continue
                if kind == "form":
                    if record.get_candidate_clusters() or not record.get_protoclusters():
                        continue
                    built, returned = form_candidates(record)
                    for obj in built:
                        ids[id(obj)] = 200 + len(areas)
                        areas.append(obj)
                    enc = lambda cs: [len(cs)] + [x for c in cs for x in [ids[id(c)], len(c.protoclusters)] + [ids[id(q)] for q in c.protoclusters]]
                    ops.append([10] + enc(built) + enc(returned))
                    chk.count("link_form_dropped" if len(built) > len(returned) else "link_form_all_kept")
                    continue
                if kind == "again":
                    # a feature that a clear removed is handed to the record again (the same object)
                    absent = [a for a in areas if not any(a is x for x in record.get_subregions())
                              and not any(a is x for x in record.get_candidate_clusters())]
                    absent += [p for p in protos if not any(p is x for x in record.get_protoclusters())]
                    if not absent:
                        continue
                    obj = rng.choice(absent)
                    if any(obj is p for p in protos):
                        record.add_protocluster(obj)
                        ops.append([0, ids[id(obj)]])
                    elif hasattr(obj, "protoclusters"):
                        record.add_candidate_cluster(obj)
                        ops.append([8, ids[id(obj)], len(obj.protoclusters)] + [ids[id(c)] for c in obj.protoclusters])
                    else:
                        record.add_subregion(obj)
                        ops.append([2, ids[id(obj)]])
                elif kind == "strip":
                    del record.create_log[:]
                    record.strip_antismash_annotations()
                    ops.append([9, len(record.create_log)] + [x for g in record.create_log for x in g])
                elif kind == "sub":
                    s, e = random_span()
                    obj = make_ring_area("sub", s, e, n)
                    ids[id(obj)] = 300 + len(areas)
                    areas.append(obj)
                    record.add_subregion(obj)
                    ops.append([2, ids[id(obj)]])
                elif kind == "cand":
                    s, e = random_span()
                    children = [DummyProtocluster(start=s, end=e, core_start=s, core_end=e, record_length=n)]
                    if s < e and e - s > 4 and rng.random() < 0.4:
                        mid = rng.randrange(s + 1, e)
                        children = [DummyProtocluster(start=s, end=mid + 1, core_start=s, core_end=mid + 1),
                                    DummyProtocluster(start=mid, end=e, core_start=mid, core_end=e)]
                    for child in children:
                        ids[id(child)] = 100 + len(protos)
                        protos.append(child)
                        record.add_protocluster(child)
                        ops.append([0, ids[id(child)]])
                    obj = DummyCandidateCluster(children, circular_wrap_point=n) if s > e else DummyCandidateCluster(children)
                    ids[id(obj)] = 200 + len(areas)
                    areas.append(obj)
                    record.add_candidate_cluster(obj)
                    ops.append([1, ids[id(obj)], len(children)] + [ids[id(c)] for c in children])
                elif kind == "create":
                    if record.get_regions():
                        continue
                    record.create_regions()
                    ops.append([3] + grouping())
                elif kind == "clear_regions":
                    record.clear_regions()
                    ops.append([4])
                elif kind == "clear_cands":
                    record.clear_candidate_clusters()
                    ops.append([5] + grouping())
                elif kind == "clear_subs":
                    record.clear_subregions()
                    ops.append([6] + grouping())
                else:
                    record.clear_protoclusters()
                    ops.append([7] + grouping())
        except Exception as exc:  # pylint: disable=broad-except
            chk.count("link_history_discarded_" + type(exc).__name__)     # a create failed half way (recorded classes)
            continue
        regions = record.get_regions()
        cands = record.get_candidate_clusters()

        def region_name(link):
            if link is None:
                return -1
            if not any(link is r for r in regions):
                return -2
            return min(ids[id(a)] for a in list(link.candidate_clusters) + list(link.subregions))

        out = []
        for proto in protos:
            out.append(-1 if proto.parent is None else ids[id(proto.parent)] if any(proto.parent is c for c in cands) else -2)
        out += [region_name(area.parent) for area in areas]
        out += [region_name(cds.region) for cds in record.get_cds_features()]
        flat = [PROP, 5, len(ops)] + [x for op in ops for x in op]
        flat += [len(protos)] + [ids[id(x)] for x in protos] + [len(areas)] + [ids[id(x)] for x in areas]
        flat += [len(genes)] + list(range(len(genes)))
        if -2 in out:
            chk.violation("counterexample", "a parent / region link points to a feature that is no longer in the record",
                          {"theorem_or_correspondence": "C06_no_stale_parents / Record.clear_*", "input": {"length": n, "circular": circular, "ops": ops},
                           "links": out, "flat": flat})
        cases.append(flat)
        impl_outs.append(out)
        chk.count("link_history")
        chk.note_case(flat, any(op[0] >= 4 for op in ops) and any(x >= 0 for x in out),
                      {"step": "link history", "ops": ops, "implementation": out} if rng.random() < 0.003 else None)


def known_findings(chk):
    """ recorded, unrepaired defects: printed only while the stored witness still reproduces (the witnesses of the
        repaired F12 origin_spanning_area, C06-K3 add_region_scan_stops_early and C06-K4 late_gene_origin_region_unlinked
        are in the regression corpora RING_CORPUS, ADD_REGION_CORPUS, LATE_GENE_CORPUS) """
    from antismash.common.secmet.test.helpers import DummyRecord, DummySubRegion
    for finding in common.load_known_findings("C06"):
        if finding["status"] != "known":
            continue
        w = finding["witness"]
        n = w["length"]
        record = DummyRecord(seq="A" * n, circular=w["circular"])
        try:
            if finding["class"] == "origin_spanning_long_arc":
                for s, e in w["subregions"]:
                    record.add_subregion(DummySubRegion(s, e, record_length=n))
                record.create_regions()
                if any(loc_parts(r.location) == [(0, n)] for r in record.get_regions()):
                    chk.known(finding["what_fails"])
        except Exception:  # pylint: disable=broad-except
            pass          # the witness no longer behaves as recorded: nothing is printed, nothing is suppressed by this


def replay(chk, path):
    import json
    doc = json.load(open(path))
    if "flat" in doc:
        print("model:", common.run_driver([doc["flat"]])[0], "recorded implementation:", doc.get("implementation"))
        return 0
    inp = doc.get("input") or {}
    if "late_gene" in inp:
        from antismash.common.secmet.test.helpers import DummyCDS
        from antismash.common.secmet.locations import CompoundLocation, FeatureLocation
        ctx = inp["history"]
        areas = [tuple(a) for a in ctx["areas_in_supply_order"]]
        _flat, _out, _observed, record, _objs = ring_case(inp["length"], inp.get("circular", True), areas, ctx["kinds"],
                                                          [tuple(g) for g in ctx.get("genes_before", [])])
        gene = [tuple(g) for g in inp["late_gene"]]
        location = (FeatureLocation(gene[0][0], gene[0][1], 1) if len(gene) == 1
                    else CompoundLocation([FeatureLocation(s, e, 1) for s, e in gene]))
        cds = DummyCDS(location=location, locus_tag="late")
        record.add_cds_feature(cds)
        print("input:", inp)
        print("regions now:", [loc_parts(r.location) for r in record.get_regions()], "(the recorded history step",
              ctx["history"][2], "is not repeated)")
        print("cds.region now:", cds.region, "; regions listing the gene:",
              [loc_parts(r.location) for r in record.get_regions() if any(c is cds for c in r.cds_children)])
        print("regions containing the gene:", [loc_parts(r.location) for r in record.get_regions()
                                               if gene_in_region(gene, loc_parts(r.location))])
        return 0
    if "areas_in_supply_order" in inp and "kinds" in inp and isinstance(inp["kinds"], list):
        areas = [tuple(a) for a in inp["areas_in_supply_order"]]
        flat, out, observed, record, objs = ring_case(inp["length"], inp.get("circular", True), areas, inp["kinds"],
                                                      [tuple(g) for g in inp.get("genes", [])])
        print("input:", inp)
        print("implementation now:", "raised" if observed is None else [(p, c, s) for p, c, s, _ in observed], out)
        print("model:", common.run_driver([flat])[0])
        print("oracle:", ring_spec(areas, inp["length"], None if observed is None else [(p, c, s) for p, c, s, _ in observed]),
              "expected components:", ring_components(areas, inp["length"]))
        step = (inp.get("history") or [None, None, None])[2] if isinstance(inp.get("history"), list) else None
        calls = {"recreate": ["clear_regions", "create_regions"], "clear_subregions": ["clear_subregions"],
                 "clear_candidate_clusters": ["clear_candidate_clusters"], "clear_protoclusters": ["clear_protoclusters"],
                 "strip": ["strip_antismash_annotations"], "add_again": ["strip_antismash_annotations"]}
        if observed is not None and step in calls:
            for call in calls[step]:
                getattr(record, call)()
            if step == "add_again" and inp.get("areas_added_again_in_this_order"):
                pool = list(zip(areas, objs))
                order = []
                for a in inp["areas_added_again_in_this_order"]:
                    k = [i for i, (b, _) in enumerate(pool) if tuple(a) == b][0]
                    order.append(pool.pop(k)[1])
                add_objects(record, order)
                record.create_regions()
            print(f"after {calls[step]}" + (" + the same objects added again + create_regions" if step == "add_again" else "") + ":",
                  "oracle on the record state:", oracle(record, objs),
                  "; parents:", [None if o.parent is None else str(o.parent.location) for o in objs],
                  "; candidate numbers:", [record.get_candidate_cluster_number(c) for c in record.get_candidate_clusters()])
        return 0
    print(inp, doc.get("failure") or doc.get("steps"))
    return 0
