"""C18: correspondence for antismash.common.subprocessing.base.parallel_function / parallel_execute.

The real functions are run with real multiprocessing pools (worker counts 1..16, batch sizes around the
worker count and around the chunking boundary 4*k, argument dependent sleeps that reverse/shuffle the
completion order, raising tasks at every position, timeouts shorter than the slowest task, dying worker
processes, secmet Records crossing the process boundary).  Each task travels to the Coq model as its
SEQUENTIAL outcome (computed in-process: digest of the returned value, or the exception kind) together with its
DURATION CLASS (does it run longer than the timeout?); the model
(coq/C18/Model.v) evaluates parallel_function over its pool state machine under a schedule, which is an
argument: the schedule planned from the sleeps, the schedule reconstructed from the start/end time stamps
the workers left in shared memory, and random schedules (the proved theorems say the outcome does not
depend on it, the run checks it)."""
import concurrent.futures
import functools
import hashlib
import heapq
import json
import multiprocessing
import os
import random
import shutil
import sys
import tempfile
import time

import common
from common import err_code

PROP = 18
FN_PF = 1        # parallel_function
FN_PE = 2        # parallel_execute
FN_PP = 3        # record_processing.pre_process_sequences (both uses of parallel_function)
FN_IDS = 4       # the identifier block of pre_process_sequences (duplicate pass, fix_record_name_id loop, sanitise batch)
SPEC_OFFSET = 10

E_RUNTIME = common.ERR["RuntimeError"]
E_HANG = common.ERR["Timeout"]          # 11: never returned (cut by the harness alarm) = model's E_Fuel

CRASH = 100      # fault code: the worker process dies (os._exit) while running the task
FAULTS = {1: ValueError, 2: KeyError, 3: RuntimeError, 4: AssertionError, 5: IndexError, 6: TypeError,
          7: AttributeError}


class HarnessOnlyError(Exception):
    """ an exception class of the harness: maps to error kind 99 ("other") """


FAULTS[8] = HarnessOnlyError
# a StopIteration escaping a call (a bare next() on an empty iterator): inside a pool worker it would end the chunk's
# list(map(...)) silently; parallel_function reports it as RuntimeError in every mode (repair of finding C18-K3)
FAULTS[9] = StopIteration

KNOWN_HANG = "C18-K1"   # id in known_findings.json: a dying worker process without timeout hangs parallel_function
# C18-K2 (class cpus1_shortcut_ignores_timeout: the cpus == 1 shortcut of parallel_function ignored the timeout) is
# REPAIRED (`if cpus == 1 and timeout is None`): nothing is suppressed for it, its recorded witness is the regression
# corpus below (run first, on every run and for every seed), and the model answers finding class 0 for every input
K2_CLASS = "cpus1_shortcut_ignores_timeout"
FN_TIMELY = 7           # model: does the schedule agree with the duration classes?
SLOW_SLEEP = 2.5        # seconds a "slow" task of the one-worker cases really sleeps (against a timeout of 1 s)

# regression corpus: the recorded witness of the repaired finding C18-K2 (known_findings.json, status fixed) -
# parallel_function(work, [[0], [1], [2]], cpus=1, timeout=1) where the second call sleeps 2.5 s and no call raises,
# the worker count given directly and through the configuration (--cpus 1 with cpus None / 0), as a list and as a
# generator.  Before the repair the full list came back after 2.5 s; now RuntimeError after 1 s, as for 2 workers
# (third entry: the same batch with two workers, the outcome the one-worker runs must share).
REGRESSION_CORPUS = [
    {"kind": "work", "cfg": 2, "cpus": 1, "timeout": 1, "generator": False, "class": "timeout-1worker",
     "tasks": [[0, 0.0, 0], [1, SLOW_SLEEP, 0], [2, 0.0, 0]], "regression_of": K2_CLASS},
    {"kind": "work", "cfg": 1, "cpus": None, "timeout": 1, "generator": True, "class": "timeout-1worker",
     "tasks": [[0, 0.0, 0], [1, SLOW_SLEEP, 0], [2, 0.0, 0]], "regression_of": K2_CLASS},
    {"kind": "work", "cfg": 1, "cpus": 2, "timeout": 1, "generator": False, "class": "timeout",
     "tasks": [[0, 0.0, 0], [1, SLOW_SLEEP, 0], [2, 0.0, 0]], "regression_of": K2_CLASS},
]

# ---------------------------------------------------------------- worker functions (module level: picklable)

_TRACE = None          # shared memory inherited by the forked pool workers: start, end, pid per task
_INPROC_PID = None     # pid of the process that calls parallel_function (the in-process reference runs there)


def _mark(i, slot, value):
    if _TRACE is not None and 0 <= i and 3 * i + 2 < len(_TRACE):
        _TRACE[3 * i + slot] = value


def result_value(i, x):
    """ results of different shapes and sizes, to exercise pickling across the process boundary """
    shape = x % 7
    if shape == 0:
        return (i, x * x)
    if shape == 1:
        return "r" * (x % 50) + str(i)
    if shape == 2:
        return {"index": i, "values": [x, x + 1, None], "nested": {"t": (i, "a")}}
    if shape == 3:
        return bytes([x % 251]) * (x * 700)        # up to some 100 kB through the result pipe
    if shape == 4:
        return None
    if shape == 5:
        return [frozenset([i, x, -1]), x / 7, True]
    return -x - i


_SYNC_DIR = None       # directory of the "go" file of the running case (inherited by the forked pool workers)
SYNC_WAIT = 1          # the task blocks until the go file exists (or SYNC_CAP seconds have passed)
SYNC_SIGNAL = 2        # the task creates the go file when it starts
SYNC_CAP = 30.0


def _go_path():
    return os.path.join(_SYNC_DIR, "go") if _SYNC_DIR else None


def _signal_go(path=None):
    path = path or _go_path()
    if path:
        with open(path, "w"):
            pass


def _wait_go():
    path = _go_path()
    end = time.monotonic() + SYNC_CAP
    while path and not os.path.exists(path) and time.monotonic() < end:
        time.sleep(0.01)


def work(i, x, delay, fault, sync=0):
    """ the generic task: sleeps / waits for or gives the go signal, then returns a value, raises, or kills its
        own (worker) process.  Orderings the expected outcome depends on are enforced through the go file
        (an event), never through the length of a sleep """
    _mark(i, 0, time.monotonic())
    _mark(i, 2, float(os.getpid()))
    try:
        if sync == SYNC_SIGNAL:
            _signal_go()
        if delay:
            time.sleep(delay)
        if sync == SYNC_WAIT:
            _wait_go()
        if fault == CRASH:
            if os.getpid() != _INPROC_PID:
                os._exit(3)
        elif fault:
            raise FAULTS[fault](f"task {i}")
        return result_value(i, x)
    finally:
        _mark(i, 1, time.monotonic())


def identity(obj):
    return obj


def stub_genefinder(record, options):
    """ stands in for prodigal: deterministic genes derived from the record itself """
    from antismash.common.secmet.test.helpers import DummyCDS
    length = len(record.seq)
    pos = 3
    num = 0
    while pos + 30 <= length and num < 4:
        strand = 1 if num % 2 == 0 else -1
        record.add_cds_feature(DummyCDS(pos, pos + 30, strand=strand, locus_tag=f"gf_{record.id}_{num}"))
        pos += 45
        num += 1


# ---------------------------------------------------------------- canonical forms

def canon(obj):
    if isinstance(obj, (set, frozenset)):
        return ["set"] + sorted(repr(canon(o)) for o in obj)
    if isinstance(obj, dict):
        return ["dict"] + sorted((repr(canon(k)), canon(v)) for k, v in obj.items())
    if isinstance(obj, (list, tuple)):
        return [type(obj).__name__] + [canon(o) for o in obj]
    if isinstance(obj, float):
        return ["float", obj.hex()]
    return [type(obj).__name__, repr(obj)]


def digest(obj):
    return int.from_bytes(hashlib.md5(repr(obj).encode()).digest()[:6], "big")


def dump_record(rec):
    """ canonical content of a secmet Record (what the rest of antiSMASH can observe of it) """
    from antismash.common.secmet import Record
    if not isinstance(rec, Record):
        return ["not-a-record", repr(type(rec))]
    out = ["record", rec.id, rec.name, rec.description, str(rec.seq), rec.skip, rec.record_index, rec.original_id,
           sorted((k, repr(v)) for k, v in rec.annotations.items()), rec.is_circular(), rec.transl_table]
    feats = []
    for feature in rec.all_features:
        bio = feature.to_biopython()
        feats.append([feature.type, str(feature.location),
                      [[b.type, str(b.location), sorted((k, list(v) if isinstance(v, list) else v)
                                                        for k, v in b.qualifiers.items())] for b in bio]])
    out.append(feats)
    out.append([cds.get_name() for cds in rec.get_cds_features()])
    for group in (rec.get_protoclusters(), rec.get_candidate_clusters(), rec.get_regions()):
        items = []
        for coll in group:
            children = coll.cds_children
            entry = [str(coll.location), type(children).__name__, [c.get_name() for c in children]]
            for section in ("pre_origin", "cross_origin", "post_origin"):
                if hasattr(children, section):
                    entry.append([c.get_name() for c in getattr(children, section)])
            entry.append(sorted(c.get_name() for c in getattr(coll, "definition_cdses", [])))
            items.append(entry)
        out.append(items)
    # CDS -> region back links must survive
    out.append([[cds.get_name(), str(cds.region.location) if cds.region else None] for cds in rec.get_cds_features()])
    return out


def build_record(spec):
    """ a wrapping protocluster that the record refuses is dropped (deterministically, for both copies) """
    try:
        return _build_record(spec)
    except Exception:  # pylint: disable=broad-except
        return _build_record(dict(spec, protos=[]))


def _build_record(spec):
    """ spec: dict(id, seq, circular, cdses=[(start, end, strand)], protos=[(start, end, core_start, core_end)]) """
    from antismash.common.secmet.test.helpers import DummyRecord, DummyCDS, DummyProtocluster
    rec = DummyRecord(seq=spec["seq"], record_id=spec["id"], circular=spec["circular"])
    rec.record_index = spec["index"]
    for num, (start, end, strand) in enumerate(spec["cdses"]):
        rec.add_cds_feature(DummyCDS(start, end, strand=strand, locus_tag=f"{spec['id']}_c{num}"))
    for start, end, core_start, core_end in spec["protos"]:
        rec.add_protocluster(DummyProtocluster(start, end, core_start=core_start, core_end=core_end,
                                               record_length=len(spec["seq"])))
    if spec["protos"]:
        rec.create_candidate_clusters()
        rec.create_regions()
    if spec.get("touch"):
        # materialise the cached (sectioned) CDS tuples, so that they - and not only the dirty caches that would
        # rebuild them - cross the process boundary (_SectionedCDSTuple.__reduce__)
        for group in (rec.get_protoclusters(), rec.get_candidate_clusters(), rec.get_regions()):
            for coll in group:
                len(coll.cds_children)
        rec.get_cds_features()
    return rec


# ---------------------------------------------------------------- running one case on the implementation

def _config():
    from antismash.config import build_config, get_config
    try:
        if get_config().get("cpus"):
            return
    except Exception:  # pylint: disable=broad-except
        pass
    build_config([], isolated=True)


def _outcome(fn):
    try:
        return [0, fn()]
    except StopIteration:
        return [1, E_RUNTIME]           # the kind parallel_function reports for it, see FAULTS[9]
    except Exception as exc:  # pylint: disable=broad-except
        return [1, err_code(exc)]


def run_impl(spec):
    """ executed in a helper process: returns the sequential outcomes, the implementation's output and a trace """
    global _TRACE, _INPROC_PID, _SYNC_DIR
    common.setup_repo_path()
    _config()
    from antismash.config import update_config
    from antismash.common.subprocessing import base
    _INPROC_PID = os.getpid()
    update_config({"cpus": spec["cfg"]})
    if spec["kind"] == "preproc":
        return run_preproc(spec)
    if spec["kind"] == "cassis":
        return run_cassis(spec)
    cpus = spec["cpus"]           # None, 0, or an integer
    timeout = spec["timeout"]
    kind = spec["kind"]
    go_file = spec.get("go")      # exec: the file a blocking command polls for
    _SYNC_DIR = None
    if kind == "work":
        tasks = spec["tasks"]
        _TRACE = None
        seq = [_outcome(lambda i=i, t=t: digest(canon(work(i, t[0], 0, t[2])))) for i, t in enumerate(tasks)]
        # a task that waits for the go signal does not sleep: its delay is nominal (used for planning only)
        args = [[i, t[0], 0 if t[3:4] == [SYNC_WAIT] else t[1], t[2], t[3] if len(t) > 3 else 0]
                for i, t in enumerate(tasks)]
        function = work
        to_digest = lambda r: digest(canon(r))
        _TRACE = multiprocessing.RawArray("d", 3 * max(1, len(tasks)))
        if any(len(t) > 3 and t[3] for t in tasks):
            _SYNC_DIR = tempfile.mkdtemp(prefix="c18_sync_")
    elif kind == "record":
        from antismash.common import record_processing
        if spec["fn"] == "identity":
            function = identity
        elif spec["fn"] == "sanitise":
            function = record_processing.sanitise_sequence
        else:
            update_config({"genefinding_tool": "prodigal", "genefinding_gff3": ""})
            function = functools.partial(record_processing.ensure_cds_info, stub_genefinder,
                                         genefinding_tool="prodigal", genefinding_gff3="", taxon="bacteria")
        seq = [_outcome(lambda s=s: digest(dump_record(function(build_record(s))))) for s in spec["records"]]
        args = [[build_record(s)] for s in spec["records"]]
        to_digest = lambda r: digest(dump_record(r))
        _TRACE = None
    elif kind == "exec":
        # parallel_execute: commands are real child processes; the sequential outcome is child_process(command)
        function = None
        if go_file:
            _signal_go(go_file)           # in-process the blocking command returns at once
        seq = [_outcome(lambda c=c: base.child_process(list(c))) for c in spec["commands"]]
        if go_file:
            os.unlink(go_file)
        args = [list(c) for c in spec["commands"]]
        to_digest = lambda r: r
        _TRACE = None
    else:
        raise ValueError(kind)

    def call():
        if kind == "exec":
            return base.parallel_execute(args, cpus=cpus, timeout=timeout, verbose=False)
        batch = (a for a in args) if spec.get("generator") else args
        return base.parallel_function(function, batch, cpus=cpus, timeout=timeout)

    t0 = time.monotonic()
    try:
        results = common.call_with_timeout(call, spec.get("alarm", 120))
        if not isinstance(results, list):
            out = [1, 98]     # not a list at all
        else:
            out = [0, len(results)] + [to_digest(r) for r in results]
    except common.Timeout:
        out = [1, E_HANG]
    except Exception as exc:  # pylint: disable=broad-except
        out = [1, err_code(exc)]
    finally:
        # release whatever still waits (pool workers are terminated by parallel_function, children of
        # parallel_execute are not)
        if go_file:
            _signal_go(go_file)
        if _SYNC_DIR:
            _signal_go()
    t1 = time.monotonic()
    trace = list(_TRACE) if _TRACE is not None else None
    _TRACE = None
    if _SYNC_DIR:
        shutil.rmtree(_SYNC_DIR, ignore_errors=True)
        _SYNC_DIR = None
    return {"seq": seq, "out": out, "trace": trace, "t0": t0, "t1": t1}


# ---------------------------------------------------------------- pre_process_sequences (the real caller)

SKIP_CODES = [("contains no sequence", 1), ("did not match filter", 2), ("smaller than minimum length", 3),
              ("skipping all but largest", 4), ("No genes found", 5), ("preset", 9)]


def skip_code(skip):
    if not skip:
        return 0
    for prefix, code in SKIP_CODES:
        if str(skip).startswith(prefix):
            return code
    return 98


def run_on_record(record, options):  # pylint: disable=unused-argument
    """ the gene finder of the pre-processing runs (this module is handed over as `genefinding`): deterministic
        genes derived from the record's id and (sanitised) sequence; ids ending in gf0/gfv/gfk find nothing /
        raise ValueError / raise KeyError """
    from antismash.common.secmet.test.helpers import DummyCDS
    if record.id.endswith("gf0"):
        return
    if record.id.endswith("gfv"):
        raise ValueError(f"gene finding failed for {record.id}")
    if record.id.endswith("gfk"):
        raise KeyError(record.id)
    length = len(record.seq)
    pos, num = 3, 0
    while pos + 30 <= length and num < 3:
        record.add_cds_feature(DummyCDS(pos, pos + 30, strand=1 if num % 2 == 0 else -1,
                                        locus_tag=f"gf_{record.id}_{num}"))
        pos += 45
        num += 1


def build_pp_record(spec):
    """ a real secmet Record: sequence, id/name/description, annotations, CDS features, a gene and a generic
        feature, optionally a skip flag set by an earlier stage """
    from Bio.Seq import Seq
    from antismash.common.secmet import Record
    from antismash.common.secmet.locations import FeatureLocation
    from antismash.common.secmet.features import CDSFeature, Feature, Gene
    rec = Record(Seq(spec["seq"]), id=spec["id"], name=spec.get("name", spec["id"]), description=spec["desc"],
                 transl_table=11)
    rec.annotations["molecule_type"] = "DNA"
    rec.annotations["topology"] = "circular" if spec["circular"] else "linear"
    rec.annotations["source"] = "harness C18"
    if spec.get("accession"):
        rec.annotations["accession"] = spec["accession"]
    for num, (start, end, strand) in enumerate(spec["cdses"]):
        name = f"{spec['tag']}_c{num}"
        rec.add_gene(Gene(FeatureLocation(start, end, strand), locus_tag=name))
        rec.add_cds_feature(CDSFeature(FeatureLocation(start, end, strand), translation="M" + "A" * ((end - start) // 3 - 1),
                                       locus_tag=name, product=f"product {num}"))
    for start, end in spec["misc"]:
        feature = Feature(FeatureLocation(start, end, 1), feature_type="misc_feature")
        feature.notes.append(f"note {start}")
        rec.add_feature(feature)
    if spec.get("skip"):
        rec.skip = spec["skip"]
    return rec


def pp_fields(rec):
    """ the record field by field, as the rest of antiSMASH can observe it """
    from antismash.common.secmet import Record
    if not isinstance(rec, Record):
        return {"not-a-record": repr(type(rec))}
    feats = []
    for feature in rec.all_features:
        bio = feature.to_biopython()
        feats.append([feature.type, str(feature.location),
                      [[b.type, str(b.location), sorted((k, list(v) if isinstance(v, list) else v)
                                                        for k, v in b.qualifiers.items())] for b in bio]])
    return {"id": rec.id, "name": rec.name, "description": rec.description, "seq": str(rec.seq), "skip": rec.skip,
            "record_index": rec.record_index, "original_id": rec.original_id,
            "annotations": sorted((k, repr(v)) for k, v in rec.annotations.items()),
            "features": feats, "cds_names": [cds.get_name() for cds in rec.get_cds_features()],
            "circular": rec.is_circular(), "transl_table": rec.transl_table}


REST_FIELDS = ("name", "description", "original_id", "annotations", "features", "circular", "transl_table")


def pp_encode(fields, idnum):
    """ model encoding of one record: id index skip ncds rest seq """
    rest = digest([fields[k] for k in REST_FIELDS])
    seq = [ord(c) for c in fields["seq"]]
    return [idnum.get(fields["id"], -1), fields["record_index"] if fields["record_index"] is not None else 0,
            skip_code(fields["skip"]), len(fields["cds_names"]), rest, len(seq)] + seq


def run_preproc(spec):
    """ pre_process_sequences on a batch of fresh Records with the configured number of workers """
    from antismash.config import update_config, get_config
    from antismash.common import record_processing
    opts = spec["opts"]
    update_config({"cpus": spec["cfg"], "minlength": opts["minlength"], "limit": opts["limit"],
                   "limit_to_record": opts["target"], "reuse_results": opts["reuse"],
                   "skip_sanitisation": opts["skip_sanitisation"], "allow_long_headers": bool(opts.get("allow_long", False)),
                   "genefinding_tool": opts["tool"], "genefinding_gff3": opts["gff3"], "taxon": "bacteria",
                   "triggered_limit": False})
    idnum = {r["id"]: i + 1 for i, r in enumerate(spec["records"])}
    # the inputs as the model sees them, and the gene finder's outcome on every (sanitised) record
    inputs, table = [], []
    for i, rspec in enumerate(spec["records"]):
        rec = build_pp_record(rspec)
        fields = pp_fields(rec)
        enc = pp_encode(fields, idnum)
        inputs.append([enc[0]] + enc[2:])      # id skip ncds rest seq (no index)
        if rspec["cdses"]:
            continue                           # the gene finder is only ever called on records without CDS features
        try:
            rec.record_index = i + 1
            record_processing.sanitise_sequence(rec)
            run_on_record(rec, None)
            after = pp_encode(pp_fields(rec), idnum)
            table.append([i + 1, 0, after[3], after[4]])
        except Exception as exc:  # pylint: disable=broad-except
            table.append([i + 1, 1, err_code(exc)])
    records = [build_pp_record(r) for r in spec["records"]]
    genefinding = sys.modules[__name__]

    def call():
        return record_processing.pre_process_sequences(records, get_config(), genefinding)

    dump = None
    try:
        results = common.call_with_timeout(call, spec.get("alarm", 120))
        if not isinstance(results, list):
            out = [1, 98]
        else:
            dump = [pp_fields(r) for r in results]
            out = [0, 1 if get_config().triggered_limit else 0, len(dump)]
            for fields in dump:
                out += pp_encode(fields, idnum)
    except common.Timeout:
        out = [1, E_HANG]
    except Exception as exc:  # pylint: disable=broad-except
        out = [1, err_code(exc)]
        dump = ["error", type(exc).__name__]
    return {"out": out, "dump": dump, "inputs": inputs, "table": table}


# ---------------------------------------------------------------- cassis run_meme / run_fimo (callers of parallel_execute)

STUB_TOOL = """#!/bin/sh
# stands in for meme/fimo: writes the output file into the -oc directory, exit code from the directory name (.._eN)
out=""
prev=""
for a in "$@"; do
  if [ "$prev" = "-oc" ]; then out="$a"; fi
  prev="$a"
done
mkdir -p "$out"
echo "made by $0 $#" > "$out/@OUTPUT@"
code=${out##*_e}
exit $code
"""


def run_cassis(spec):
    """ detection/cassis/runners.run_meme or run_fimo with stub executables on PATH: the sum of the return codes and
        the files that exist afterwards """
    from antismash.config import get_config
    from antismash.detection.cassis import runners
    from antismash.common.secmet import Record
    top = tempfile.mkdtemp(prefix="c18_cassis_")
    old_path = os.environ.get("PATH", "")
    try:
        bindir = os.path.join(top, "bin")
        os.makedirs(bindir)
        for tool, output in (("meme", "meme.xml"), ("fimo", "fimo.txt")):
            path = os.path.join(bindir, tool)
            with open(path, "w") as handle:
                handle.write(STUB_TOOL.replace("@OUTPUT@", output))
            os.chmod(path, 0o755)
        os.environ["PATH"] = bindir + os.pathsep + old_path
        meme_dir = os.path.join(top, "meme")
        fimo_dir = os.path.join(top, "fimo")
        os.makedirs(meme_dir)
        for name, has_input, has_output, _code in spec["dirs"]:
            os.makedirs(os.path.join(meme_dir, name))
            if spec["fn"] == "meme":
                if has_input is not None:
                    with open(os.path.join(meme_dir, name, "promoters.fasta"), "w") as handle:
                        handle.write(">p\nACGT\n" if has_input else "")
                if has_output:
                    with open(os.path.join(meme_dir, name, "meme.xml"), "w") as handle:
                        handle.write("earlier run")
            else:
                if has_input is not None:
                    for filename in ("meme.html", "binding_sites.fasta"):
                        with open(os.path.join(meme_dir, name, filename), "w") as handle:
                            handle.write("content" if has_input else "")
                if has_output:
                    os.makedirs(os.path.join(fimo_dir, name))
                    with open(os.path.join(fimo_dir, name, "fimo.txt"), "w") as handle:
                        handle.write("earlier run")

        def call():
            if spec["fn"] == "meme":
                return runners.run_meme(meme_dir, get_config(), False)
            options = get_config()
            from antismash.config import update_config
            update_config({"output_dir": top})
            record = Record("ACGT", id="rec", name="rec")
            return runners.run_fimo(meme_dir, fimo_dir, record, options, False)

        try:
            value = common.call_with_timeout(call, 120)
            out = [0, value]
        except common.Timeout:
            out = [1, E_HANG]
        except Exception as exc:  # pylint: disable=broad-except
            out = [1, err_code(exc)]
        made = []
        base_dir = meme_dir if spec["fn"] == "meme" else fimo_dir
        filename = "meme.xml" if spec["fn"] == "meme" else "fimo.txt"
        for name, _i, _o, _c in spec["dirs"]:
            path = os.path.join(base_dir, name, filename)
            if os.path.exists(path):
                made.append([name, open(path).read().startswith("made by")])
        return {"out": out, "made": sorted(made)}
    finally:
        os.environ["PATH"] = old_path
        shutil.rmtree(top, ignore_errors=True)


def cassis_expected(spec):
    """ independent expectation: every directory with non-empty input and no earlier output is run once; the result is
        the sum of the return codes """
    total, made = 0, []
    for name, has_input, has_output, code in spec["dirs"]:
        if has_output:
            made.append([name, False])
        elif has_input:
            total += code
            made.append([name, True])
    return [0, total], sorted(made)


def gen_cassis_cases(rng, tier):
    specs = []
    ks = [1, 2, 4] if tier == "quick" else [1, 2, 3, 4, 8, 16]
    for b in range(4 if tier == "quick" else 12):
        for fn in ("meme", "fimo"):
            dirs = []
            for i in range(rng.choice([0, 1, 3, 6, 9, 9]) if b else 5):
                code = rng.choice([0, 0, 0, 1, 2, 3])
                has_input = rng.choice([True, True, True, False, None])
                dirs.append((f"+{i}_-{rng.randrange(9)}_e{code}", has_input, rng.random() < 0.15, code))
            for k in ks:
                specs.append({"kind": "cassis", "fn": fn, "cfg": k, "cpus": None, "timeout": None, "dirs": dirs,
                              "batch": (b, fn), "class": "cassis-" + fn})
    return specs


# ---------------------------------------------------------------- CPython's chunking (harness side, for planning only)

def chunk_bounds(n, procs):
    if n == 0 or procs < 1:
        return []
    size, extra = divmod(n, procs * 4)
    if extra:
        size += 1
    return [(s, min(n, s + size)) for s in range(0, n, size)]


# ---------------------------------------------------------------- schedules

START, FINISH, CRASHED, TICK = 0, 1, 2, 3


def planned_schedule(procs, tasks, seq, tick=1.0, horizon=4):
    """ discrete event simulation of the pool with the planned sleeps: an idle worker takes the next chunk """
    bounds = chunk_bounds(len(tasks), procs)
    chunks = []
    for lo, hi in bounds:
        dur, crash = 0.0, False
        for i in range(lo, hi):
            dur += tasks[i][1]
            if tasks[i][2] == CRASH:
                crash = True
                break
            if seq[i][0] == 1:
                break
        chunks.append((dur, crash))
    events = []   # (time, order, kind, worker)
    order = 0
    heap = []
    nxt = 0
    for w in range(min(procs, len(chunks))):
        events.append((0.0, order, START, w)); order += 1
        heapq.heappush(heap, (chunks[nxt][0], order, w, nxt)); order += 1
        nxt += 1
    end = 0.0
    while heap:
        t, _o, w, c = heapq.heappop(heap)
        end = max(end, t)
        events.append((t, order, CRASHED if chunks[c][1] else FINISH, w)); order += 1
        if nxt < len(chunks):
            events.append((t, order, START, w)); order += 1
            heapq.heappush(heap, (t + chunks[nxt][0], order, w, nxt)); order += 1
            nxt += 1
    j = 1
    while j * tick <= end + horizon * tick:
        events.append((j * tick, -1, TICK, 0))   # a tick before anything else at the same instant
        j += 1
    events.sort(key=lambda e: (e[0], e[1]))
    return [(e[2], e[3]) for e in events]


def observed_schedule(procs, tasks, res, tick=1.0):
    """ schedule reconstructed from the time stamps the workers left in shared memory; None if unusable """
    trace = res["trace"]
    if trace is None:
        return None, None
    bounds = chunk_bounds(len(tasks), procs)
    pids = {}
    events = []
    completion = []
    started_chunks = [c for c, (lo, _hi) in enumerate(bounds) if trace[3 * lo] != 0.0]
    # the task queue is fifo: chunk c was taken before chunk c+1, whatever the (later, noisy) time stamps taken
    # inside the function say; the take time of a chunk is bounded by the start stamps of all later chunks
    take = {}
    best = float("inf")
    for c in reversed(started_chunks):
        best = min(best, trace[3 * bounds[c][0]])
        take[c] = best
    for c in started_chunks:
        lo, hi = bounds[c]
        pid = trace[3 * lo + 2]
        if pid not in pids:
            pids[pid] = len(pids)
        events.append((take[c], 1, c, START, pids[pid]))
        ended = [trace[3 * i + 1] for i in range(lo, hi) if trace[3 * i + 1] > 0.0]
        started = [i for i in range(lo, hi) if trace[3 * i] > 0.0]
        if ended and len(ended) == len(started):
            # the chunk is finished when its last started task ended and either it failed or all tasks ran
            last = started[-1]
            if last == hi - 1 or res["seq"][last][0] == 1:
                events.append((max(ended), 0, c, FINISH, pids[pid]))
                completion.append((max(ended), c))
    if len(pids) > procs:
        return None, None
    j = 1
    while res["t0"] + j * tick <= res["t1"]:
        events.append((res["t0"] + j * tick, 2, 0, TICK, 0))
        j += 1
    events.sort()
    return [(e[3], e[4]) for e in events], [c for _t, c in sorted(completion)]


def random_schedule(rng, procs, nchunks, max_ticks):
    """ a random complete schedule: random interleaving of starts and finishes, with no-op events mixed in """
    pending = nchunks
    busy = []
    idle = list(range(procs))
    events = []
    ticks = 0
    while pending or busy:
        r = rng.random()
        if r < 0.08:
            # events that make no sense in the current state: the model must ignore them
            choice = rng.randrange(4)
            if choice == 0:
                events.append((START, rng.choice([-1, procs, procs + 3])))
            elif choice == 1 and busy:
                events.append((START, rng.choice(busy)))
            elif choice == 2 and idle:
                events.append((rng.choice([FINISH, CRASHED]), rng.choice(idle)))
            elif not pending and idle:
                events.append((START, rng.choice(idle)))
            continue
        if r < 0.12 and ticks < max_ticks:
            events.append((TICK, 0)); ticks += 1
            continue
        can_start = pending and idle
        if can_start and (not busy or rng.random() < 0.55):
            w = idle.pop(rng.randrange(len(idle)))
            busy.append(w); pending -= 1
            events.append((START, w))
        elif busy:
            w = busy.pop(rng.randrange(len(busy)))
            idle.append(w)
            events.append((FINISH, w))
    return events


def lifo_schedule(procs, nchunks):
    """ all workers start, the LAST started finishes first (completion order reversed within every wave) """
    events = []
    pending = nchunks
    while pending:
        wave = min(procs, pending)
        events += [(START, w) for w in range(wave)]
        events += [(FINISH, w) for w in reversed(range(wave))]
        pending -= wave
    return events


# ---------------------------------------------------------------- encoding

def slow_flags(spec, n):
    """ the duration class of every job: 1 = it runs longer than the timeout (cannot end before the timeout has
        passed), 0 = negligible.  Without a timeout there is nothing to exceed; a timeout of 0 is exceeded by
        every job; otherwise: a task that waits for a go signal given only after the call has returned, a task
        whose worker dies (it never ends), a task that really sleeps longer than the timeout, a command marked
        as blocking """
    timeout = spec["timeout"]
    if timeout is None:
        return [0] * n
    if timeout == 0:
        return [1] * n
    if spec["kind"] == "work":
        return [1 if (t[3:4] == [SYNC_WAIT] or t[2] == CRASH or (t[3:4] in ([], [0]) and t[1] > timeout)) else 0
                for t in spec["tasks"]]
    if spec["kind"] == "exec":
        return [1 if i in spec.get("slow", ()) else 0 for i in range(n)]
    return [0] * n


def enc_case(fn, cfg, cpus, timeout_ticks, seq, schedule, slow=None):
    flat = [PROP, fn, cfg, cpus or 0]
    flat += [0] if timeout_ticks is None else [1, timeout_ticks]
    flat += [len(seq)]
    for i, o in enumerate(seq):
        flat += [slow[i] if slow else 0, o[0], o[1]]
    flat += [len(schedule)]
    for kind, w in schedule:
        flat += [kind, w]
    return flat


# ---------------------------------------------------------------- generation

def staggered(rng, n, mode, step):
    if mode == "none":
        return [0.0] * n
    if mode == "reverse":      # the first task is the slowest
        return [step * ((n - 1 - i) % 6) for i in range(n)]
    if mode == "sawtooth":
        return [step * ((n - i) % 4) for i in range(n)]
    return [step * rng.randrange(0, 5) for i in range(n)]


def gen_work_cases(rng, tier):
    """ yields case specs for the generic worker """
    specs = []
    thorough = tier == "thorough"
    ks = list(range(1, 17)) if thorough else [1, 2, 3, 4, 5, 8, 13, 16]
    reps = 6 if thorough else 2
    for k in ks:
        sizes = sorted({0, 1, max(0, k - 1), k, k + 1, 3 * k + 1, 4 * k, 4 * k + 1, 8 * k + 3})
        for n in sizes:
            for mode in (["none", "reverse", "sawtooth", "random"] if k > 1 else ["none"]):
                for _ in range(reps):
                    if n > 4 * k and mode != "none" and not thorough and rng.random() < 0.5:
                        continue
                    step = 0.012 if n <= 2 * k else 0.006
                    delays = staggered(rng, n, mode, step)
                    tasks = [[rng.randrange(0, 150), delays[i], 0] for i in range(n)]
                    # cpus given directly, or through the configuration (cpus None / 0)
                    r = rng.random()
                    cfg, cpus = (k, rng.choice([None, 0])) if r < 0.2 else (rng.choice([1, 2, 7]), k)
                    timeout = rng.choice([None, None, 60, 120])
                    specs.append({"kind": "work", "cfg": cfg, "cpus": cpus, "timeout": timeout, "tasks": tasks,
                                  "generator": rng.random() < 0.4, "class": "plain"})
    # a raising task at every position (single exception kind per case: the outcome is schedule independent)
    fault_ks = ks if thorough else [1, 2, 3, 8, 16]
    for k in fault_ks:
        for n in sorted({1, k, k + 1, 4 * k + 2}):
            positions = range(n) if (thorough or n <= 6) else sorted(set([0, n - 1] + rng.sample(range(n), 3)))
            for pos in positions:
                fault = rng.choice(sorted(FAULTS))
                delays = staggered(rng, n, rng.choice(["none", "reverse", "random"]) if k > 1 else "none", 0.006)
                tasks = [[rng.randrange(0, 150), delays[i], 0] for i in range(n)]
                tasks[pos][2] = fault
                extra = [p for p in range(n) if p != pos and rng.random() < 0.15]
                for p in extra:
                    tasks[p][2] = fault
                specs.append({"kind": "work", "cfg": 2, "cpus": k, "timeout": rng.choice([None, 60]), "tasks": tasks,
                              "generator": rng.random() < 0.3, "class": "fault"})
    # two different exception kinds, the one later in argument order is reported first.  The order is enforced by
    # events, not by sleeps: k workers, k + 1 single-task chunks; tasks 0..k-1 except b wait for the go signal,
    # b raises at once, the last task (which can only run on the worker that b has freed, i.e. after b's result
    # went into the result pipe) gives the go signal; then a raises.  Nominal delays are for planning only.
    for k in ([2, 4, 16] if not thorough else [2, 3, 4, 8, 11, 16]):
        n = k + 1
        a, b = sorted(rng.sample(range(k), 2))
        fa, fb = rng.sample(sorted(FAULTS), 2)
        tasks = [[rng.randrange(0, 150), 0.6, 0, SYNC_WAIT] for _ in range(k)] + [[rng.randrange(0, 150), 0.0, 0, SYNC_SIGNAL]]
        tasks[a][2] = fa
        tasks[b] = [rng.randrange(0, 150), 0.0, fb, 0]
        specs.append({"kind": "work", "cfg": 2, "cpus": k, "timeout": None, "tasks": tasks, "generator": False,
                      "class": "mixed-fault"})
    # the same with one worker in-process: the first in argument order surfaces
    tasks = [[5, 0.0, 0], [6, 0.0, 3], [7, 0.0, 1]]
    specs.append({"kind": "work", "cfg": 1, "cpus": None, "timeout": None, "tasks": tasks, "generator": True,
                  "class": "mixed-fault"})
    # invalid worker counts
    for cpus, cfg in [(-1, 2), (-4, 1), (None, -2)]:
        specs.append({"kind": "work", "cfg": cfg, "cpus": cpus, "timeout": None,
                      "tasks": [[i, 0.0, 0] for i in range(rng.randint(0, 3))], "generator": False, "class": "bad-cpus"})
    # timeouts: one second; one task does not finish before the call has returned (it waits for a go signal that
    # is only given afterwards; 3 s is its nominal duration for planning), so the outcome cannot depend on how
    # long anything else takes
    for k in ([2, 5, 16] if not thorough else [2, 3, 4, 5, 7, 8, 12, 16] * 2):
        n = rng.choice([1, k, k + 1, 4 * k + 1])
        tasks = [[rng.randrange(0, 150), rng.choice([0.0, 0.01]), 0] for _ in range(n)]
        slow = rng.randrange(n)
        tasks[slow][1:] = [3.0, 0, SYNC_WAIT]
        if rng.random() < 0.3 and n > 1:
            # a raising task does not hide the timeout: the result is only ready once every chunk is done
            other = rng.choice([p for p in range(n) if p != slow])
            if chunk_index(n, k, other) != chunk_index(n, k, slow):
                tasks[other][2] = 1
        specs.append({"kind": "work", "cfg": 2, "cpus": k, "timeout": 1, "tasks": tasks, "generator": False,
                      "class": "timeout"})
    # timeout 0: ready at once only for the empty batch
    specs.append({"kind": "work", "cfg": 2, "cpus": 3, "timeout": 0, "tasks": [], "generator": False, "class": "timeout"})
    specs.append({"kind": "work", "cfg": 2, "cpus": 3, "timeout": 0, "tasks": [[1, 0.3, 0, SYNC_WAIT], [2, 0.3, 0, SYNC_WAIT]],
                  "generator": False, "class": "timeout"})
    # one worker: the shortcut is only taken when timeout is None; timeout 0 is a timeout (pool of one worker,
    # nothing can be ready at once), no timeout runs in-process
    specs.append({"kind": "work", "cfg": 1, "cpus": 1, "timeout": 0, "tasks": [[1, 0.01, 0], [2, 0.0, 0]],
                  "generator": False, "class": "timeout"})
    specs.append({"kind": "work", "cfg": 1, "cpus": 1, "timeout": None, "tasks": [[1, 0.01, 0], [2, 0.0, 0]],
                  "generator": False, "class": "plain"})
    # ONE worker and a timeout of one second (a pool of one worker since the repair of C18-K2; the slow task
    # really sleeps SLOW_SLEEP seconds - a sleep cannot end early, whatever the load - so the case keeps its
    # meaning against a dispatcher that runs it in-process, where nobody could give a go signal): worker count
    # given directly and through the configuration; all fast with a generous timeout; a raising task before the
    # slow one (the result is only ready once every chunk is done, so the timeout surfaces, as with more workers)
    for cfg, cpus in ([(2, 1), (1, None)] if not thorough else [(2, 1), (1, None), (1, 0), (7, 1)]):
        n = rng.choice([1, 2, 3, 5])
        tasks = [[rng.randrange(0, 150), 0.0, 0] for _ in range(n)]
        tasks[rng.randrange(n)][1] = SLOW_SLEEP
        specs.append({"kind": "work", "cfg": cfg, "cpus": cpus, "timeout": 1, "tasks": tasks, "generator": rng.random() < 0.5,
                      "class": "timeout-1worker"})
    specs.append({"kind": "work", "cfg": 2, "cpus": 1, "timeout": 60, "generator": False, "class": "timeout-1worker",
                  "tasks": [[rng.randrange(0, 150), 0.0, 0] for _ in range(rng.choice([0, 1, 4]))]})
    specs.append({"kind": "work", "cfg": 1, "cpus": None, "timeout": 1, "generator": False, "class": "timeout-1worker",
                  "tasks": [[3, 0.0, 0], [4, 0.0, rng.choice(sorted(FAULTS))], [5, SLOW_SLEEP, 0]]})
    # a dying worker process: with a timeout it surfaces as RuntimeError, without one the call never returns
    for k, timeout in ([(2, 1), (3, None)] if not thorough else [(2, 1), (8, 1), (3, None), (16, None)]):
        n = k + 1
        tasks = [[i, 0.0, 0] for i in range(n)]
        tasks[rng.randrange(n)][2] = CRASH
        specs.append({"kind": "work", "cfg": 2, "cpus": k, "timeout": timeout, "tasks": tasks, "generator": False,
                      "class": "crash", "alarm": 4 if timeout is None else 60})
    # the regression corpus (fixed cases, independent of the seed) comes first
    return [dict(spec, tasks=[list(t) for t in spec["tasks"]]) for spec in REGRESSION_CORPUS] + specs


def chunk_index(n, procs, i):
    for c, (lo, hi) in enumerate(chunk_bounds(n, procs)):
        if lo <= i < hi:
            return c
    return -1


def gen_record_spec(rng, index):
    length = rng.choice([0, 30, 90, 150, 240, 400])
    alphabet = rng.choice(["ACGT", "ACGTacgt", "ACGTN-", "ACGTRYKMacgtn-", "N-", "-"])
    seq = "".join(rng.choice(alphabet) for _ in range(length))
    circular = rng.random() < 0.4
    cdses, protos = [], []
    if length >= 90 and rng.random() < 0.7:
        pos = rng.randint(0, 10)
        while pos + 12 <= length and len(cdses) < 8:
            size = 3 * rng.randint(2, 12)
            if pos + size > length:
                break
            cdses.append((pos, pos + size, rng.choice([1, -1])))
            pos += size + rng.randint(-3, 20)
            pos = max(pos, cdses[-1][0] + 1)
        if circular and len(cdses) >= 3 and cdses[-1][0] - 1 > cdses[0][1] + 1 and rng.random() < 0.6:
            # an origin-crossing protocluster: from the last gene over the origin to the first one
            first, last = cdses[0], cdses[-1]
            protos.append((last[0] - 1, first[1] + 1, last[0], last[1]))
        elif cdses and rng.random() < 0.7:
            first, last = cdses[0], cdses[-1]
            core = rng.choice(cdses)
            protos.append((max(0, first[0] - 2), min(length, max(c[1] for c in cdses) + 2), core[0], core[1]))
    return {"id": f"rec{index}_{rng.randrange(1000)}", "seq": seq, "circular": circular, "cdses": cdses, "protos": protos,
            "index": index + 1, "touch": rng.random() < 0.75}


def gen_record_cases(rng, tier):
    specs = []
    thorough = tier == "thorough"
    for k in ([1, 2, 4, 16] if not thorough else [1, 2, 3, 4, 6, 8, 12, 16]):
        for fn in ("identity", "sanitise", "ensure"):
            for _ in range(2 if not thorough else 6):
                n = rng.choice([1, 2, k, k + 1, 2 * k + 1])
                records = [gen_record_spec(rng, i) for i in range(n)]
                if fn != "identity":
                    # the pre-processing functions see freshly parsed records: genes at most, no regions
                    for r in records:
                        r["protos"] = []
                        if fn == "ensure" and rng.random() < 0.6:
                            r["cdses"] = []
                specs.append({"kind": "record", "fn": fn, "cfg": rng.choice([k, 2]), "cpus": k, "timeout": None,
                              "records": records, "generator": rng.random() < 0.7, "class": "record-" + fn})
    return specs


def gen_exec_cases(rng, tier):
    """ parallel_execute with real child processes (sh -c 'sleep d; exit c') """
    specs = []
    for k in ([1, 2, 4] if tier == "quick" else [1, 2, 3, 4, 8, 16]):
        for n in sorted({0, 1, k + 1, 4 * k + 1}):
            commands = []
            for i in range(n):
                delay = 0.01 * ((n - i) % 3)
                commands.append(["sh", "-c", f"sleep {delay}; exit {rng.choice([0, 0, 1, 3, 7])}"])
            r = rng.random()
            cfg, cpus = (k, rng.choice([None, 0])) if r < 0.3 else (2, k)
            specs.append({"kind": "exec", "cfg": cfg, "cpus": cpus, "timeout": rng.choice([None, 60]),
                          "commands": commands, "class": "exec"})
    # a command that does not finish before the call has returned: it polls for a file that is created afterwards
    go = os.path.join(tempfile.gettempdir(), f"c18_go_{os.getpid()}_{rng.randrange(10 ** 9)}")
    blocking = f"i=0; while [ ! -e {go} ] && [ $i -lt 600 ]; do sleep 0.05; i=$((i+1)); done"
    specs.append({"kind": "exec", "cfg": 2, "cpus": 2, "timeout": 1, "go": go, "slow": [1],
                  "commands": [["sh", "-c", "exit 0"], ["sh", "-c", blocking]], "class": "exec-timeout"})
    # the same for EVERY worker count generated above, one worker included (parallel_execute has no in-process
    # shortcut: one worker is a pool of one), worker count given directly or through the configuration; batch of
    # one, and more commands than workers; return codes non-zero.  The blocking command gives up after 6 s, so a
    # dispatcher that runs it in-process comes back (with a list) instead of hanging
    for k in ([1, 2, 4] if tier == "quick" else [1, 2, 3, 4, 8, 16]):
        shapes = [1, 3] if k == 1 else [rng.choice([1, k + 1, 4 * k + 1])]
        for n in shapes:
            go = os.path.join(tempfile.gettempdir(), f"c18_go_{os.getpid()}_{rng.randrange(10 ** 9)}")
            blocking = f"i=0; while [ ! -e {go} ] && [ $i -lt 120 ]; do sleep 0.05; i=$((i+1)); done; exit 4"
            commands = [["sh", "-c", f"exit {rng.choice([0, 0, 2, 5])}"] for _ in range(n)]
            pos = rng.randrange(n)
            commands[pos] = ["sh", "-c", blocking]
            cfg, cpus = (k, rng.choice([None, 0])) if rng.random() < 0.4 else (2, k)
            specs.append({"kind": "exec", "cfg": cfg, "cpus": cpus, "timeout": 1, "go": go, "slow": [pos],
                          "commands": commands, "class": "exec-timeout"})
        # a command that cannot be started (child_process raises) among commands that can
        n = rng.choice([1, k + 1])
        commands = [["sh", "-c", f"exit {rng.choice([0, 3])}"] for _ in range(n)]
        commands[rng.randrange(n)] = ["/nonexistent/binary_c18"]
        specs.append({"kind": "exec", "cfg": 2, "cpus": k, "timeout": rng.choice([None, 60]), "commands": commands,
                      "class": "exec-missing-binary"})
    specs.append({"kind": "exec", "cfg": 2, "cpus": -2, "timeout": None, "commands": [["sh", "-c", "exit 0"]],
                  "class": "exec-bad-cpus"})
    specs.append({"kind": "exec", "cfg": 2, "cpus": 2, "timeout": None,
                  "commands": [["sh", "-c", "exit 0"], ["/nonexistent/binary_c18"]], "class": "exec-missing-binary"})
    return specs


PP_ALPHABETS = {"clean": "ACGT", "lower": "acgt", "gapped": "ACGTN-", "iupac": "ACGTRYKMSWBDHVNacgtn-",
                "gaps-only": "N-", "n-only": "nN", "other-only": "RYKM-x*", "dash-only": "-"}
PP_DEMO = {   # the batches of a seeded-defect demonstration, kept as fixed cases
    "clean": ["ACGT" * 30, "GATTACA" * 20, "CCGGTTAA" * 12],
    "dirty": ["acgt" * 30, "AC-GT-RYK" * 12, "GATTACA" * 20],
    "scaffold gap": ["ACGT" * 30, "NNNN-nnnn-" * 10, "GATTACA" * 20, "acgtn" * 20],
    "all empty": ["N" * 50, "n-" * 40],
}


def gen_pp_record(rng, i, kind, tag, gf=""):
    length = rng.choice([40, 60, 90, 120, 200, 1100]) if kind != "short" else rng.choice([1, 5, 12])
    alphabet = PP_ALPHABETS.get(kind, "ACGT")
    seq = "".join(rng.choice(alphabet) for _ in range(length))
    cdses, misc = [], []
    has_cds = rng.random() < (0.75 if kind in ("gaps-only", "n-only", "other-only") else 0.55)
    if has_cds and length >= 40:
        pos = rng.randint(0, 6)
        while pos + 12 <= length and len(cdses) < 3:
            size = 3 * rng.randint(2, 8)
            if pos + size > length:
                break
            cdses.append((pos, pos + size, rng.choice([1, -1])))
            pos += size + rng.randint(0, 15)
    if length >= 10 and rng.random() < 0.5:
        misc.append((1, rng.randint(4, 9)))
    suffix = gf if not cdses else ""
    return {"id": f"{tag}r{i}{suffix}", "tag": f"{tag}r{i}", "desc": f"record {i} of batch {tag}", "seq": seq,
            "circular": rng.random() < 0.3, "cdses": cdses, "misc": misc,
            "skip": "preset by an earlier stage" if rng.random() < 0.06 else None}


# ---------------------------------------------------------------- identifiers that collide AFTER rewriting

ILLEGAL_ID_CHARS = """!"#$%&()*+,:;=>?@[]^`'{|}/ """      # fix_record_name_id's illegal_chars (the model reads them from the source)
ID_WORD = "abcdefghijklmnopqrstuvwxyzABCDEFGHIJKLMNOPQRSTUVWXYZ0123456789_"
PP_ID_DEMO = {   # the two batches of the seeded-defect demonstration C18-seed8, kept as fixed cases
    "illegal characters": (True, ["short_one", "scaf7|len1200", "scaf7:len1200", "short_two"]),
    "long names": (False, ["short_one", "sample_contig12.assemblyA", "NZ_AMZN01000079.1", "sample_contig12.assemblyB",
                           "NZ_AMZN01000079.2", "short_two"]),
}


def _word(rng, low, high, alphabet=ID_WORD):
    return "".join(rng.choice(alphabet) for _ in range(rng.randint(low, high)))


def _sprinkle(rng, base, count):
    """ base with `count` illegal characters inserted (removing them gives base back) """
    text = base
    for _ in range(count):
        pos = rng.randint(0, len(text))
        text = text[:pos] + rng.choice(ILLEGAL_ID_CHARS) + text[pos:]
    return text


def id_family(rng, kind):
    """ raw record ids (distinct unless the family is about duplicates) that one rewriting rule of
        fix_record_name_id / the duplicate pass maps to the SAME text; returns [(id, name or None)] """
    members = rng.choice([2, 2, 3])
    out = []
    if kind in ("illegal", "illegal-long"):
        # removal of the characters that are illegal in file names (after shortening when the id is long)
        base = _word(rng, 4, 11) if kind == "illegal" else _word(rng, 18, 26)
        seen = set()
        while len(out) < members:
            text = _sprinkle(rng, base, rng.choice([1, 1, 2, 3]))
            if text not in seen:
                seen.add(text)
                out.append((text, None))
        if rng.random() < 0.3:
            out.insert(rng.randint(0, len(out)), (base, None))      # the clean text itself is an input id as well
    elif kind == "version":
        # RefSeq-like accession, too long only because of the version behind the dot
        acc = "N" + rng.choice("ZCTW") + "_" + _word(rng, 4, 4, "ABCDEFGHKMNPRSTWXYZ") + f"{rng.randrange(10 ** 8):08d}"
        acc = acc[:rng.choice([15, 16, 16])] if rng.random() < 0.8 else acc + "77"      # head of 15, 16 or 18 characters
        for version in rng.sample("123456789", members):
            out.append((f"{acc}.{version}", None))
        if rng.random() < 0.3:
            out.insert(rng.randint(0, len(out)), (acc, None))
    elif kind == "contig":
        # _shorten_ids: equal contig number and equal leading characters
        number = rng.choice([rng.randint(0, 99), rng.randint(0, 99999), rng.randint(100000, 10 ** 7), 12])
        style = rng.choice(["{p}_contig{n}.{x}", "{p}_ctg{n}_{x}", "{p}.scaffold{n}.{x}", "{p}_scaf{n} {x}", "{p} c{n} {x}",
                            "{p}cont{n}-{x}", "{p}_{x}_contig{n}"])
        prefix = _word(rng, 7, 12, "abcdefghijklmnopqrstuvwxyz")
        seen = set()
        while len(out) < members:
            text = style.format(p=prefix, n=number, x=_word(rng, 8, 12))
            if text not in seen:
                seen.add(text)
                out.append((text, None))
    elif kind == "index":
        # no number to parse: the record index is used, the leading characters are equal
        prefix = _word(rng, 13, 15, "abcdefghijklmnopqrstuvwxyz")
        for _ in range(members):
            out.append((prefix + "-" + _word(rng, 6, 9, "abcdefghijklmnopqrstuvwxyz"), None))
    elif kind == "duplicate":
        # equal raw ids (the duplicate pass renames them id_0, id_1, ...), short, long, or with illegal characters
        base = rng.choice([_word(rng, 3, 10), _word(rng, 17, 24), _sprinkle(rng, _word(rng, 4, 9), 1),
                           "NZ_DUPL01000042.1"])
        out = [(base, None)] * members
        if rng.random() < 0.4:
            out.append((base + "_0", None))        # the name the duplicate pass would hand out is taken
    elif kind == "suffix":
        # the replacement name prefix_0 (prefix_1, ...) is already there
        base = _word(rng, 3, 9)
        out = [(base, None), (base + "_0", None), (_sprinkle(rng, base, 1), None)]
        if rng.random() < 0.5:
            out.append((_sprinkle(rng, base, 2), None))
        if rng.random() < 0.3:
            out.append((base + "_1", None))
    elif kind == "names":
        # names are rewritten without a look at the set: equal long names, illegal characters, a name that is another id
        long_name = _word(rng, 17, 25) + rng.choice(["", "_contig7", " c3 "])
        first, second = _word(rng, 4, 9), _word(rng, 4, 9) + "x"
        out = [(first, long_name), (second, long_name), (_word(rng, 5, 8) + "y", _sprinkle(rng, first, 2)),
               (_sprinkle(rng, second, 1), second)]
    elif kind == "only-illegal":
        out = [(":|", None), ("|:", None)]
    return out


ID_FAMILY_KINDS = ["illegal", "illegal", "illegal-long", "version", "version", "contig", "contig", "index", "duplicate",
                   "duplicate", "suffix", "names"]


def gen_id_batch(rng, tag, max_records, allow_long=None, ids=None):
    """ a batch of records whose ids come from one to three colliding families and a few plain ids """
    entries = []
    kinds = []
    if ids is None:
        for _ in range(rng.choice([1, 1, 2, 2, 3])):
            kind = rng.choice(ID_FAMILY_KINDS) if rng.random() < 0.97 else "only-illegal"
            family = id_family(rng, kind)
            if len(entries) + len(family) > max_records and entries:
                break
            kinds.append(kind)
            entries.append(family)
        plain = [[(_word(rng, 3, 12), None)] for _ in range(rng.randint(0, 3))]
        groups = entries + plain
        if rng.random() < 0.5:
            # members of a family side by side (in one chunk when the batch is large), families in random order
            rng.shuffle(groups)
            flat = [m for g in groups for m in g]
        else:
            flat = [m for g in groups for m in g]
            rng.shuffle(flat)
        flat = flat[:max_records]
    else:
        flat = [(i, "name") for i in ids]
    records = []
    for i, (rid, name) in enumerate(flat):
        kind = rng.choice(["clean", "clean", "lower", "gapped", "iupac"])
        rec = gen_pp_record(rng, i, kind, tag)
        if not rec["cdses"]:
            rec["cdses"] = [(3, 33, -1)] if len(rec["seq"]) >= 40 else [(0, 6, 1)]
        rec["skip"] = None
        if not set(rec["seq"].upper()) & set("ACGT"):
            rec["seq"] = "ACGT" + rec["seq"][4:]
        rec["id"] = rid
        if name is not None:
            rec["name"] = name
        records.append(rec)
    return records, kinds, (rng.random() < 0.5 if allow_long is None else allow_long)


def gen_preproc_cases(rng, tier):
    """ pre_process_sequences itself: every batch is run with each worker count, the results are compared
        field by field with the one-worker (in-process) run and with the model """
    thorough = tier == "thorough"
    ks = [1, 2, 4] if not thorough else [1, 2, 3, 4, 8, 16]
    batches = []
    default = {"minlength": 0, "limit": -1, "target": "", "reuse": "", "skip_sanitisation": False,
               "tool": "none", "gff3": ""}
    for b, (name, seqs) in enumerate(PP_DEMO.items()):
        records = [{"id": f"rec{i}", "tag": f"d{b}r{i}", "desc": name, "seq": seq, "circular": False,
                    "cdses": [(1, 7, 1)], "misc": [], "skip": None} for i, seq in enumerate(seqs)]
        batches.append({"records": records, "opts": dict(default), "class": "preproc"})
    kinds = ["clean"] * 3 + ["lower", "gapped", "iupac"] * 2 + ["gaps-only", "n-only", "other-only", "short"]
    for b in range(26 if not thorough else 150):
        n = rng.choice([1, 2, 2, 3, 4, 5, 9, 17 if thorough else 6])
        tag = f"b{b}"
        gf_fault = rng.choice(["", "", "", "gfv", "gfk"])       # at most one raising kind per batch
        records = []
        for i in range(n):
            kind = rng.choice(kinds) if rng.random() < 0.92 else rng.choice(["gaps-only", "dash-only"])
            gf = rng.choice(["", "", "gf0", gf_fault])
            records.append(gen_pp_record(rng, i, kind, tag, gf))
        if not any(r["cdses"] and set(r["seq"]) <= set("Nn-") for r in records) and rng.random() < 0.6:
            # an annotated record whose sequence is gaps/unknown bases only (scaffold spacer)
            i = rng.randrange(n)
            records[i] = gen_pp_record(rng, i, "gaps-only", tag)
            records[i]["cdses"] = [(1, 7, 1)]
            records[i]["id"] = records[i]["tag"]
        if rng.random() < 0.9:
            # most batches keep at least one analysable record, so that the run gets past the final check
            i = rng.randrange(n)
            records[i] = gen_pp_record(rng, i, rng.choice(["clean", "lower", "gapped"]), tag)
            records[i]["skip"] = None
            if not records[i]["cdses"]:
                records[i]["cdses"] = [(3, 33, -1)]
        opts = dict(default)
        opts["tool"] = rng.choice(["none", "prodigal", "prodigal"])
        r = rng.random()
        if r < 0.25:
            opts["minlength"] = rng.choice([13, 50, 61, 100, 1000])
        r = rng.random()
        if r < 0.3:
            opts["limit"] = rng.choice([0] + [1, 2, max(1, n - 1), n, n + 1] * 3)
        r = rng.random()
        if r < 0.15:
            opts["target"] = rng.choice([rec["id"] for rec in records])
        elif r < 0.2:
            opts["target"] = "no_such_record"
        r = rng.random()
        if r < 0.06:
            opts["skip_sanitisation"] = True
        elif r < 0.12:
            opts["reuse"] = "previous.json"
        elif r < 0.17:
            opts["gff3"] = "annotations.gff3"
        cls = "preproc"
        r = rng.random()
        if r < 0.12 and n >= 2:
            # outside the model's guard (the id/name rewriting block is not transcribed): worker counts are still compared
            cls = "preproc-ids"
            choice = rng.randrange(4)
            if choice == 0:
                records[1]["id"] = records[0]["id"]
            elif choice == 1:
                records[0]["id"] = "a_very_long_record_identifier_contig12"
            elif choice == 2:
                records[0]["name"] = "a_name_longer_than_sixteen_characters"
            else:
                records[0]["id"] = "NZ_AMZN01000079.1"
                records[1]["accession"] = "ACCESSION_LONGER_THAN_16"
            if opts["target"] not in ("", "no_such_record"):
                opts["target"] = ""
        batches.append({"records": records, "opts": opts, "class": cls})
    # identifiers that collide after rewriting: illegal characters, versions, contig names, duplicates, taken replacement
    # names, names vs ids; both allow_long_headers settings.  Class preproc-idclash: default options, every record annotated
    # and with real sequence (what comes back is what the identifier block produced) - compared with the model of the
    # identifier block as well; class preproc-idopts: other options, compared across worker counts and judged by the
    # uniqueness oracle only
    for name, (allow_long, ids) in PP_ID_DEMO.items():
        records, _kinds, _ = gen_id_batch(rng, "s8" + name[:1], len(ids), allow_long, ids)
        batches.append({"records": records, "opts": dict(default, allow_long=allow_long), "class": "preproc-idclash",
                        "families": [name]})
    for b in range(14 if not thorough else 80):
        records, kinds, allow_long = gen_id_batch(rng, f"i{b}", rng.choice([4, 6, 8, 8, 9 if not thorough else 17]))
        batches.append({"records": records, "opts": dict(default, allow_long=allow_long), "class": "preproc-idclash",
                        "families": kinds})
    for b in range(5 if not thorough else 30):
        records, kinds, allow_long = gen_id_batch(rng, f"j{b}", rng.choice([3, 5, 8]))
        opts = dict(default, allow_long=allow_long)
        opts["tool"] = rng.choice(["none", "prodigal"])
        choice = rng.randrange(4)
        if choice == 0:
            opts["minlength"] = rng.choice([50, 100])
        elif choice == 1:
            opts["limit"] = rng.choice([1, 2, len(records)])
        elif choice == 2:
            for rec in records[::2]:
                rec["cdses"] = []
        else:
            records[rng.randrange(len(records))]["accession"] = "ACCESSION_LONGER_THAN_16"
        batches.append({"records": records, "opts": opts, "class": "preproc-idopts", "families": kinds})
    # an empty sequence is refused before anything is sent to a worker; the empty batch has all records skipped
    empty = gen_pp_record(rng, 0, "clean", "e")
    empty["seq"] = ""
    empty["cdses"], empty["misc"] = [], []
    batches.append({"records": [gen_pp_record(rng, 1, "clean", "e"), empty], "opts": dict(default), "class": "preproc"})
    batches.append({"records": [], "opts": dict(default), "class": "preproc"})
    specs = []
    for b, batch in enumerate(batches):
        for k in ks:
            specs.append({"kind": "preproc", "cfg": k, "cpus": None, "timeout": None, "batch": b,
                          "records": batch["records"], "opts": batch["opts"], "class": batch["class"],
                          "families": batch.get("families", [])})
    return specs


def enc_pp_case(spec, res, sched1, sched2):
    opts = spec["opts"]
    idnum = {r["id"]: i + 1 for i, r in enumerate(spec["records"])}
    checking = not (opts["reuse"] or opts["skip_sanitisation"])
    flat = [PROP, FN_PP, spec["cfg"], 1 if checking else 0]
    flat += [0] if not opts["target"] else [1, idnum.get(opts["target"], 0)]
    flat += [opts["minlength"], opts["limit"], 1 if (not opts["gff3"] and opts["tool"] != "none") else 0]
    flat += [len(res["inputs"])]
    for rec in res["inputs"]:
        flat += rec
    flat += [len(res["table"])]
    for entry in res["table"]:
        flat += entry
    for schedule in (sched1, sched2):
        flat += [len(schedule)]
        for kind, w in schedule:
            flat += [kind, w]
    return flat


def _enc_str(text):
    return [len(text)] + [ord(c) for c in text]


def enc_ids_case(spec, schedule):
    """ model payload of the identifier block: cfg allow_long_headers records(id name seq) schedule """
    flat = [PROP, FN_IDS, spec["cfg"], 1 if spec["opts"].get("allow_long") else 0, len(spec["records"])]
    for rec in spec["records"]:
        flat += _enc_str(rec["id"]) + _enc_str(rec.get("name", rec["id"])) + _enc_str(rec["seq"])
    flat += [len(schedule)]
    for kind, w in schedule:
        flat += [kind, w]
    return flat


def enc_ids_out(res):
    """ the implementation's result as the identifier block's model returns it:
        id name original_id(option) record_index skip seq per record """
    if res["out"][0] == 1:
        return list(res["out"][:2])
    out = [0, len(res["dump"])]
    for fields in res["dump"]:
        out += _enc_str(fields["id"]) + _enc_str(fields["name"])
        out += [0] if fields["original_id"] is None else [1] + _enc_str(fields["original_id"])
        out += [fields["record_index"] if fields["record_index"] is not None else 0, skip_code(fields["skip"])]
        out += _enc_str(fields["seq"])
    return out


def ascii_ids(spec):
    return all(ord(c) < 128 for rec in spec["records"] for c in rec["id"] + rec.get("name", ""))


def hash_dir(entry):
    return digest(list(entry))


def first_difference(a, b):
    """ where two field-by-field dumps of a result differ """
    if not isinstance(a, list) or not isinstance(b, list) or (a[:1] == ["error"]) != (b[:1] == ["error"]):
        return {"in-process": a if not isinstance(a, list) or a[:1] == ["error"] else "a list of records",
                "workers": b if not isinstance(b, list) or b[:1] == ["error"] else "a list of records"}
    if a[:1] == ["error"]:
        return None if a == b else {"in-process": a, "workers": b}
    if len(a) != len(b):
        return {"number of records": [len(a), len(b)]}
    for i, (x, y) in enumerate(zip(a, b)):
        for key in x:
            if x[key] != y.get(key):
                return {"record": i, "field": key, "in-process": x[key], "workers": y.get(key)}
    return None


RULE = ("real multiprocessing pools: worker counts 1..16 (quick: 1,2,3,4,5,8,13,16), given directly or through the configuration "
        "(cpus None/0), invalid counts; batch sizes 0,1,k-1,k,k+1,3k+1,4k,4k+1,8k+3 (below/at/above the worker count and the "
        "chunking boundary); argument dependent sleeps (none, reversed, sawtooth, random) so that completion order differs "
        "from argument order; result values of seven shapes up to 100 kB; a raising task (8 exception kinds) at every position; "
        "two kinds with the later one reported first (ordering enforced by a go-file event, not by sleeps); timeouts 0/1 s against "
        "tasks that cannot finish before the call has returned (they wait for a signal given afterwards); ONE worker with a "
        "timeout of 1 s against a task that really sleeps 2.5 s (the shortcut is only taken without a timeout; regression "
        "corpus: the witness of the repaired finding C18-K2, cpus=1 / --cpus 1, run first for every seed), with a generous "
        "timeout, with a raising task first, timeout 0 and no timeout with one worker; dying worker processes; "
        "secmet Records (genes, protoclusters, regions, circular) through identity, sanitise_sequence and ensure_cds_info with a stub "
        "gene finder; parallel_execute with real child processes for 1, 2, 4 (thorough 1,2,3,4,8,16) workers, given directly or "
        "through the configuration: all fast, non-zero return codes, empty batch, more commands than workers, a command that cannot "
        "be started, and - for EVERY one of these worker counts, one worker included - a timeout of 1 s against a command that blocks "
        "until after the call has returned.  Every job travels to the model as (duration class: exceeds the timeout or not, "
        "sequential outcome); every implementation output is judged by the decidable specification tspec_ok (the dispatcher's "
        "sequential specification, independent of the worker count: an error when a job exceeds the timeout or raises, otherwise the "
        "results in argument order) and compared with the model under the "
        "planned schedule (checked by the model to agree with the duration classes), the schedule reconstructed from the workers' "
        "time stamps and random/LIFO schedules (where the outcome is "
        "schedule independent).  record_processing.pre_process_sequences itself (the real caller): batches of 0..9 (thorough ..17) real "
        "Records (clean, lower case, gapped, IUPAC, gaps/Ns only WITH CDS annotations, dashes only, short, empty; with/without CDS, "
        "preset skip flags; options minlength, limit, limit_to_record, skip_sanitisation, reuse_results, gene finding on/off/GFF3, a "
        "gene finder that finds nothing or raises) run with 1, 2, 4 (thorough 1,2,3,4,8,16) configured workers; every result is "
        "compared FIELD BY FIELD (id, name, description, seq, skip, record_index, original_id, annotations, features, CDS names, "
        "topology, transl_table) with the one-worker in-process run, and - for batches inside the model's guard (unique ids/names of "
        "at most 16 characters) - with the Gallina model of the pipeline under LIFO and random schedules of both pools.  IDENTIFIERS: "
        "batches whose record ids/names COLLIDE AFTER each rewriting rule of fix_record_name_id and the duplicate pass (families of 2-3 "
        "distinct ids differing only in illegal characters, short and longer than 16; versioned accessions X.1/X.2/X.3 with heads of "
        "15/16/18 characters, with and without the bare accession; contig/scaffold/cNN names with equal number - below and above "
        "99999 - and equal leading characters; long names without a number (record index); equal raw ids, also long / with illegal "
        "characters / with the replacement id_0 already present; base, base_0 and ids stripping to base; long or illegal names, names "
        "equal to another record's id; ids of illegal characters only), families side by side or shuffled among plain ids, BOTH "
        "allow_long_headers settings, the two batches of the seeded defect C18-seed8 as fixed cases; every run is compared field by "
        "field (id, name, original_id, ...) with the in-process run, every returned list is judged by an independent oracle (ids "
        "pairwise distinct), and - default options, annotated records - the identifier block is compared with its Gallina model "
        "(C16's transcription of the id rules threaded through ONE set in the parent, then the sanitise batch through the pool model) "
        "under LIFO and random schedules and judged by ids_spec_ok (= in-process result of the model and ids distinct).  cassis "
        "run_meme/run_fimo (callers of parallel_execute) with stub executables on PATH for 1, 2, 4 workers against an independent "
        "expectation (sum of return codes, files made).  non-trivial = pool case (effective cpus > 1) with at least two chunks, or "
        "a raising/timeout/crash case, or a pre-processing / identifier batch of >= 2 records with > 1 worker; distinct by flat encoding "
        "(schedule included)")


def describe(flat):
    doc = {"function": {1: "parallel_function", 2: "parallel_execute", 3: "pre_process_sequences",
                        4: "pre_process_sequences (identifier block)"}.get(flat[1], flat[1]),
           "payload": flat[2:]}
    if flat[1] == FN_IDS:
        try:
            pos, ids = 5, []
            for _ in range(flat[4]):
                texts = []
                for _field in range(3):
                    texts.append("".join(chr(c) for c in flat[pos + 1:pos + 1 + flat[pos]]))
                    pos += 1 + flat[pos]
                ids.append({"id": texts[0], "name": texts[1], "seq": texts[2][:30]})
            doc.update({"config_cpus": flat[2], "allow_long_headers": bool(flat[3]), "records": ids})
            del doc["payload"]
        except (IndexError, TypeError, ValueError):
            pass
    if flat[1] in (FN_PF, FN_PE):
        try:
            pos = 4
            timeout = None
            if flat[pos]:
                timeout = flat[pos + 1]
                pos += 1
            pos += 1
            n = flat[pos]
            jobs = [flat[pos + 1 + 3 * i:pos + 4 + 3 * i] for i in range(n)]
            doc.update({"config_cpus": flat[2], "cpus (0 = not given)": flat[3], "timeout": timeout,
                        "jobs (exceeds the timeout, 0 returns / 1 raises, value digest / exception kind)": jobs[:40]})
        except (IndexError, TypeError):
            pass
    return doc


def run(chk):
    if not chk.build_and_audit():
        return chk.finish(RULE)
    rng = chk.rng
    specs = (gen_work_cases(rng, chk.tier) + gen_record_cases(rng, chk.tier) + gen_exec_cases(rng, chk.tier)
             + gen_preproc_cases(rng, chk.tier) + gen_cassis_cases(rng, chk.tier))
    # slow cases first, so that they overlap with the rest instead of forming a tail
    specs.sort(key=lambda sp: 0 if sp["class"] in ("crash", "timeout", "timeout-1worker", "exec-timeout", "mixed-fault") else 1)
    known = {f["id"]: f for f in common.load_known_findings("C18") if f.get("status") == "known"}
    chk.count("regression_corpus_cases", sum(1 for sp in specs if sp.get("regression_of")))
    # the implementation runs in helper processes (non-daemonic, so that they may own pools), 4 at a time
    workers = 4
    ctx = multiprocessing.get_context("fork")
    try:
        with concurrent.futures.ProcessPoolExecutor(max_workers=workers, mp_context=ctx) as executor:
            results = list(executor.map(run_impl, specs, chunksize=1))
    finally:
        for spec in specs:
            if spec.get("go") and os.path.exists(spec["go"]):
                os.unlink(spec["go"])
    cases, impl_outs, meta, planned = [], [], [], []
    id_cases, id_outs, id_meta = [], [], []
    variants = 20 if chk.tier == "quick" else 30
    # pre_process_sequences: every worker count against the in-process (one worker) run, field by field
    reference = {spec["batch"]: res for spec, res in zip(specs, results) if spec["kind"] == "preproc" and spec["cfg"] == 1}
    for spec, res in zip(specs, results):
        if spec["kind"] != "preproc":
            continue
        chk.count("class_" + spec["class"])
        chk.count(f"preproc_workers_{spec['cfg']}")
        chk.count("preproc_batch_" + str(len(spec["records"])))
        if res["out"][0] == 1:
            chk.count("preproc_error_" + common.ERR_NAME.get(res["out"][1], str(res["out"][1])))
        else:
            chk.count("preproc_records_skipped", sum(1 for f in res["dump"] if f.get("skip")))
            chk.count("preproc_records_flagged_contains_no_sequence",
                      sum(1 for f in res["dump"] if skip_code(f.get("skip")) == 1))
        ref = reference[spec["batch"]]
        diff = first_difference(ref["dump"], res["dump"]) if spec["cfg"] != 1 else None
        if diff is not None:
            chk.violation("counterexample", f"pre_process_sequences with {spec['cfg']} workers differs from the "
                          f"in-process run ({json.dumps(diff, default=str)[:300]})",
                          {"theorem_or_correspondence": "C18_preprocess_workers_irrelevant (records cross the process "
                                                        "boundary unchanged / same result for every worker count)",
                           "input": {"records": spec["records"], "options": spec["opts"], "workers": spec["cfg"]},
                           "difference": diff, "implementation": res["out"][:40], "in_process": ref["out"][:40]})
        # independent oracle on every returned list (sanitisation on): the record ids are pairwise distinct
        checking = not (spec["opts"]["reuse"] or spec["opts"]["skip_sanitisation"])
        if checking and res["out"][0] == 0 and isinstance(res["dump"], list):
            ids_back = [f.get("id") for f in res["dump"]]
            chk.count("preproc_runs_judged_by_the_uniqueness_oracle")
            rewritten = sum(1 for f in res["dump"] if f.get("original_id"))
            chk.count("preproc_records_with_rewritten_id", rewritten)
            if len(set(ids_back)) != len(ids_back):
                twice = sorted({i for i in ids_back if ids_back.count(i) > 1})
                chk.violation("counterexample", f"pre_process_sequences with {spec['cfg']} workers returns records with "
                              f"the same id {twice[:3]} (in-process: "
                              f"{[f.get('id') for f in ref['dump']] if isinstance(ref['dump'], list) else ref['dump']})"[:400],
                              {"theorem_or_correspondence": "C18_preprocess_ids_unique / C18_preprocess_ids_workers_irrelevant "
                                                            "(ids, names and original ids come back as the in-process run "
                                                            "hands them out, for every worker count)",
                               "input": {"records": spec["records"], "options": spec["opts"], "workers": spec["cfg"]},
                               "ids_returned": ids_back,
                               "ids_in_process": [f.get("id") for f in ref["dump"]] if isinstance(ref["dump"], list) else ref["dump"],
                               "implementation": res["out"][:40]})
        for fam in spec.get("families", ()):
            chk.count("id_family_" + fam.replace(" ", "_"))
        if spec["class"] in ("preproc-idclash", "preproc-idopts"):
            chk.count("id_batches_allow_long_headers_" + ("on" if spec["opts"].get("allow_long") else "off"))
        if spec["class"] == "preproc-idclash" and ascii_ids(spec):
            # the identifier block against its model (fn 4) and its decidable specification (fn 14)
            n = len(spec["records"])
            nchunks = len(chunk_bounds(n, spec["cfg"])) if (spec["cfg"] > 1 and n != 1) else 0
            scheds = [("lifo", lifo_schedule(spec["cfg"], nchunks))] if nchunks else [("none", [])]
            if nchunks:
                for _ in range(2 if chk.tier == "quick" else 4):
                    scheds.append(("random", random_schedule(rng, spec["cfg"], nchunks, 0)))
            for name, sched in scheds:
                flat = enc_ids_case(spec, sched)
                id_cases.append(flat)
                id_outs.append(enc_ids_out(res))
                id_meta.append((spec, name))
                chk.count("schedule_" + name)
                sample = None
                if name == "lifo" and spec["cfg"] > 1 and sum(1 for sp in chk.samples if sp.get("class") == "preproc-idclash") < 2 \
                        and isinstance(res["dump"], list) and any(f.get("original_id") for f in res["dump"]):
                    sample = {"class": "preproc-idclash", "workers": spec["cfg"], "allow_long_headers": spec["opts"].get("allow_long"),
                              "ids_in": [r["id"] for r in spec["records"]], "ids_out": [f["id"] for f in res["dump"]],
                              "names_out": [f["name"] for f in res["dump"]],
                              "original_ids_out": [f["original_id"] for f in res["dump"]]}
                    chk.samples.insert(0, sample)
                chk.note_case(flat, spec["cfg"] > 1 and n >= 2, None)
            continue
        if spec["class"] != "preproc":
            chk.note_case([PROP, FN_PP, spec["cfg"], spec["batch"]], spec["cfg"] > 1)
            continue        # outside the guard of the pipeline model: compared across worker counts (and uniqueness) only
        n = len(spec["records"])
        nchunks = len(chunk_bounds(n, spec["cfg"])) if spec["cfg"] > 1 else 0
        pairs = [("lifo", lifo_schedule(spec["cfg"], nchunks), lifo_schedule(spec["cfg"], nchunks))] if nchunks else \
                [("none", [], [])]
        if nchunks:
            for _ in range(3 if chk.tier == "quick" else 6):
                pairs.append(("random", random_schedule(rng, spec["cfg"], nchunks, 0),
                              random_schedule(rng, spec["cfg"], nchunks, 0)))
        for name, sched1, sched2 in pairs:
            flat = enc_pp_case(spec, res, sched1, sched2)
            cases.append(flat)
            impl_outs.append(res["out"])
            meta.append((spec, name))
            chk.count("schedule_" + name)
            sample = None
            if name == "lifo" and n >= 3 and sum(1 for sp in chk.samples if sp.get("class") == "preproc") < 2:
                sample = {"class": "preproc", "workers": spec["cfg"], "options": spec["opts"],
                          "records": [[r["id"], r["seq"][:20], len(r["cdses"])] for r in spec["records"]],
                          "implementation": res["out"][:12]}
                chk.samples.insert(0, sample)
            chk.note_case(flat, spec["cfg"] > 1 and n >= 2, None)
    # cassis run_meme / run_fimo: every worker count against the independent expectation
    for spec, res in zip(specs, results):
        if spec["kind"] != "cassis":
            continue
        chk.count("class_" + spec["class"])
        expected = cassis_expected(spec)
        chk.note_case([PROP, 4, spec["cfg"], spec["fn"] == "meme"] + [hash_dir(d) for d in spec["dirs"]],
                      len(spec["dirs"]) >= 2)
        if (res["out"], res["made"]) != expected:
            chk.violation("counterexample", f"cassis run_{spec['fn']} through parallel_execute with {spec['cfg']} workers: "
                          f"sum of return codes / files made {[res['out'], res['made']]} differ from the one-after-another "
                          f"expectation {list(expected)}",
                          {"theorem_or_correspondence": "C18_execute_order (correspondence only: real child processes)",
                           "input": spec, "implementation": [res["out"], res["made"]], "expected": list(expected)})
    for spec, res in zip(specs, results):
        if spec["kind"] in ("preproc", "cassis"):
            continue
        cls = spec["class"]
        kind = spec["kind"]
        fn = FN_PE if kind == "exec" else FN_PF
        eff = spec["cpus"] if spec["cpus"] else spec["cfg"]
        seq = res["seq"]
        n = len(seq)
        timeout = spec["timeout"]
        # parallel_function takes the in-process shortcut only for one worker AND no timeout; parallel_execute never
        pool = eff > 1 or (eff == 1 and (kind == "exec" or timeout is not None))
        nchunks = len(chunk_bounds(n, eff)) if pool else 0
        if kind == "work":
            tasks = spec["tasks"]
        else:
            tasks = [[0, 0.0, 0] for _ in range(n)]
            for i in spec.get("slow", ()):
                tasks[i][1] = 3.0
        schedules = []
        if pool:
            schedules.append(("planned", planned_schedule(eff, tasks, seq)))
            obs, completion = observed_schedule(eff, tasks, res) if kind == "work" else (None, None)
            if obs is not None and cls != "crash":
                schedules.append(("observed", obs))
                if completion != sorted(completion):
                    chk.count("runs_with_completion_order_different_from_argument_order")
                chk.count("runs_with_observed_schedule")
            independent = cls in ("plain", "fault", "exec", "record-identity", "record-sanitise", "record-ensure",
                                  "exec-missing-binary")
            if independent:
                max_ticks = 0 if timeout is None else max(0, timeout - 1)
                schedules.append(("lifo", lifo_schedule(eff, nchunks)))
                for _ in range(variants):
                    schedules.append(("random", random_schedule(rng, eff, nchunks, min(max_ticks, 5))))
        else:
            schedules.append(("none", []))
            if eff == 1:
                schedules.append(("random", random_schedule(rng, 2, rng.randint(0, 3), 3)))
        out = res["out"]
        # known finding: a dying worker without timeout -> the call never returns
        if cls == "crash" and timeout is None and out == [1, E_HANG] and KNOWN_HANG in known:
            chk.known(known[KNOWN_HANG]["what_fails"])
        chk.count("class_" + cls)
        chk.count(f"workers_{eff}" if eff >= 1 else "workers_invalid")
        chk.count("batch_" + ("0" if n == 0 else "lt_k" if n < eff else "eq_k" if n == eff else "le_4k" if n <= 4 * eff
                              else "gt_4k"))
        if out[0] == 1:
            chk.count("impl_error_" + common.ERR_NAME.get(out[1], str(out[1])))
        slow = slow_flags(spec, n)
        if any(slow):
            chk.count("runs_with_a_job_exceeding_the_timeout")
            chk.count(f"runs_with_a_job_exceeding_the_timeout_workers_{eff}")
        for name, schedule in schedules:
            flat = enc_case(fn, spec["cfg"], spec["cpus"], timeout, seq, schedule, slow)
            if name == "planned" and cls != "crash":
                planned.append((flat, cls))
            cases.append(flat)
            impl_outs.append(out)
            meta.append((spec, name))
            chk.count("schedule_" + name)
            nontrivial = (pool and nchunks >= 2) or cls in ("fault", "mixed-fault", "timeout", "crash", "exec-timeout",
                                                            "timeout-1worker")
            sample = None
            if len(chk.samples) < 6 and name == "planned" and nchunks >= 2:
                sample = {"class": cls, "cpus": spec["cpus"], "config_cpus": spec["cfg"], "timeout": timeout,
                          "batch": n, "sequential_outcomes": seq[:8], "implementation": out[:10], "schedule": schedule[:12]}
            chk.note_case(flat, nontrivial, sample)
    npp = sum(1 for spec, _name in meta if spec["kind"] == "preproc")      # these cases come first
    model_outs = common.correspondence(chk, cases[:npp], impl_outs[:npp], spec_fn_offset=None, describe=describe,
                                       label="pre_process_sequences pipeline: model vs implementation")
    model_outs += common.correspondence(chk, cases[npp:], impl_outs[npp:], spec_fn_offset=SPEC_OFFSET, describe=describe)
    # the identifier block of pre_process_sequences: model (fn 4) vs implementation; on a disagreement the decidable
    # specification (fn 14: equal to the in-process result of the model, ids pairwise distinct) looks for a failing input
    id_model_outs = common.correspondence(chk, id_cases, id_outs, spec_fn_offset=None, describe=describe,
                                          label="pre_process_sequences identifier block (duplicate pass, fix_record_name_id "
                                                "loop in the parent, sanitise batch): model vs implementation")
    if id_cases:
        id_verdicts = common.run_driver([[c[0], c[1] + SPEC_OFFSET] + c[2:] + o for c, o in zip(id_cases, id_outs)])
        for i, verdict in enumerate(id_verdicts):
            chk.count("id_block_outputs_judged_by_ids_spec_ok")
            if verdict[:1] != [1]:
                spec, _name = id_meta[i]
                own = enc_ids_out(reference[spec["batch"]])
                if id_outs[i] == own and (own[0] == 1 or len({f["id"] for f in reference[spec["batch"]]["dump"]}) == own[1]):
                    # equal to the implementation's OWN in-process result, ids distinct: the property holds on this input;
                    # the output differs from the model's, which the correspondence above reports (broken correspondence
                    # of the identifier model), not a failing input of this property
                    chk.count("id_block_spec_verdict_false_but_equal_to_own_in_process_run")
                    continue
                chk.violation("counterexample", f"pre_process_sequences with {spec['cfg']} workers: ids/names/original ids differ "
                              "from the in-process result of the identifier block or are not unique (ids_spec_ok false)",
                              {"theorem_or_correspondence": "C18_preprocess_ids_workers_irrelevant / C18_preprocess_ids_unique "
                                                            "(ids_spec_ok on the implementation's output)",
                               "input": {"records": spec["records"], "options": spec["opts"], "workers": spec["cfg"]},
                               "flat": id_cases[i], "implementation": id_outs[i], "model": id_model_outs[i],
                               "spec_verdict_on_implementation_output": verdict})
                break
    # the property itself, on every implementation output (decidable specification evaluated by the model:
    # tspec_ok = the dispatcher's sequential specification with the timeout clause, independent of the worker
    # count; second number = finding class of the input)
    spec_cases = [[c[0], c[1] + SPEC_OFFSET] + c[2:] + o for c, o in zip(cases, impl_outs)]
    verdicts = common.run_driver(spec_cases)
    for i, verdict in enumerate(verdicts):
        if verdict[:1] != [1]:
            spec, name = meta[i]
            if spec["kind"] == "preproc":
                # the decidable specification compares with the MODEL's in-process pipeline.  The property itself
                # (workers vs in-process run of the implementation) was decided above, field by field; an output that
                # equals the implementation's own in-process output but not the model's is a broken correspondence of
                # the pipeline model (reported below), not a failing input of this property
                chk.count("preproc_spec_verdict_false")
                continue
            if spec["class"] == "crash" and spec["timeout"] is None and KNOWN_HANG in known and impl_outs[i] == [1, E_HANG]:
                continue      # recorded finding; the model transcribes the hang (compared below)
            # (no suppression for the repaired finding C18-K2: a list coming back from parallel_function with one
            # worker although a job exceeds the timeout is a counterexample again)
            chk.violation("counterexample", "outcome differs from the dispatcher's sequential specification (error when a "
                          "job exceeds the timeout or raises, otherwise the results in argument order) "
                          f"({describe(cases[i])['function']}, class {spec['class']})",
                          {"theorem_or_correspondence": "C18_order / C18_failure_surfaces / C18_execute_timeout_surfaces / "
                                                        "C18_function_timeout_surfaces / C18_execute_equals_dispatch_spec / "
                                                        "C18_function_equals_dispatch_spec (tspec_ok on the implementation's output)",
                           "regression_witness_of_repaired_class": spec.get("regression_of"),
                           "flat": cases[i], "implementation": impl_outs[i],
                           "input": {k: v for k, v in spec.items() if k != "records" or spec["kind"] == "preproc"},
                           "jobs_exceeding_the_timeout": [j for j, f in enumerate(slow_flags(spec, len(spec.get("tasks") or spec.get("commands") or []))) if f][:20]
                           if spec["kind"] in ("work", "exec") else [],
                           "spec_verdict_on_implementation_output": verdict})
            break
    # the planned schedules agree with the duration classes (model fn 7): no chunk with a slow job reports before
    # the timeout; the clock only advances while such a chunk runs
    if planned:
        flags = common.run_driver([[c[0], FN_TIMELY] + c[2:] for c, _cls in planned])
        for (flat, cls), flag in zip(planned, flags):
            chk.count("planned_schedules")
            if flag[:1] == [1]:
                chk.count("planned_schedules_respecting_durations")
            elif cls in ("timeout", "exec-timeout"):
                chk.violation("broken-correspondence", "a planned schedule lets a chunk with a slow job report before the "
                              "timeout (harness planning does not match the model's duration classes)",
                              {"theorem_or_correspondence": "respects_durations (harness planning)", "flat": flat})
            if flag[1:2] == [1]:
                chk.count("planned_schedules_timely")
    chk.crosscheck_vm(cases + id_cases, model_outs + id_model_outs)
    chk.extra["implementation_runs"] = len(specs)
    return chk.finish(RULE, trusted_extra=[
        "CPython multiprocessing.Pool semantics as recorded at the top of coq/C18/Model.v (chunking, fifo task queue, "
        "MapResult by chunk number, first failing chunk wins, lost chunk on worker death) and pickle: not verified, tied by this run"])


def replay(chk, path):
    doc = json.load(open(path))
    if "flat" in doc:
        print("model:", common.run_driver([doc["flat"]])[0], "recorded implementation:", doc.get("implementation"))
        return 0
    inp = doc.get("input") or {}
    if "records" in inp and "options" in inp:
        # pre_process_sequences: the batch again, in-process and with the recorded number of workers
        base = {"kind": "preproc", "cpus": None, "timeout": None, "batch": 0, "records": inp["records"],
                "opts": inp["options"], "class": "preproc"}
        ref = run_impl(dict(base, cfg=1))
        res = run_impl(dict(base, cfg=inp["workers"]))
        diff = first_difference(ref["dump"], res["dump"])
        print("in-process vs", inp["workers"], "workers:", "no difference" if diff is None else json.dumps(diff, default=str))
        ids_back = [f.get("id") for f in res["dump"]] if res["out"][0] == 0 else None
        checking = not (inp["options"].get("reuse") or inp["options"].get("skip_sanitisation"))
        unique = ids_back is None or not checking or len(set(ids_back)) == len(ids_back)
        print("ids returned with", inp["workers"], "workers:", ids_back, "- pairwise distinct" if unique else "- NOT pairwise distinct")
        return 0 if diff is None and unique else 1
    if inp.get("kind") == "cassis":
        inp["dirs"] = [tuple(d) for d in inp["dirs"]]
        res = run_impl(inp)
        expected = cassis_expected(inp)
        print("implementation:", [res["out"], res["made"]], "expected:", list(expected))
        return 0 if (res["out"], res["made"]) == expected else 1
    print("nothing to replay in", path)
    return 0
