"""C18: correspondence for antismash.common.subprocessing.base.parallel_function / parallel_execute.

The real functions are run with real multiprocessing pools (worker counts 1..16, batch sizes around the
worker count and around the chunking boundary 4*k, argument dependent sleeps that reverse/shuffle the
completion order, raising tasks at every position, timeouts shorter than the slowest task, dying worker
processes, secmet Records crossing the process boundary).  Each task travels to the Coq model as its
SEQUENTIAL outcome (computed in-process: digest of the returned value, or the exception kind); the model
(coq/C18/Model.v) evaluates parallel_function over its pool state machine under a schedule, which is an
argument: the schedule planned from the sleeps, the schedule reconstructed from the start/end time stamps
the workers left in shared memory, and random schedules (the proved theorems say the outcome does not
depend on it, the run checks it)."""
import concurrent.futures
import functools
import hashlib
import heapq
import json
import multiprocessing
import os
import random
import sys
import time

import common
from common import err_code

PROP = 18
FN_PF = 1        # parallel_function
FN_PE = 2        # parallel_execute
SPEC_OFFSET = 10

E_RUNTIME = common.ERR["RuntimeError"]
E_HANG = common.ERR["Timeout"]          # 11: never returned (cut by the harness alarm) = model's E_Fuel

CRASH = 100      # fault code: the worker process dies (os._exit) while running the task
FAULTS = {1: ValueError, 2: KeyError, 3: RuntimeError, 4: AssertionError, 5: IndexError, 6: TypeError,
          7: AttributeError}


class HarnessOnlyError(Exception):
    """ an exception class of the harness: maps to error kind 99 ("other") """


FAULTS[8] = HarnessOnlyError

KNOWN_HANG = "C18-K1"   # id in known_findings.json: a dying worker process without timeout hangs parallel_function

# ---------------------------------------------------------------- worker functions (module level: picklable)

_TRACE = None          # shared memory inherited by the forked pool workers: start, end, pid per task
_INPROC_PID = None     # pid of the process that calls parallel_function (the in-process reference runs there)


def _mark(i, slot, value):
    if _TRACE is not None and 0 <= i and 3 * i + 2 < len(_TRACE):
        _TRACE[3 * i + slot] = value


def result_value(i, x):
    """ results of different shapes and sizes, to exercise pickling across the process boundary """
    shape = x % 7
    if shape == 0:
        return (i, x * x)
    if shape == 1:
        return "r" * (x % 50) + str(i)
    if shape == 2:
        return {"index": i, "values": [x, x + 1, None], "nested": {"t": (i, "a")}}
    if shape == 3:
        return bytes([x % 251]) * (x * 700)        # up to some 100 kB through the result pipe
    if shape == 4:
        return None
    if shape == 5:
        return [frozenset([i, x, -1]), x / 7, True]
    return -x - i


def work(i, x, delay, fault):
    """ the generic task: sleeps, then returns a value, raises, or kills its own (worker) process """
    _mark(i, 0, time.monotonic())
    _mark(i, 2, float(os.getpid()))
    try:
        if delay:
            time.sleep(delay)
        if fault == CRASH:
            if os.getpid() != _INPROC_PID:
                os._exit(3)
        elif fault:
            raise FAULTS[fault](f"task {i}")
        return result_value(i, x)
    finally:
        _mark(i, 1, time.monotonic())


def identity(obj):
    return obj


def stub_genefinder(record, options):
    """ stands in for prodigal: deterministic genes derived from the record itself """
    from antismash.common.secmet.test.helpers import DummyCDS
    length = len(record.seq)
    pos = 3
    num = 0
    while pos + 30 <= length and num < 4:
        strand = 1 if num % 2 == 0 else -1
        record.add_cds_feature(DummyCDS(pos, pos + 30, strand=strand, locus_tag=f"gf_{record.id}_{num}"))
        pos += 45
        num += 1


# ---------------------------------------------------------------- canonical forms

def canon(obj):
    if isinstance(obj, (set, frozenset)):
        return ["set"] + sorted(repr(canon(o)) for o in obj)
    if isinstance(obj, dict):
        return ["dict"] + sorted((repr(canon(k)), canon(v)) for k, v in obj.items())
    if isinstance(obj, (list, tuple)):
        return [type(obj).__name__] + [canon(o) for o in obj]
    if isinstance(obj, float):
        return ["float", obj.hex()]
    return [type(obj).__name__, repr(obj)]


def digest(obj):
    return int.from_bytes(hashlib.md5(repr(obj).encode()).digest()[:6], "big")


def dump_record(rec):
    """ canonical content of a secmet Record (what the rest of antiSMASH can observe of it) """
    from antismash.common.secmet import Record
    if not isinstance(rec, Record):
        return ["not-a-record", repr(type(rec))]
    out = ["record", rec.id, rec.name, rec.description, str(rec.seq), rec.skip, rec.record_index, rec.original_id,
           sorted((k, repr(v)) for k, v in rec.annotations.items()), rec.is_circular(), rec.transl_table]
    feats = []
    for feature in rec.all_features:
        bio = feature.to_biopython()
        feats.append([feature.type, str(feature.location),
                      [[b.type, str(b.location), sorted((k, list(v) if isinstance(v, list) else v)
                                                        for k, v in b.qualifiers.items())] for b in bio]])
    out.append(feats)
    out.append([cds.get_name() for cds in rec.get_cds_features()])
    for group in (rec.get_protoclusters(), rec.get_candidate_clusters(), rec.get_regions()):
        items = []
        for coll in group:
            children = coll.cds_children
            entry = [str(coll.location), type(children).__name__, [c.get_name() for c in children]]
            for section in ("pre_origin", "cross_origin", "post_origin"):
                if hasattr(children, section):
                    entry.append([c.get_name() for c in getattr(children, section)])
            entry.append(sorted(c.get_name() for c in getattr(coll, "definition_cdses", [])))
            items.append(entry)
        out.append(items)
    # CDS -> region back links must survive
    out.append([[cds.get_name(), str(cds.region.location) if cds.region else None] for cds in rec.get_cds_features()])
    return out


def build_record(spec):
    """ a wrapping protocluster that the record refuses is dropped (deterministically, for both copies) """
    try:
        return _build_record(spec)
    except Exception:  # pylint: disable=broad-except
        return _build_record(dict(spec, protos=[]))


def _build_record(spec):
    """ spec: dict(id, seq, circular, cdses=[(start, end, strand)], protos=[(start, end, core_start, core_end)]) """
    from antismash.common.secmet.test.helpers import DummyRecord, DummyCDS, DummyProtocluster
    rec = DummyRecord(seq=spec["seq"], record_id=spec["id"], circular=spec["circular"])
    rec.record_index = spec["index"]
    for num, (start, end, strand) in enumerate(spec["cdses"]):
        rec.add_cds_feature(DummyCDS(start, end, strand=strand, locus_tag=f"{spec['id']}_c{num}"))
    for start, end, core_start, core_end in spec["protos"]:
        rec.add_protocluster(DummyProtocluster(start, end, core_start=core_start, core_end=core_end,
                                               record_length=len(spec["seq"])))
    if spec["protos"]:
        rec.create_candidate_clusters()
        rec.create_regions()
    if spec.get("touch"):
        # materialise the cached (sectioned) CDS tuples, so that they - and not only the dirty caches that would
        # rebuild them - cross the process boundary (_SectionedCDSTuple.__reduce__)
        for group in (rec.get_protoclusters(), rec.get_candidate_clusters(), rec.get_regions()):
            for coll in group:
                len(coll.cds_children)
        rec.get_cds_features()
    return rec


# ---------------------------------------------------------------- running one case on the implementation

def _config():
    from antismash.config import build_config, get_config
    try:
        if get_config().get("cpus"):
            return
    except Exception:  # pylint: disable=broad-except
        pass
    build_config([], isolated=True)


def _outcome(fn):
    try:
        return [0, fn()]
    except Exception as exc:  # pylint: disable=broad-except
        return [1, err_code(exc)]


def run_impl(spec):
    """ executed in a helper process: returns the sequential outcomes, the implementation's output and a trace """
    global _TRACE, _INPROC_PID
    common.setup_repo_path()
    _config()
    from antismash.config import update_config
    from antismash.common.subprocessing import base
    _INPROC_PID = os.getpid()
    update_config({"cpus": spec["cfg"]})
    cpus = spec["cpus"]           # None, 0, or an integer
    timeout = spec["timeout"]
    kind = spec["kind"]
    if kind == "work":
        tasks = spec["tasks"]
        _TRACE = None
        seq = [_outcome(lambda i=i, t=t: digest(canon(work(i, t[0], 0, t[2])))) for i, t in enumerate(tasks)]
        args = [[i, t[0], t[1], t[2]] for i, t in enumerate(tasks)]
        function = work
        to_digest = lambda r: digest(canon(r))
        _TRACE = multiprocessing.RawArray("d", 3 * max(1, len(tasks)))
    elif kind == "record":
        from antismash.common import record_processing
        if spec["fn"] == "identity":
            function = identity
        elif spec["fn"] == "sanitise":
            function = record_processing.sanitise_sequence
        else:
            update_config({"genefinding_tool": "prodigal", "genefinding_gff3": ""})
            function = functools.partial(record_processing.ensure_cds_info, stub_genefinder,
                                         genefinding_tool="prodigal", genefinding_gff3="", taxon="bacteria")
        seq = [_outcome(lambda s=s: digest(dump_record(function(build_record(s))))) for s in spec["records"]]
        args = [[build_record(s)] for s in spec["records"]]
        to_digest = lambda r: digest(dump_record(r))
        _TRACE = None
    elif kind == "exec":
        # parallel_execute: commands are real child processes; the sequential outcome is child_process(command)
        function = None
        seq = [_outcome(lambda c=c: base.child_process(list(c))) for c in spec["commands"]]
        args = [list(c) for c in spec["commands"]]
        to_digest = lambda r: r
        _TRACE = None
    else:
        raise ValueError(kind)

    def call():
        if kind == "exec":
            return base.parallel_execute(args, cpus=cpus, timeout=timeout, verbose=False)
        batch = (a for a in args) if spec.get("generator") else args
        return base.parallel_function(function, batch, cpus=cpus, timeout=timeout)

    t0 = time.monotonic()
    try:
        results = common.call_with_timeout(call, spec.get("alarm", 60))
        if not isinstance(results, list):
            out = [1, 98]     # not a list at all
        else:
            out = [0, len(results)] + [to_digest(r) for r in results]
    except common.Timeout:
        out = [1, E_HANG]
    except Exception as exc:  # pylint: disable=broad-except
        out = [1, err_code(exc)]
    t1 = time.monotonic()
    trace = list(_TRACE) if _TRACE is not None else None
    _TRACE = None
    return {"seq": seq, "out": out, "trace": trace, "t0": t0, "t1": t1}


# ---------------------------------------------------------------- CPython's chunking (harness side, for planning only)

def chunk_bounds(n, procs):
    if n == 0 or procs < 1:
        return []
    size, extra = divmod(n, procs * 4)
    if extra:
        size += 1
    return [(s, min(n, s + size)) for s in range(0, n, size)]


# ---------------------------------------------------------------- schedules

START, FINISH, CRASHED, TICK = 0, 1, 2, 3


def planned_schedule(procs, tasks, seq, tick=1.0, horizon=4):
    """ discrete event simulation of the pool with the planned sleeps: an idle worker takes the next chunk """
    bounds = chunk_bounds(len(tasks), procs)
    chunks = []
    for lo, hi in bounds:
        dur, crash = 0.0, False
        for i in range(lo, hi):
            dur += tasks[i][1]
            if tasks[i][2] == CRASH:
                crash = True
                break
            if seq[i][0] == 1:
                break
        chunks.append((dur, crash))
    events = []   # (time, order, kind, worker)
    order = 0
    heap = []
    nxt = 0
    for w in range(min(procs, len(chunks))):
        events.append((0.0, order, START, w)); order += 1
        heapq.heappush(heap, (chunks[nxt][0], order, w, nxt)); order += 1
        nxt += 1
    end = 0.0
    while heap:
        t, _o, w, c = heapq.heappop(heap)
        end = max(end, t)
        events.append((t, order, CRASHED if chunks[c][1] else FINISH, w)); order += 1
        if nxt < len(chunks):
            events.append((t, order, START, w)); order += 1
            heapq.heappush(heap, (t + chunks[nxt][0], order, w, nxt)); order += 1
            nxt += 1
    j = 1
    while j * tick <= end + horizon * tick:
        events.append((j * tick, -1, TICK, 0))   # a tick before anything else at the same instant
        j += 1
    events.sort(key=lambda e: (e[0], e[1]))
    return [(e[2], e[3]) for e in events]


def observed_schedule(procs, tasks, res, tick=1.0):
    """ schedule reconstructed from the time stamps the workers left in shared memory; None if unusable """
    trace = res["trace"]
    if trace is None:
        return None, None
    bounds = chunk_bounds(len(tasks), procs)
    pids = {}
    events = []
    completion = []
    started_chunks = [c for c, (lo, _hi) in enumerate(bounds) if trace[3 * lo] != 0.0]
    # the task queue is fifo: chunk c was taken before chunk c+1, whatever the (later, noisy) time stamps taken
    # inside the function say; the take time of a chunk is bounded by the start stamps of all later chunks
    take = {}
    best = float("inf")
    for c in reversed(started_chunks):
        best = min(best, trace[3 * bounds[c][0]])
        take[c] = best
    for c in started_chunks:
        lo, hi = bounds[c]
        pid = trace[3 * lo + 2]
        if pid not in pids:
            pids[pid] = len(pids)
        events.append((take[c], 1, c, START, pids[pid]))
        ended = [trace[3 * i + 1] for i in range(lo, hi) if trace[3 * i + 1] > 0.0]
        started = [i for i in range(lo, hi) if trace[3 * i] > 0.0]
        if ended and len(ended) == len(started):
            # the chunk is finished when its last started task ended and either it failed or all tasks ran
            last = started[-1]
            if last == hi - 1 or res["seq"][last][0] == 1:
                events.append((max(ended), 0, c, FINISH, pids[pid]))
                completion.append((max(ended), c))
    if len(pids) > procs:
        return None, None
    j = 1
    while res["t0"] + j * tick <= res["t1"]:
        events.append((res["t0"] + j * tick, 2, 0, TICK, 0))
        j += 1
    events.sort()
    return [(e[3], e[4]) for e in events], [c for _t, c in sorted(completion)]


def random_schedule(rng, procs, nchunks, max_ticks):
    """ a random complete schedule: random interleaving of starts and finishes, with no-op events mixed in """
    pending = nchunks
    busy = []
    idle = list(range(procs))
    events = []
    ticks = 0
    while pending or busy:
        r = rng.random()
        if r < 0.08:
            # events that make no sense in the current state: the model must ignore them
            choice = rng.randrange(4)
            if choice == 0:
                events.append((START, rng.choice([-1, procs, procs + 3])))
            elif choice == 1 and busy:
                events.append((START, rng.choice(busy)))
            elif choice == 2 and idle:
                events.append((rng.choice([FINISH, CRASHED]), rng.choice(idle)))
            elif not pending and idle:
                events.append((START, rng.choice(idle)))
            continue
        if r < 0.12 and ticks < max_ticks:
            events.append((TICK, 0)); ticks += 1
            continue
        can_start = pending and idle
        if can_start and (not busy or rng.random() < 0.55):
            w = idle.pop(rng.randrange(len(idle)))
            busy.append(w); pending -= 1
            events.append((START, w))
        elif busy:
            w = busy.pop(rng.randrange(len(busy)))
            idle.append(w)
            events.append((FINISH, w))
    return events


def lifo_schedule(procs, nchunks):
    """ all workers start, the LAST started finishes first (completion order reversed within every wave) """
    events = []
    pending = nchunks
    while pending:
        wave = min(procs, pending)
        events += [(START, w) for w in range(wave)]
        events += [(FINISH, w) for w in reversed(range(wave))]
        pending -= wave
    return events


# ---------------------------------------------------------------- encoding

def enc_case(fn, cfg, cpus, timeout_ticks, seq, schedule):
    flat = [PROP, fn, cfg, cpus or 0]
    flat += [0] if timeout_ticks is None else [1, timeout_ticks]
    flat += [len(seq)]
    for o in seq:
        flat += [o[0], o[1]]
    flat += [len(schedule)]
    for kind, w in schedule:
        flat += [kind, w]
    return flat


# ---------------------------------------------------------------- generation

def staggered(rng, n, mode, step):
    if mode == "none":
        return [0.0] * n
    if mode == "reverse":      # the first task is the slowest
        return [step * ((n - 1 - i) % 6) for i in range(n)]
    if mode == "sawtooth":
        return [step * ((n - i) % 4) for i in range(n)]
    return [step * rng.randrange(0, 5) for i in range(n)]


def gen_work_cases(rng, tier):
    """ yields case specs for the generic worker """
    specs = []
    thorough = tier == "thorough"
    ks = list(range(1, 17)) if thorough else [1, 2, 3, 4, 5, 8, 13, 16]
    reps = 6 if thorough else 2
    for k in ks:
        sizes = sorted({0, 1, max(0, k - 1), k, k + 1, 3 * k + 1, 4 * k, 4 * k + 1, 8 * k + 3})
        for n in sizes:
            for mode in (["none", "reverse", "sawtooth", "random"] if k > 1 else ["none"]):
                for _ in range(reps):
                    if n > 4 * k and mode != "none" and not thorough and rng.random() < 0.5:
                        continue
                    step = 0.012 if n <= 2 * k else 0.006
                    delays = staggered(rng, n, mode, step)
                    tasks = [[rng.randrange(0, 150), delays[i], 0] for i in range(n)]
                    # cpus given directly, or through the configuration (cpus None / 0)
                    r = rng.random()
                    cfg, cpus = (k, rng.choice([None, 0])) if r < 0.2 else (rng.choice([1, 2, 7]), k)
                    timeout = rng.choice([None, None, 60, 120])
                    specs.append({"kind": "work", "cfg": cfg, "cpus": cpus, "timeout": timeout, "tasks": tasks,
                                  "generator": rng.random() < 0.4, "class": "plain"})
    # a raising task at every position (single exception kind per case: the outcome is schedule independent)
    fault_ks = ks if thorough else [1, 2, 3, 8, 16]
    for k in fault_ks:
        for n in sorted({1, k, k + 1, 4 * k + 2}):
            positions = range(n) if (thorough or n <= 6) else sorted(set([0, n - 1] + rng.sample(range(n), 3)))
            for pos in positions:
                fault = rng.choice(sorted(FAULTS))
                delays = staggered(rng, n, rng.choice(["none", "reverse", "random"]) if k > 1 else "none", 0.006)
                tasks = [[rng.randrange(0, 150), delays[i], 0] for i in range(n)]
                tasks[pos][2] = fault
                extra = [p for p in range(n) if p != pos and rng.random() < 0.15]
                for p in extra:
                    tasks[p][2] = fault
                specs.append({"kind": "work", "cfg": 2, "cpus": k, "timeout": rng.choice([None, 60]), "tasks": tasks,
                              "generator": rng.random() < 0.3, "class": "fault"})
    # two different exception kinds, the one later in argument order completes first (by a wide margin)
    for k in ([2, 4, 16] if not thorough else [2, 3, 4, 8, 11, 16]):
        n = rng.randint(2, k)
        a, b = sorted(rng.sample(range(n), 2))
        fa, fb = rng.sample(sorted(FAULTS), 2)
        tasks = [[rng.randrange(0, 150), 0.0, 0] for _ in range(n)]
        tasks[a][1:] = [0.6, fa]
        tasks[b][1:] = [0.0, fb]
        specs.append({"kind": "work", "cfg": 2, "cpus": k, "timeout": None, "tasks": tasks, "generator": False,
                      "class": "mixed-fault"})
    # the same with one worker in-process: the first in argument order surfaces
    tasks = [[5, 0.0, 0], [6, 0.0, 3], [7, 0.0, 1]]
    specs.append({"kind": "work", "cfg": 1, "cpus": None, "timeout": None, "tasks": tasks, "generator": True,
                  "class": "mixed-fault"})
    # invalid worker counts
    for cpus, cfg in [(-1, 2), (-4, 1), (None, -2)]:
        specs.append({"kind": "work", "cfg": cfg, "cpus": cpus, "timeout": None,
                      "tasks": [[i, 0.0, 0] for i in range(rng.randint(0, 3))], "generator": False, "class": "bad-cpus"})
    # timeouts: one second, the slowest task sleeps three; everything else is done within a fraction
    for k in ([2, 5, 16] if not thorough else [2, 3, 4, 5, 7, 8, 12, 16] * 2):
        n = rng.choice([1, k, k + 1, 4 * k + 1])
        tasks = [[rng.randrange(0, 150), rng.choice([0.0, 0.01]), 0] for _ in range(n)]
        slow = rng.randrange(n)
        tasks[slow][1] = 3.0
        if rng.random() < 0.3 and n > 1:
            # a raising task does not hide the timeout: the result is only ready once every chunk is done
            other = rng.choice([p for p in range(n) if p != slow])
            if chunk_index(n, k, other) != chunk_index(n, k, slow):
                tasks[other][2] = 1
        specs.append({"kind": "work", "cfg": 2, "cpus": k, "timeout": 1, "tasks": tasks, "generator": False,
                      "class": "timeout"})
    # timeout 0: ready at once only for the empty batch
    specs.append({"kind": "work", "cfg": 2, "cpus": 3, "timeout": 0, "tasks": [], "generator": False, "class": "timeout"})
    specs.append({"kind": "work", "cfg": 2, "cpus": 3, "timeout": 0, "tasks": [[1, 0.3, 0], [2, 0.3, 0]],
                  "generator": False, "class": "timeout"})
    # the shortcut ignores the timeout
    specs.append({"kind": "work", "cfg": 1, "cpus": 1, "timeout": 0, "tasks": [[1, 0.01, 0], [2, 0.0, 0]],
                  "generator": False, "class": "timeout"})
    # a dying worker process: with a timeout it surfaces as RuntimeError, without one the call never returns
    for k, timeout in ([(2, 1), (3, None)] if not thorough else [(2, 1), (8, 1), (3, None), (16, None)]):
        n = k + 1
        tasks = [[i, 0.0, 0] for i in range(n)]
        tasks[rng.randrange(n)][2] = CRASH
        specs.append({"kind": "work", "cfg": 2, "cpus": k, "timeout": timeout, "tasks": tasks, "generator": False,
                      "class": "crash", "alarm": 4})
    return specs


def chunk_index(n, procs, i):
    for c, (lo, hi) in enumerate(chunk_bounds(n, procs)):
        if lo <= i < hi:
            return c
    return -1


def gen_record_spec(rng, index):
    length = rng.choice([0, 30, 90, 150, 240, 400])
    alphabet = rng.choice(["ACGT", "ACGTacgt", "ACGTN-", "ACGTRYKMacgtn-", "N-", "-"])
    seq = "".join(rng.choice(alphabet) for _ in range(length))
    circular = rng.random() < 0.4
    cdses, protos = [], []
    if length >= 90 and rng.random() < 0.7:
        pos = rng.randint(0, 10)
        while pos + 12 <= length and len(cdses) < 8:
            size = 3 * rng.randint(2, 12)
            if pos + size > length:
                break
            cdses.append((pos, pos + size, rng.choice([1, -1])))
            pos += size + rng.randint(-3, 20)
            pos = max(pos, cdses[-1][0] + 1)
        if circular and len(cdses) >= 3 and cdses[-1][0] - 1 > cdses[0][1] + 1 and rng.random() < 0.6:
            # an origin-crossing protocluster: from the last gene over the origin to the first one
            first, last = cdses[0], cdses[-1]
            protos.append((last[0] - 1, first[1] + 1, last[0], last[1]))
        elif cdses and rng.random() < 0.7:
            first, last = cdses[0], cdses[-1]
            core = rng.choice(cdses)
            protos.append((max(0, first[0] - 2), min(length, max(c[1] for c in cdses) + 2), core[0], core[1]))
    return {"id": f"rec{index}_{rng.randrange(1000)}", "seq": seq, "circular": circular, "cdses": cdses, "protos": protos,
            "index": index + 1, "touch": rng.random() < 0.75}


def gen_record_cases(rng, tier):
    specs = []
    thorough = tier == "thorough"
    for k in ([1, 2, 4, 16] if not thorough else [1, 2, 3, 4, 6, 8, 12, 16]):
        for fn in ("identity", "sanitise", "ensure"):
            for _ in range(2 if not thorough else 6):
                n = rng.choice([1, 2, k, k + 1, 2 * k + 1])
                records = [gen_record_spec(rng, i) for i in range(n)]
                if fn != "identity":
                    # the pre-processing functions see freshly parsed records: genes at most, no regions
                    for r in records:
                        r["protos"] = []
                        if fn == "ensure" and rng.random() < 0.6:
                            r["cdses"] = []
                specs.append({"kind": "record", "fn": fn, "cfg": rng.choice([k, 2]), "cpus": k, "timeout": None,
                              "records": records, "generator": rng.random() < 0.7, "class": "record-" + fn})
    return specs


def gen_exec_cases(rng, tier):
    """ parallel_execute with real child processes (sh -c 'sleep d; exit c') """
    specs = []
    for k in ([1, 2, 4] if tier == "quick" else [1, 2, 3, 4, 8, 16]):
        for n in sorted({0, 1, k + 1, 4 * k + 1}):
            commands = []
            for i in range(n):
                delay = 0.01 * ((n - i) % 3)
                commands.append(["sh", "-c", f"sleep {delay}; exit {rng.choice([0, 0, 1, 3, 7])}"])
            r = rng.random()
            cfg, cpus = (k, rng.choice([None, 0])) if r < 0.3 else (2, k)
            specs.append({"kind": "exec", "cfg": cfg, "cpus": cpus, "timeout": rng.choice([None, 60]),
                          "commands": commands, "class": "exec"})
    specs.append({"kind": "exec", "cfg": 2, "cpus": 2, "timeout": 1,
                  "commands": [["sh", "-c", "exit 0"], ["sh", "-c", "sleep 3"]], "class": "exec-timeout"})
    specs.append({"kind": "exec", "cfg": 2, "cpus": -2, "timeout": None, "commands": [["sh", "-c", "exit 0"]],
                  "class": "exec-bad-cpus"})
    specs.append({"kind": "exec", "cfg": 2, "cpus": 2, "timeout": None,
                  "commands": [["sh", "-c", "exit 0"], ["/nonexistent/binary_c18"]], "class": "exec-missing-binary"})
    return specs


RULE = ("real multiprocessing pools: worker counts 1..16 (quick: 1,2,3,4,5,8,13,16), given directly or through the configuration "
        "(cpus None/0), invalid counts; batch sizes 0,1,k-1,k,k+1,3k+1,4k,4k+1,8k+3 (below/at/above the worker count and the "
        "chunking boundary); argument dependent sleeps (none, reversed, sawtooth, random) so that completion order differs "
        "from argument order; result values of seven shapes up to 100 kB; a raising task (8 exception kinds) at every position; "
        "two kinds with the later one completing first; timeouts 0/1 s against 3 s tasks; dying worker processes; secmet Records "
        "(genes, protoclusters, regions, circular) through identity, sanitise_sequence and ensure_cds_info with a stub gene finder; "
        "parallel_execute with real child processes.  Every implementation run is compared with the model under the planned "
        "schedule, the schedule reconstructed from the workers' time stamps and random/LIFO schedules (where the outcome is "
        "schedule independent).  non-trivial = pool case (effective cpus > 1) with at least two chunks, or a raising/timeout/"
        "crash case; distinct by flat encoding (schedule included)")


def describe(flat):
    return {"function": {1: "parallel_function", 2: "parallel_execute"}.get(flat[1], flat[1]), "payload": flat[2:]}


def run(chk):
    if not chk.build_and_audit():
        return chk.finish(RULE)
    rng = chk.rng
    specs = gen_work_cases(rng, chk.tier) + gen_record_cases(rng, chk.tier) + gen_exec_cases(rng, chk.tier)
    known = {f["id"]: f for f in common.load_known_findings("C18") if f.get("status") == "known"}
    # the implementation runs in helper processes (non-daemonic, so that they may own pools), 4 at a time
    workers = 4
    ctx = multiprocessing.get_context("fork")
    with concurrent.futures.ProcessPoolExecutor(max_workers=workers, mp_context=ctx) as executor:
        results = list(executor.map(run_impl, specs, chunksize=1))
    cases, impl_outs, meta = [], [], []
    variants = 20 if chk.tier == "quick" else 30
    for spec, res in zip(specs, results):
        cls = spec["class"]
        kind = spec["kind"]
        fn = FN_PE if kind == "exec" else FN_PF
        eff = spec["cpus"] if spec["cpus"] else spec["cfg"]
        seq = res["seq"]
        n = len(seq)
        timeout = spec["timeout"]
        pool = eff > 1 or (kind == "exec" and eff >= 1)
        nchunks = len(chunk_bounds(n, eff)) if pool else 0
        if kind == "work":
            tasks = spec["tasks"]
        else:
            tasks = [[0, 0.0, 0] for _ in range(n)]
            if cls == "exec-timeout":
                tasks[1][1] = 3.0
        schedules = []
        if pool:
            schedules.append(("planned", planned_schedule(eff, tasks, seq)))
            obs, completion = observed_schedule(eff, tasks, res) if kind == "work" else (None, None)
            if obs is not None and cls != "crash":
                schedules.append(("observed", obs))
                if completion != sorted(completion):
                    chk.count("runs_with_completion_order_different_from_argument_order")
                chk.count("runs_with_observed_schedule")
            independent = cls in ("plain", "fault", "exec", "record-identity", "record-sanitise", "record-ensure",
                                  "exec-missing-binary")
            if independent:
                max_ticks = 0 if timeout is None else max(0, timeout - 1)
                schedules.append(("lifo", lifo_schedule(eff, nchunks)))
                for _ in range(variants):
                    schedules.append(("random", random_schedule(rng, eff, nchunks, min(max_ticks, 5))))
        else:
            schedules.append(("none", []))
            if eff == 1:
                schedules.append(("random", random_schedule(rng, 2, rng.randint(0, 3), 3)))
        out = res["out"]
        # known finding: a dying worker without timeout -> the call never returns
        if cls == "crash" and timeout is None and out == [1, E_HANG] and KNOWN_HANG in known:
            chk.known(known[KNOWN_HANG]["what_fails"])
        chk.count("class_" + cls)
        chk.count(f"workers_{eff}" if eff >= 1 else "workers_invalid")
        chk.count("batch_" + ("0" if n == 0 else "lt_k" if n < eff else "eq_k" if n == eff else "le_4k" if n <= 4 * eff
                              else "gt_4k"))
        if out[0] == 1:
            chk.count("impl_error_" + common.ERR_NAME.get(out[1], str(out[1])))
        for name, schedule in schedules:
            flat = enc_case(fn, spec["cfg"], spec["cpus"], timeout, seq, schedule)
            cases.append(flat)
            impl_outs.append(out)
            meta.append((spec, name))
            chk.count("schedule_" + name)
            nontrivial = (pool and nchunks >= 2) or cls in ("fault", "mixed-fault", "timeout", "crash", "exec-timeout")
            sample = None
            if len(chk.samples) < 6 and name == "planned" and nchunks >= 2:
                sample = {"class": cls, "cpus": spec["cpus"], "config_cpus": spec["cfg"], "timeout": timeout,
                          "batch": n, "sequential_outcomes": seq[:8], "implementation": out[:10], "schedule": schedule[:12]}
            chk.note_case(flat, nontrivial, sample)
    # the property itself, on every implementation output (decidable specification evaluated by the model)
    spec_cases = [[c[0], c[1] + SPEC_OFFSET] + c[2:] + o for c, o in zip(cases, impl_outs)]
    verdicts = common.run_driver(spec_cases)
    for i, verdict in enumerate(verdicts):
        if verdict != [1]:
            spec, name = meta[i]
            if spec["class"] == "crash" and spec["timeout"] is None and KNOWN_HANG in known and impl_outs[i] == [1, E_HANG]:
                continue      # recorded finding; the model transcribes the hang (compared below)
            chk.violation("counterexample", "parallel result differs from the sequential run "
                          f"({describe(cases[i])['function']}, class {spec['class']})",
                          {"theorem_or_correspondence": "C18_order / C18_failure_surfaces (spec_ok on the implementation's output)",
                           "flat": cases[i], "implementation": impl_outs[i], "input": {k: v for k, v in spec.items() if k != "records"},
                           "spec_verdict_on_implementation_output": verdict})
            break
    model_outs = common.correspondence(chk, cases, impl_outs, spec_fn_offset=SPEC_OFFSET, describe=describe)
    chk.crosscheck_vm(cases, model_outs)
    chk.extra["implementation_runs"] = len(specs)
    return chk.finish(RULE, trusted_extra=[
        "CPython multiprocessing.Pool semantics as recorded at the top of coq/C18/Model.v (chunking, fifo task queue, "
        "MapResult by chunk number, first failing chunk wins, lost chunk on worker death) and pickle: not verified, tied by this run"])


def replay(chk, path):
    doc = json.load(open(path))
    print("model:", common.run_driver([doc["flat"]])[0], "recorded implementation:", doc.get("implementation"))
    return 0
