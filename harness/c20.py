"""C20: a failed or refused write never damages existing results.

Correspondence for AntismashResults.write_to_file and dump_records under injected conversion faults (every
event position: the four per-record conversions, every module's to_json, every custom-object conversion
inside json.dumps, missing results, non-ModuleResults values; the values vary in type, truthiness, shape of
what to_json returns and kind of unencodable content, see RULE) with a pre-existing target file; for
prepare_output_directory on real temporary directories (entry classes x run mode x where the log file lives x
current directory); for the order of main._run_antismash (real function, real prepare_output_directory
and write_to_file, recorded collaborators with injected stage faults); and for the wrapper main.run_antismash
(function 5: refusal test, then the logging set-up, then _run_antismash), next to which a tree-snapshot probe
(outer_run_probe) watches refused directories, also when the output directory is derived from the input name."""
import fnmatch
import hashlib
import io
import json
import logging
import os
import shutil
import tempfile

import common
from common import err_code

PROP = 20
OLD = b"OLD CONTENT of a previous run {not json}\n"
E_INPUT = 12   # AntismashInputError: harness-local code (not in common.ERR, would otherwise be 99)

EXC = {1: ValueError, 2: AssertionError, 3: IndexError, 4: KeyError, 5: TypeError, 9: RuntimeError,
       10: AttributeError, 99: OSError}
FAULT_KINDS = [1, 4, 5, 9, 3, 10, 2, 99]
LATE_EXC = {3: ValueError, 4: KeyError, 5: TypeError, 6: RuntimeError}
# finding classes the model can attribute a spec failure to.  None at present: hidden_entry_ignored (FC20a),
# glob_metachar_dirname (FC20b), cwd_entry_taken_for_logfile (FC20c) and logfile_written_into_refused_directory
# (FC20d) are repaired in /repo, the model reports guard = 1 / class = 0 everywhere, nothing is suppressed, and
# their witnesses head the regression corpus (DIR_CORPUS, PIPELINE_CORPUS, OUTER_CORPUS and the first cases of
# outer_run_probe): if one of them comes back the check reports a counterexample.
FINDING_CLASSES = {}


def local_err_code(exc):
    if type(exc).__name__ == "AntismashInputError":
        return E_INPUT
    return err_code(exc)


# ------------------------------------------------------------------ part 1: write_to_file / dump_records

class Hooks:
    """ records every conversion event together with the state of the target at that moment """
    def __init__(self, path, sink):
        self.path = path
        self.sink = sink
        self.trace = []
        self.phase = "write"      # "pipeline" while _run_antismash is outside results.write_to_file

    def state(self):
        if self.sink is not None:
            return self.sink.state()
        return file_state(self.path)

    def event(self, code, i, j):
        self.trace.append((code, i, j, self.state()))


def file_state(path):
    if not os.path.exists(path):
        return 0
    with open(path, "rb") as handle:
        data = handle.read()
    if data == OLD:
        return 1
    if not data:
        return 2
    return 3


class Sink(io.StringIO):
    """ an already open file-like handle; 'old' = nothing written to it yet """
    def __init__(self):
        super().__init__()
        self.writes = 0

    def write(self, text):
        self.writes += 1
        return super().write(text)

    def state(self):
        if not self.writes:
            return 1
        return 3 if self.getvalue() else 2


class FullDeviceFile:
    """ what open(path, "w") returns on a device without space: the open itself succeeded (and truncated
        the file), every write raises OSError """
    def __init__(self, real):
        self.real = real

    def write(self, _text):
        self.real.close()
        raise OSError(28, "No space left on device")

    def close(self):
        self.real.close()

    def __enter__(self):
        return self

    def __exit__(self, *_args):
        self.real.close()
        return False

    def __getattr__(self, name):
        return getattr(self.real, name)


def full_device_open(path, mode="r", *args, **kwargs):
    real = open(path, mode, *args, **kwargs)  # pylint: disable=consider-using-with
    return FullDeviceFile(real) if "w" in mode else real


class Custom:
    """ a non-standard object inside a to_json payload: converted by _base_convertor during json.dumps """
    def __init__(self, hooks, code, i, j, val, late):
        self.hooks, self.code, self.i, self.j, self.val, self.late = hooks, code, i, j, val, late

    def to_json(self):
        self.hooks.event(self.code, self.i, self.j)
        if self.late == 1:
            return {"late": self.val}
        raise LATE_EXC[self.late]("injected fault inside json.dumps")


class Opaque:
    """ no conversion method at all """
    late = 2


# values orjson cannot encode and _base_convertor has no conversion for (late code 2), picked by the payload value
UNENCODABLE = [Opaque, lambda: {1, 2}, lambda: b"bytes", lambda: 2 ** 70, lambda: 1j, lambda: {(1, 2): 3}]


def late_object(hooks, code, i, j, val, late):
    if late == 2:
        return UNENCODABLE[val % len(UNENCODABLE)]()
    return Custom(hooks, code, i, j, val, late)


def find_late(value):
    """ the late code of the non-standard object somewhere inside a returned payload (0 = none) """
    if isinstance(value, (Custom, Opaque)):
        return value.late
    if isinstance(value, (set, bytes, complex)) or (isinstance(value, int) and abs(value) >= 2 ** 63):
        return 2
    if isinstance(value, dict):
        if any(not isinstance(key, str) for key in value):
            return 2
        return max([find_late(v) for v in value.values()], default=0)
    if isinstance(value, (list, tuple)):
        return max([find_late(v) for v in value], default=0)
    return 0


def find_text_late(value):
    """ the value a successfully converted custom object left in the text (-1 = there was none) """
    if isinstance(value, dict):
        if list(value) == ["late"]:
            return value["late"]
        return max([find_text_late(v) for v in value.values()], default=-1)
    if isinstance(value, list):
        return max([find_text_late(v) for v in value], default=-1)
    return -1


def shape_of(value):
    """ (shape code, visible payload value) of what a module's to_json returned / of what the text holds for it;
        99 = none of the shapes the fault modules return """
    if value is None:
        return 1, 0
    if isinstance(value, bool):
        return 99, 0
    if isinstance(value, int):
        return 3, value
    if isinstance(value, str):
        return (4, int(value[1:])) if value[:1] == "s" and value[1:].isdigit() else (99, 0)
    if isinstance(value, list):
        return (2, value[0]) if value and isinstance(value[0], int) else (99, 0)
    if isinstance(value, dict):
        if not value:
            return 7, 0
        if not isinstance(value.get("v"), int):
            return 99, 0
        if "n" in value:
            return 5, value["v"]
        if "t" in value:
            return 6, value["v"]
        return 0, value["v"]
    return 99, 0


def payload(shape, val, obj):
    """ what to_json returns: the payload value and (when there is one) the object json.dumps will meet """
    extra = [obj] if obj is not None else []
    if shape == 1:
        return None
    if shape == 2:
        return [val] + extra
    if shape == 3:
        return val
    if shape == 4:
        return f"s{val}"
    if shape == 5:
        return {"v": val, "n": {"x": [{"y": extra}, 1.5, None, "text"]}}
    if shape == 6:
        return {"v": val, "t": tuple(extra)}
    if shape == 7:
        return {}
    data = {"v": val}
    if extra:
        data["c"] = obj
    return data


HAS_SLOT = (0, 2, 5, 6)       # shapes that can hold an object
TRUTHY, FALSY = (0, 1, 4, 8), (2, 3, 7)     # ms_truth codes of custom objects


_classes = {}


def classes():
    """ the fault-injecting subclasses of the real Record / ModuleResults (built once, after the import) """
    if _classes:
        return _classes
    from antismash.common.module_results import ModuleResults
    from antismash.common.secmet import Record

    class BioProxy:
        """ stands for the SeqRecord handed to record_to_json: first attribute access = the conversion starts """
        def __init__(self, bio, callback):
            self.__dict__["_bio"] = bio
            self.__dict__["_callback"] = callback
            self.__dict__["_seen"] = False

        def __getattr__(self, name):
            if not self.__dict__["_seen"]:
                self.__dict__["_seen"] = True
                self.__dict__["_callback"]()
            return getattr(self.__dict__["_bio"], name)

    class FaultRecord(Record):
        def arm(self, hooks, index, spec):
            self._c20 = (hooks, index, spec)

        def _step(self, code, fault):
            hooks, index, _ = self._c20
            hooks.event(code, index, 0)
            if fault:
                raise EXC[fault]("injected fault")

        def to_biopython(self):
            spec = self._c20[2]
            self._step(1, spec[0])
            bio = super().to_biopython()
            return BioProxy(bio, lambda: self._step(2, spec[1]))

        def get_regions(self):
            if self._c20[0].phase == "pipeline":       # the "did detection find anything" test of _run_antismash
                return [object()] if self.pipeline_regions else []
            self._step(3, self._c20[2][2])
            return super().get_regions()

        def get_gc_content(self):
            self._step(4, self._c20[2][3])
            return super().get_gc_content()

    from antismash.modules.tta.tta import TTAResults

    class Armed:
        """ what every generated results object carries """
        def arm(self, hooks, i, j, spec):
            self.hooks, self.i, self.j, self.spec = hooks, i, j, spec
            return self

    class FaultMixin(Armed):
        def to_json(self):
            _kind, fault, val, late, _truth, shape, _tfault = self.spec
            self.hooks.event(5, self.i, self.j)
            if fault:
                raise EXC[fault]("injected fault")
            obj = late_object(self.hooks, 6, self.i, self.j, val, late) if late else None
            return payload(shape, val, obj)

    def truth_fault(self):
        raise EXC[self.spec[6]]("injected fault while evaluating truthiness")

    def truth_attrs(truth, faulty):
        """ the special methods that give bool(obj) the behaviour coded by ms_truth """
        if faulty:
            return {"__len__" if truth in (1, 2, 7, 8) else "__bool__": truth_fault}
        return {1: {"__len__": lambda self: 3}, 2: {"__len__": lambda self: 0},
                3: {"__bool__": lambda self: False},
                4: {"__bool__": lambda self: True, "__len__": lambda self: 0}}.get(truth, {})

    def module_class(kind, truth, faulty):
        """ kind 2: a subclass of ModuleResults (truth 7 / 8: of the real TTAResults, whose __len__ counts its
            features); kind 7: a look-alike with a to_json method that is no ModuleResults; kind 8: no to_json """
        key = ("class", kind, truth, faulty)
        if key not in _classes:
            if kind == 2:
                bases = (FaultMixin, TTAResults if truth in (7, 8) else ModuleResults)
            else:
                bases = (FaultMixin,) if kind == 7 else (Armed,)
            _classes[key] = type(f"Results_k{kind}_t{truth}{'_raising' if faulty else ''}", bases,
                                 truth_attrs(truth, faulty))
        return _classes[key]

    def make_value(hooks, i, j, spec):
        """ the value stored in the record's results dictionary """
        kind, _fault, val, _late, truth, _shape, tfault = spec
        falsy = truth in FALSY or truth == 5
        if kind == 0:
            return None
        if kind == 2:
            cls = module_class(2, truth, bool(tfault))
            if truth in (7, 8):
                obj = cls(f"r{i}", 0.7, 0.65)
                if truth == 8:
                    obj.features.append(object())
            else:
                obj = cls(f"r{i}")
            return obj.arm(hooks, i, j, spec)
        if kind in (7, 8):
            return module_class(kind, truth if truth in (1, 2, 3, 4) else 0, bool(tfault))().arm(hooks, i, j, spec)
        if kind == 11:
            return module_class(2, 0, False)        # the class itself instead of an instance
        builtin = {1: ({}, {"v": val}), 3: ([], [val]), 4: ("", "results"), 5: (0, val + 1), 6: (False, True),
                   9: ((), (val,)), 10: (0.0, 1.5)}
        return builtin.get(kind, builtin[1])[0 if falsy else 1]   # e.g. JSON of a previous run, never regenerated

    _classes.update(Record=FaultRecord, make_value=make_value)
    return _classes


class ErrorCounter(logging.Handler):
    def __init__(self):
        super().__init__(level=logging.ERROR)
        self.count = 0

    def emit(self, record):
        self.count += 1


def parse_text(text, top_level):
    """ canonical view of the written JSON text: [3, records...] or [4] when it is not what a complete
        conversion writes """
    try:
        doc = json.loads(text)
        records = doc["records"] if top_level else doc
        if top_level and [k for k in doc] != ["version", "input_file", "records", "timings", "taxon", "schema"]:
            return [4]
        out = [3, len(records)]
        for rec in records:
            out.append(int("original_id" in rec))
            mods = rec["modules"]
            out.append(len(mods))
            for key, mod in mods.items():
                out += [int(key[1:])] + list(shape_of(mod)) + [find_text_late(mod)]
        return out
    except Exception:  # pylint: disable=broad-except
        return [4]


def enc_returned(data):
    out = [len(data)]
    for rec in data:
        out.append(int("original_id" in rec))
        mods = rec["modules"]
        out.append(len(mods))
        for key, mod in mods.items():
            out += [int(key[1:])] + list(shape_of(mod)) + [find_late(mod)]
    return out


def build_objects(hooks, records, results):
    """ real Record / ModuleResults subclasses armed with the fault plan """
    cls = classes()
    recs = []
    for i, spec in enumerate(records):
        rec = cls["Record"]("ACGT" * 5)
        rec.id = rec.name = f"r{i}"
        if spec[4]:
            rec.original_id = f"original{i}"
        rec.arm(hooks, i, spec)
        recs.append(rec)
    res = []
    for i, mods in enumerate(results):
        entry = {}
        for j, spec in enumerate(mods):
            entry[f"m{j}"] = cls["make_value"](hooks, i, j, spec)
        res.append(entry)
    return recs, res


def impl_write(fn, hk, tl, records, results, workdir):
    """ runs the real write_to_file (fn 1) / dump_records (fn 2); returns the encoded outcome """
    from antismash.common import serialiser
    cls = classes()
    path = os.path.join(workdir, "missing_dir" if hk == 3 else "", "results.json")
    if os.path.exists(path):
        os.remove(path)
    if hk in (0, 2, 4, 5):
        with open(path, "wb") as handle:
            handle.write(OLD)
    sink = Sink() if hk == 2 else None
    hooks = Hooks(path, sink)
    recs, res = build_objects(hooks, records, results)
    timings = {"r0": {"some.module": late_object(hooks, 7, 0, 0, 0, tl) if tl else 1.5}}
    handle = {0: path, 1: path, 3: path, 2: sink, 4: None, 5: path}[hk]
    if hk == 5:
        serialiser.open = full_device_open      # the module's global name shadows the builtin
    counter = ErrorCounter()
    root = logging.getLogger()
    other_handlers, root.handlers = root.handlers, [counter]     # e.g. the stderr handler of logging.basicConfig
    logging.disable(logging.NOTSET)
    wrapped = 0
    try:
        if fn == 1:
            obj = serialiser.AntismashResults("input.gbk", recs, res, "v", timings=timings)
            obj.write_to_file(handle)
            out = [0]
        else:
            data = serialiser.dump_records(res, recs, handle)
            out = [0] + enc_returned(data)
    except Exception as exc:  # pylint: disable=broad-except
        out = [1, err_code(exc)]
        wrapped = int(isinstance(exc, TypeError) and str(exc).startswith("Failed to convert JSON results"))
    finally:
        logging.disable(logging.CRITICAL)
        root.handlers = other_handlers
        if hk == 5:
            del serialiser.open
    del recs, res
    # the target afterwards
    if hk == 2:
        content = [1] if not sink.writes else (parse_text(sink.getvalue(), fn == 1) if sink.getvalue() else [2])
    else:
        state = file_state(path)
        if state == 3:
            with open(path, "rb") as fh:
                content = parse_text(fh.read(), fn == 1)
        else:
            content = [state]
    out += [wrapped] + content + [counter.count, len(hooks.trace)]
    for event in hooks.trace:
        out += list(event)
    observed = [out[0], content[0], len(hooks.trace)] + [e[3] for e in hooks.trace]
    return out, observed


def enc_write_input(hk, tl, records, results):
    flat = [hk, tl, len(records)]
    for spec in records:
        flat += list(spec)
    flat.append(len(results))
    for mods in results:
        flat.append(len(mods))
        for spec in mods:
            flat += list(spec)
    return flat


def positions(records, results):
    """ all fault positions of a fault-free plan: ('r', i, k) record step k, ('m', i, j) to_json,
        ('l', i, j) late conversion, ('k', i, j) wrong type, ('b', i, j) truthiness raising, ('t',) timings,
        ('s',) results too short """
    pos = [("t",)]
    if records:
        pos.append(("s",))
    for i in range(min(len(records), len(results))):
        pos += [("r", i, k) for k in range(4)]
        for j, spec in enumerate(results[i]):
            if spec[0] == 2:
                pos += [("m", i, j), ("l", i, j), ("b", i, j)]
            pos.append(("k", i, j))
    return pos


INVALID_KINDS = [1, 3, 4, 5, 6, 7, 8, 9, 10, 11]     # values that are neither None nor a ModuleResults
BUILTIN_KINDS = (1, 3, 4, 5, 6, 9, 10)
LATE_FAULTS = [2, 2, 3, 4, 5, 6]


def with_truth(spec, falsy, rng):
    """ the module spec with a truthiness of the wanted polarity that its kind can have """
    spec = list(spec)
    kind = spec[0]
    if kind in BUILTIN_KINDS:
        spec[4] = 5 if falsy else 6
    elif kind == 11 or kind == 0:
        spec[4] = 0 if kind == 11 else 5
    elif kind == 2:
        spec[4] = rng.choice(FALSY if falsy else TRUTHY)
    else:
        spec[4] = rng.choice((2, 3) if falsy else (0, 1, 4))
    return spec


def apply_fault(records, results, tl, pos, kind, rng, falsy=None, variant=None):
    """ falsy: make the value at the fault position falsy (True), truthy (False) or either (None);
        variant: the late code / the invalid kind / the truthiness code to use (None = random) """
    records = [list(r) for r in records]
    results = [[list(m) for m in mods] for mods in results]
    if falsy is None:
        falsy = rng.random() < 0.5
    if pos[0] == "t":
        tl = rng.choice([2, 3, 4, 5, 6])
    elif pos[0] == "s":
        results = results[:rng.randrange(len(records))]
    elif pos[0] == "r":
        records[pos[1]][pos[2]] = kind
    else:
        spec = results[pos[1]][pos[2]]
        if pos[0] == "m":
            spec[1] = kind
        elif pos[0] == "l":
            spec[3] = variant if variant is not None else rng.choice(LATE_FAULTS)
            if spec[5] not in HAS_SLOT:
                spec[5] = rng.choice(HAS_SLOT)
        elif pos[0] == "b":
            spec[6] = kind
            spec[4] = variant if variant is not None else rng.choice([0, 1, 2, 3, 7])
        else:
            spec[0] = variant if variant is not None else rng.choice(INVALID_KINDS)
            if spec[0] in BUILTIN_KINDS or spec[0] == 11:
                spec[6] = 0          # bool() of a builtin value cannot raise
        if pos[0] != "b":
            spec = with_truth(spec, falsy, rng)
        results[pos[1]][pos[2]] = spec
    return [tuple(r) for r in records], [[tuple(m) for m in mods] for mods in results], tl


def clean_module(rng, kind=None, plain=False):
    """ a module result that converts: kind 0 (None) or 2, any truthiness, any shape of returned value """
    if kind is None:
        kind = 0 if rng.random() < 0.15 else 2
    if kind == 0:
        return (0, 0, 0, 0, 5, 0, 0)
    shape = 0 if plain or rng.random() < 0.6 else rng.randrange(8)
    late = rng.choice([0, 0, 0, 1]) if shape in HAS_SLOT else 0
    truth = 0 if plain else rng.choice([0, 0, 0, 1, 2, 3, 4, 7, 8])
    return (2, 0, rng.randrange(1000), late, truth, shape, 0)


def clean_plan(rng, nrec, nmods, plain=False):
    records = [(0, 0, 0, 0, int(rng.random() < 0.3)) for _ in range(nrec)]
    results = []
    for _ in range(nrec):
        count = nmods if nmods is not None else rng.choice([0, 1, 1, 2, 2, 3, 4])
        results.append([clean_module(rng, 2 if nmods is not None else None, plain) for _ in range(count)])
    if nmods is None and rng.random() < 0.1:
        # surplus results are never looked at
        results.append([(2, rng.choice([0, 1]), 7, rng.choice([0, 2]), rng.choice([0, 2]), 0, rng.choice([0, 0, 1]))])
    return records, results


def gen_write_cases(chk, budget):
    """ (fn, hk, tl, records, results) """
    rng = chk.rng
    out = []
    # systematic: every position of every grid up to the tier's bound, every fault kind; every fault of a module
    # value with a truthy AND with every kind of falsy value (a failing result stays a failing result when it is
    # empty); every falsy but convertible result with every shape of returned value (it must be written)
    max_rec, max_mod = (2, 3) if chk.tier == "quick" else (3, 4)
    kinds = FAULT_KINDS[:4] if chk.tier == "quick" else FAULT_KINDS
    n_falsy = 0
    for nrec in range(0, max_rec + 1):
        for nmod in range(0, max_mod + 1):
            records, results = clean_plan(rng, nrec, nmod, plain=True)
            for fn in (1, 2):
                out.append((fn, 0, 0, records, results))
                out.append((fn, 5, 0, records, results))        # I/O failure after truncation, no conversion fault
                for pos in positions(records, results):
                    if pos[0] in "ts":
                        plan = apply_fault(records, results, 0, pos, kinds[0], rng)
                        out.append((fn, 0, plan[2], plan[0], plan[1]))
                        continue
                    if pos[0] == "r":
                        for kind in kinds:
                            plan = apply_fault(records, results, 0, pos, kind, rng)
                            out.append((fn, 0, plan[2], plan[0], plan[1]))
                        continue
                    i, j = pos[1], pos[2]
                    variants = {"m": [None], "l": sorted(set(LATE_FAULTS)), "k": INVALID_KINDS,
                                "b": [0, 1, 2, 3, 4, 7, 8]}[pos[0]]
                    for variant in variants:
                        for kind in (kinds if pos[0] == "m" else [rng.choice(kinds)]):
                            for truth in ([None] if pos[0] == "b" else [0, 1, 4, 8, 2, 3, 7]):
                                plan = apply_fault(records, results, 0, pos, kind, rng, falsy=False, variant=variant)
                                spec = list(plan[1][i][j])
                                if truth is not None:
                                    if spec[0] == 11:
                                        if truth:
                                            continue
                                    elif spec[0] in BUILTIN_KINDS:
                                        if truth not in (0, 2):
                                            continue
                                        spec[4] = 5 if truth else 6
                                    elif spec[0] != 2 and truth in (7, 8):
                                        continue
                                    else:
                                        spec[4] = truth
                                    if pos[0] == "l":
                                        spec[5] = rng.choice(HAS_SLOT)
                                        spec[2] = rng.randrange(1000)      # picks the kind of unencodable value
                                plan[1][i][j] = tuple(spec)
                                n_falsy += spec[4] in FALSY or spec[4] == 5
                                out.append((fn, rng.choice([0, 0, 0, 2]), plan[2], plan[0], plan[1]))
                    if pos[0] == "m":
                        # no fault at all: a falsy / truthy result, every shape of returned value
                        for truth in FALSY + TRUTHY:
                            for shape in range(8):
                                late = rng.choice([0, 1]) if shape in HAS_SLOT else 0
                                mods = [list(mods) for mods in results]
                                mods[i][j] = (2, 0, rng.randrange(1000), late, truth, shape, 0)
                                n_falsy += truth in FALSY
                                out.append((fn, rng.choice([0, 0, 2, 4] if fn == 2 else [0, 0, 2]), 0, records, mods))
    chk.count("write_systematic_cases", len(out))
    chk.count("write_systematic_cases_with_a_falsy_value_at_the_position", n_falsy)
    while len(out) < budget:
        fn = rng.choice([1, 1, 2])
        nrec = rng.choice([0, 1, 1, 2, 2, 3, 3, 4, 5])
        records, results = clean_plan(rng, nrec, None)
        tl = 1 if rng.random() < 0.1 else 0
        r = rng.random()
        nfaults = 0 if r < 0.2 else (1 if r < 0.8 else rng.choice([2, 3]))
        for _ in range(nfaults):
            pos = positions(records, results)
            records, results, tl = apply_fault(records, results, tl, rng.choice(pos), rng.choice(FAULT_KINDS), rng)
        hks = [0, 0, 0, 0, 1, 2, 3, 5] + ([4, 4] if fn == 2 else [])
        out.append((fn, rng.choice(hks), tl, records, results))
    return out


RESULTS_LEGEND = ("results [kind 0 None / 2 ModuleResults subclass / 1 dict 3 list 4 str 5 int 6 bool 7 look-alike with "
                  "to_json 8 plain object 9 tuple 10 float 11 the class itself, to_json fault, value, object met by "
                  "json.dumps (2 = unencodable, 3.. = its to_json raises), truthiness (0 plain object, 1 __len__>0, "
                  "2 __len__==0, 3 __bool__ False, 4 __bool__ True with __len__==0, 5 empty builtin, 6 non-empty "
                  "builtin, 7 real TTAResults without features, 8 with a feature), shape returned by to_json (0 dict, "
                  "1 None, 2 list, 3 int, 4 str, 5 nested three deep, 6 tuple inside, 7 {}), fault of bool(value)]")


def describe_write(fn, hk, tl, records, results):
    return {"function": {1: "AntismashResults.write_to_file", 2: "dump_records"}[fn],
            "handle": {0: "path of an existing file", 1: "path of a new file", 2: "open file-like object",
                       3: "path in a missing directory", 4: "None",
                       5: "path of an existing file; open succeeds, write raises OSError (no space left)"}[hk],
            "timings_object": tl,
            "records [fault to_biopython, record_to_json, gather_record_areas, get_gc_content, original_id]": records,
            RESULTS_LEGEND: results}


# ------------------------------------------------------------------ part 2: prepare_output_directory

ENTRY_MAKERS = {
    "file": lambda k: (f"file{k}.txt", False), "dir": lambda k: (f"dir{k}", True),
    "input_dir": lambda k: ("input", True), "input_file": lambda k: ("input", False),
    "log": lambda k: ("run.log", False), "region": lambda k: (f"rec{k}.region00{k % 10}.gbk", False),
    "region_dir": lambda k: (f"d{k}.region001.gbk", True), "hidden": lambda k: (f".hidden{k}", False),
    "hidden_region": lambda k: (f".h{k}.region001.gbk", False), "hidden_dir": lambda k: (".git", True),
    "xinput": lambda k: ("myinput", True), "json": lambda k: ("in.json", False),
    "log_region": lambda k: ("log.region001.gbk", False), "gbk": lambda k: (f"rec{k}.gbk", False),
    "logdir": lambda k: ("run.log", True),
}
# where the log file lives -> directory identifier of the model (apath.p_dir): directly in the output
# directory, in its parent, in a sub-directory of it, in an unrelated directory
LOG_WHERE = {"inside": 0, "parent": 1, "sub": 2, "logs": 3}
# the current directory -> (directory it lies in, per the model)
CWD_DIR = {"default": 9, "base": 5, "outdir": 1, "entry": 0}
N_SPELLINGS = 5


def tree_digest(path):
    if os.path.isdir(path):
        parts = []
        for root, dirs, files in sorted(os.walk(path)):
            parts.append((os.path.relpath(root, path), sorted(dirs), sorted(files)))
            for name in sorted(files):
                with open(os.path.join(root, name), "rb") as handle:
                    parts.append(handle.read())
        return hashlib.md5(repr(parts).encode()).hexdigest()
    with open(path, "rb") as handle:
        return hashlib.md5(handle.read()).hexdigest()


def spell(path, spelling, cwd):
    """ different spellings of the same path: os.path.abspath must see through all of them """
    head, tail = os.path.split(path)
    if spelling == 1:
        return head + "/./" + tail
    if spelling == 2:
        return os.path.join(head, "..", os.path.basename(head), tail)
    if spelling == 3:
        return os.path.relpath(path, cwd)
    if spelling == 4:
        return head + "//" + tail
    return path


def impl_prepare(kind, reuse, dmeta, classes_, logspec, cwdspec, relname, base):
    """ builds the directory from entry classes, calls the real prepare_output_directory,
        returns (flat input, output, observed, description) """
    specs = [ENTRY_MAKERS[cls](k) for k, cls in enumerate(classes_)]
    if logspec and isinstance(logspec[1], int):        # the log file is named like the entry with that index
        logspec = (logspec[0], specs[logspec[1] % len(specs)][0] if specs else "run.log", logspec[2])
    return impl_prepare_specs(kind, reuse, dmeta, specs, logspec, (cwdspec, None), relname, base)


def impl_prepare_specs(kind, reuse, dmeta, specs, logspec, cwdspec, relname, base, action=None, json_name=None,
                       outer=False):
    """ specs: (entry name, is directory); logspec: None (config.logfile == "") or (where, base name, spelling
        [, absent]); cwdspec: (kind of current directory, entry name or None); relname: the output directory is
        given relative to the current directory.  Everything the model is told (where the log file lives, which
        entry has its name, where the current directory is) is known BY CONSTRUCTION, nothing is computed
        with the path functions the code under test uses.
        absent (outer-run probe only): nothing is prepared for the log file - it does not exist yet, and for
        "newsub" neither does its directory.  outer: the call goes through run_antismash, whose logging set-up
        appends to the log file: an entry that IS the log file is reported by its index even if it has grown """
    from antismash import main
    from antismash.config import update_config
    for old in os.listdir(base):
        full = os.path.join(base, old)
        shutil.rmtree(full) if os.path.isdir(full) else os.remove(full)
    name = os.path.join(base, "out[1]" if dmeta else "out")
    names = []
    if kind == 2:
        with open(name, "w") as handle:
            handle.write("a file")
    elif kind == 1:
        os.mkdir(name)
        for k, (entry, isdir) in enumerate(specs):
            full = os.path.join(name, entry)
            if os.path.exists(full):
                continue
            if isdir:
                os.mkdir(full)
                with open(os.path.join(full, "inner.txt"), "w") as handle:
                    handle.write(f"inner {k}")
            elif entry == json_name:
                with open(full, "wb") as handle:
                    handle.write(OLD)                 # the results of the previous run
            else:
                with open(full, "w") as handle:
                    handle.write(f"content {k}")
        names = os.listdir(name)     # scandir order = the order os.listdir and glob yield
    isdir_of = {entry: os.path.isdir(os.path.join(name, entry)) for entry in names}
    subdirs = [entry for entry in names if isdir_of[entry]]
    # the current directory
    cwd_kind, cwd_entry = cwdspec
    if cwd_kind == "entry" and cwd_entry is None:
        cwd_entry = subdirs[0] if subdirs else None
    if cwd_kind == "entry" and (cwd_entry not in subdirs):
        cwd_kind = "default"
    if cwd_kind == "outdir" and kind != 1:
        cwd_kind = "default"
    original_cwd = os.getcwd()
    cwd = {"default": original_cwd, "base": base, "outdir": name,
           "entry": os.path.join(name, cwd_entry or "")}[cwd_kind]
    # the log file
    logfile = ""
    log_where = None
    if logspec:
        log_where, logname, spelling = logspec[:3]
        log_absent = len(logspec) > 3 and bool(logspec[3])
        if log_where == "sub" and not subdirs:
            log_where = "logs"
        if log_where != "inside" or kind == 1:
            logdir = {"inside": name, "parent": base, "logs": os.path.join(base, "logs"),
                      "sub": os.path.join(name, subdirs[0]) if subdirs else "",
                      "newsub": os.path.join(name, "newsub")}[log_where]
            if not (log_absent and log_where == "newsub"):
                os.makedirs(logdir, exist_ok=True)
            logpath = os.path.join(logdir, logname)
            if log_where != "inside" and not os.path.exists(logpath) and not log_absent:
                with open(logpath, "w") as handle:
                    handle.write("the real log file")
            logfile = spell(logpath, spelling, cwd)
        else:
            logfile = spell(os.path.join(name, logname), spelling, cwd)
    entries = []
    digests = {}
    for index, entry in enumerate(names):
        full = os.path.join(name, entry)
        attrs = (index, int(not entry.startswith(".")), int(entry == "input"), int(isdir_of[entry]),
                 int(fnmatch.fnmatchcase(entry, "*.region???.gbk")))
        entries.append(attrs)
        digests[entry] = tree_digest(full)
    fresh = len(names)
    if logspec:
        env = [1, LOG_WHERE.get(log_where, 2), names.index(logname) if logname in names else fresh]   # "newsub": 2
    else:
        env = [0, 9, fresh]
    env += [CWD_DIR[cwd_kind], names.index(cwd_entry) if cwd_kind == "entry" else fresh + 1]
    # the name the code is given (listed with os.listdir, escaped for the region glob): "." and ".." contain
    # no metacharacters
    dmeta = dmeta and not (relname and cwd_kind in ("outdir", "entry"))
    flat = env + [kind, int(reuse), int(dmeta), len(entries)]
    for attrs in entries:
        flat += list(attrs)
    given_name = name
    try:
        os.chdir(cwd)
        if relname:
            given_name = os.path.relpath(name, cwd)
        update_config({"logfile": logfile, "output_basename": "", "output_dir": given_name})
        tail = []
        if action is not None:
            out, tail = action(given_name, os.path.join(name, json_name))
        else:
            try:
                main.prepare_output_directory(given_name, "/data/in.json" if reuse else "/data/in.gbk")
                out = [0]
            except Exception as exc:  # pylint: disable=broad-except
                out = [1, local_err_code(exc)]
    finally:
        os.chdir(original_cwd)
    after_kind = 0 if not os.path.exists(name) else (1 if os.path.isdir(name) else 2)
    after = []
    if after_kind == 1:
        index = {entry: i for i, entry in enumerate(names)}
        for entry in os.listdir(name):
            if entry == json_name:                    # the JSON target is observed by its state, not here
                if entry in index:
                    after.append(index[entry])
            elif entry not in index:
                after.append(-1)
            elif outer and log_where == "inside" and entry == logname and not isdir_of[entry]:
                after.append(index[entry])            # its own log file: it may have grown
            elif tree_digest(os.path.join(name, entry)) != digests[entry]:
                after.append(index[entry] + 1000)
            else:
                after.append(index[entry])
        after.sort()
    observed = [int(out == [0, 0]) if action is not None else out[0], after_kind, len(after)] + after + tail[:1]
    if action is not None:
        observed += [(len(tail) - 3) // 4]
        for k in range(3, len(tail), 4):
            observed += [tail[k], tail[k + 3]]
        flat += [0 if json_name in names else 1]
    out += [after_kind, len(after)] + after + tail
    description = {"entries (listing order)": names, "config.logfile": logfile,
                   "log file lives": log_where or "no --logfile",
                   "current directory": cwd_kind + (f" ({cwd_entry})" if cwd_kind == "entry" else ""),
                   "output directory given as": given_name if relname else "absolute path"}
    return flat, out, observed, description


# regression corpus, run first: the witnesses of the repaired defects (known_findings.json, status fixed)
DIR_CORPUS = [
    # FC20a hidden_entry_ignored: only a dot file / only .git/ / input/ and a dot file, fresh run -> refused
    (1, False, False, ["hidden"], None, "default", False),
    (1, False, False, ["hidden_dir"], None, "default", False),
    (1, False, False, ["input_dir", "hidden"], None, "default", False),
    (1, False, False, ["hidden"], ("inside", "run.log", 0), "default", False),
    # FC20b glob_metachar_dirname: out[1]/file0.txt, fresh run -> refused; reuse mode -> stale region file removed
    (1, False, True, ["file"], None, "default", False),
    (1, True, True, ["region", "file"], None, "default", False),
    (1, True, True, ["region", "hidden_region", "region_dir"], None, "default", False),
    # FC20c cwd_entry_taken_for_logfile: out/dir0/ only, started from inside it, no --logfile -> refused
    (1, False, False, ["dir"], None, "entry", True),
    (1, False, False, ["dir"], None, "entry", False),
    (1, False, False, ["input_dir", "dir"], None, "entry", True),
    (1, False, False, ["logdir"], None, "entry", True),
]


def gen_dir_cases(chk, budget):
    """ (kind, reuse, dmeta, entry classes, logspec, cwdspec, relname) """
    rng = chk.rng
    pool = list(ENTRY_MAKERS)
    cases = list(DIR_CORPUS)
    chk.count("dir_corpus_cases", len(cases))
    # the matrix: every single entry class and every pair with the benign ones, both modes; the log file
    # (named run.log) inside the output directory, as before
    inside = ("inside", "run.log", 0)
    for reuse in (False, True):
        for dmeta in (False, True):
            cases.append((1, reuse, dmeta, [], None, "default", False))
            for cls in pool:
                cases.append((1, reuse, dmeta, [cls], inside, "default", False))
                for other in ("input_dir", "log", "region", "hidden"):
                    if other != cls:
                        cases.append((1, reuse, dmeta, [other, cls], inside, "default", False))
        cases.append((0, reuse, False, [], None, "default", False))
        cases.append((2, reuse, False, [], None, "default", False))
    # where the log file lives x what carries its name x how it is spelled
    for reuse in (False, True):
        for classes_ in (["log"], ["logdir"], ["input_dir", "log"], ["input_dir", "logdir"], ["log", "file"],
                         ["dir", "log"], ["dir", "logdir"], ["log_region"], ["input_dir"], ["dir"], ["file"], []):
            lognames = ["run.log", "absent.log"] + (["log.region001.gbk"] if "log_region" in classes_ else []) \
                + ([0] if classes_ and classes_[0] not in ("log", "logdir", "log_region") else [])
            for where in LOG_WHERE:
                for logname in lognames:
                    for spelling in range(N_SPELLINGS):
                        cases.append((1, reuse, False, classes_, (where, logname, spelling), "default", False))
            cases.append((1, reuse, False, classes_, None, "default", False))          # no --logfile at all
            # the current directory: inside the output directory, the output directory itself, its parent
            for cwdspec in ("entry", "outdir", "base"):
                for relname in (False, True):
                    for logspec in (None, inside, ("logs", "run.log", 0), ("parent", "run.log", 3)):
                        cases.append((1, reuse, False, classes_, logspec, cwdspec, relname))
    chk.count("dir_matrix_cases", len(cases) - len(DIR_CORPUS))
    lognames = ["run.log", "run.log", "absent.log", "log.region001.gbk", "input", 0, 1, 2]
    while len(cases) < budget:
        r = rng.random()
        kind = 1 if r < 0.9 else (0 if r < 0.95 else 2)
        n = rng.choice([0, 1, 1, 2, 2, 3, 3, 4, 5, 6])
        weights = rng.choice([pool, ["input_dir", "log", "region", "hidden", "hidden_region", "region_dir", "logdir"],
                              ["input_dir", "log", "hidden", "hidden_dir"], ["input_dir", "log", "logdir", "dir"]])
        logspec = None
        if rng.random() < 0.75:
            logspec = (rng.choice(["inside", "inside", "parent", "logs", "logs", "sub"]), rng.choice(lognames),
                       rng.randrange(N_SPELLINGS))
        cwdspec = rng.choice(["default"] * 5 + ["entry", "entry", "outdir", "base"])
        cases.append((kind, rng.random() < 0.45, rng.random() < 0.1,
                      [rng.choice(weights) for _ in range(n)] if kind == 1 else [], logspec, cwdspec,
                      cwdspec != "default" and rng.random() < 0.5))
    return cases


# ------------------------------------------------------------------ part 3: _run_antismash

JSON_NAME = "in.json"       # canonical_base_filename of the inputs used below + ".json"
STAGES = ["prereq", "read", "pre", "annotate", "outputs"]
_pipeline = {}


class FakeProfile:
    def enable(self):
        pass

    def disable(self):
        pass


class PipelinePatches:
    """ replaces the collaborators of main._run_antismash by recorders that follow the plan; the function
        itself, prepare_output_directory and AntismashResults.write_to_file are the real ones """
    def __init__(self, plan, hooks, results_obj):
        self.plan, self.hooks, self.results_obj = plan, hooks, results_obj
        self.saved = []

    def step(self, code, i, fault):
        self.hooks.event(code, i, 0)
        if fault:
            raise EXC[fault]("injected fault")

    def index(self, record):
        return int(record.id[1:])

    def __enter__(self):
        import types
        from antismash import main
        plan = self.plan

        def verify_options(_options, _modules):
            self.hooks.event(21, 0, 0)
            return bool(plan["verify"])

        def read_data(_sequence_file, _options):
            self.step(22, 0, plan["read"])
            return self.results_obj

        def pre_process_sequences(records, _options, _genefinding):
            self.step(24, 0, plan["pre"])
            return records

        def run_detection(record, _options, _module_results):
            self.step(25, self.index(record), plan["recs"][self.index(record)][1])
            return {}

        def analyse_record(record, _options, _modules, _module_results):
            self.step(26, self.index(record), plan["recs"][self.index(record)][3])
            return {}

        real_prepare = main.prepare_output_directory

        def prepare_output_directory(name, input_file):      # observed, then the real one
            self.hooks.event(23, 0, 0)
            return real_prepare(name, input_file)

        patches = [
            (main, "prepare_output_directory", prepare_output_directory),
            (main, "_log_found_executables", lambda _options: None),
            (main, "check_prerequisites", lambda _modules, _options: self.step(20, 0, plan["prereq"])),
            (main, "verify_options", verify_options),
            (main, "read_data", read_data),
            (main.record_processing, "pre_process_sequences", pre_process_sequences),
            (main, "run_detection", run_detection),
            (main, "analyse_record", analyse_record),
            (main, "annotate_records", lambda _results: self.step(28, 0, plan["annotate"])),
            (main, "write_outputs", lambda _results, _options: self.step(29, 0, plan["outputs"])),
            (main, "write_profiling_results", lambda _profiler, _target: self.hooks.event(30, 0, 0)),
            (main, "cProfile", types.SimpleNamespace(Profile=FakeProfile)),
        ]
        for module, name, replacement in patches:
            self.saved.append((module, name, getattr(module, name)))
            setattr(module, name, replacement)
        return self

    def __exit__(self, *_args):
        for module, name, original in self.saved:
            setattr(module, name, original)
        return False


def pipeline_options():
    """ a full antiSMASH configuration, built once """
    if "options" not in _pipeline:
        from antismash import main
        from antismash.config import build_config
        _pipeline["options"] = build_config(["--minimal"], isolated=True, modules=main.get_all_modules())
    return _pipeline["options"]


def impl_pipeline(plan, kind, reuse, dmeta, classes_, logspec, cwdspec, records, results, base, specs=None,
                  outer=None):
    """ the real main._run_antismash on a real directory with patched collaborators; outer: a dictionary that
        makes the call go through main.run_antismash (the wrapper that sets up logging first) and receives
        the snapshot of the directory tree taken just before the call """
    from antismash import main
    from antismash.common import serialiser
    from antismash.config import update_config
    options = pipeline_options()
    if specs is None:
        specs = [ENTRY_MAKERS[cls](k) for k, cls in enumerate(classes_)]
    if not isinstance(cwdspec, tuple):
        cwdspec = (cwdspec, None)
    if logspec and isinstance(logspec[1], int):
        logspec = (logspec[0], specs[logspec[1] % len(specs)][0] if specs else "run.log", logspec[2])

    class PhaseResults(serialiser.AntismashResults):
        """ only tells the recorders that the conversions now belong to write_to_file """
        def write_to_file(self, handle):
            hooks.phase = "write"
            try:
                return super().write_to_file(handle)
            finally:
                hooks.phase = "pipeline"

    hooks = Hooks(None, None)
    hooks.phase = "pipeline"

    def action(given_name, json_path):
        hooks.path = json_path
        recs, res = build_objects(hooks, records, results)
        for rec, (skip, _fdet, regions, _fana) in zip(recs, plan["recs"]):
            rec.skip = "skipped for the test" if skip else None
            rec.pipeline_regions = bool(regions)
        results_obj = PhaseResults("in.gbk", recs, res, "v")
        update_config({"reuse_results": "/data/in.json" if reuse else None, "profile": bool(plan["profile"]),
                       "debug": False, "list_plugins": False, "check_prereqs_only": False})
        counter = ErrorCounter()
        root = logging.getLogger()
        other_handlers, root.handlers = root.handlers, [counter]
        logging.disable(logging.NOTSET)
        try:
            with PipelinePatches(plan, hooks, results_obj):
                if outer is not None:
                    outer["before"] = tree_snapshot(os.path.dirname(json_path))
                    code = main.run_antismash(None if reuse else "/data/in.gbk", options)
                else:
                    code = main._run_antismash(None if reuse else "/data/in.gbk", options)  # pylint: disable=protected-access
            out = [0, code]
        except Exception as exc:  # pylint: disable=broad-except
            out = [1, local_err_code(exc)]
        finally:
            logging.disable(logging.CRITICAL)
            root.handlers = other_handlers
        tail = [file_state(json_path), counter.count, len(hooks.trace)]
        for event in hooks.trace:
            tail += list(event)
        return out, tail

    flat, out, observed, info = impl_prepare_specs(kind, reuse, dmeta, specs, logspec, cwdspec, False, base,
                                                   action=action, json_name=JSON_NAME, outer=outer is not None)
    payload = enc_plan(plan) + flat + enc_write_input(0, 0, records, results)[2:]
    return payload, out, observed, info


def tree_snapshot(path):
    """ relative path -> digest of every file / "dir" for every directory below path ({} when it is missing) """
    snap = {}
    if not os.path.isdir(path):
        return snap
    for root, dirs, files in os.walk(path):
        for name in dirs:
            snap[os.path.relpath(os.path.join(root, name), path)] = "dir"
        for name in files:
            with open(os.path.join(root, name), "rb") as handle:
                snap[os.path.relpath(os.path.join(root, name), path)] = hashlib.md5(handle.read()).hexdigest()
    return snap


OUTER_CLASS = "logfile_written_into_refused_directory"       # FC20d (repaired: status fixed, suppresses nothing)


def outer_run_probe(chk, known, base):
    """ main.run_antismash, the wrapper around _run_antismash that sets up logging (logs.changed_logging
        creates the directory of the log file and opens the file), on existing directories with foreign content and
        a fresh input: the run must be refused and the directory tree must be what it was, except that a log file
        that was already there may have grown.  Independent oracle (tree snapshots before / after), next to the
        correspondence of function 5 (outer_run_antismash in Model.v).  Regression witnesses of the repaired
        defect FC20d come first: a violation whose only difference is the newly created log file belongs to finding
        class logfile_written_into_refused_directory and is reported as a counterexample (it would only be
        printed as KNOWN-FINDING if known_findings.json listed the class with status known again) """
    rng = chk.rng
    records, results = clean_plan(rng, 1, 1)
    plan = clean_pipeline_plan(rng, 1)
    reported = False
    for classes_ in (["file"], ["file", "dir"], ["input_dir", "gbk"], ["hidden", "dir"], ["json", "region", "dir"],
                     ["log", "file"], ["log", "dir", "gbk"]):
        # the log file: none / inside the directory, not there yet / inside, already there (an entry of class "log":
        # it may grow) / in a sub-directory, there or not yet / in a sub-directory that does not exist yet either /
        # outside
        for logspec in (None, ("inside", "absent.log", 0), ("inside", "absent.log", 3), ("sub", "absent.log", 0),
                        ("sub", "absent.log", 1), ("sub", "absent.log", 0, True), ("newsub", "absent.log", 0, True),
                        ("newsub", "absent.log", 3, True), ("inside", "run.log", 0), ("parent", "run.log", 0),
                        ("logs", "run.log", 0)):
            outer = {}
            _payload, out, _observed, info = impl_pipeline(plan, 1, False, False, classes_, logspec, "default",
                                                           records, results, base, outer=outer)
            outdir = os.path.join(base, "out")
            before, after = outer.get("before", {}), tree_snapshot(outdir)
            logfile = info["config.logfile"]
            reported = outer_verdict(chk, known, outdir, before, after, logfile, out, reported)
            if reported is None:
                return
    # the output directory is not given: it is named after the input (in.gbk -> <current directory>/in)
    for logname, inner in (("in/absent.log", None), ("in/dir1/absent.log", "dir1"), ("in/newsub/absent.log", None),
                           ("", None)):
        out, before, after, outdir, logfile = derived_directory_case(base, logname, inner)
        reported = outer_verdict(chk, known, outdir, before, after, logfile, out, reported, derived=True)
        if reported is None:
            return


def derived_directory_case(base, logname, inner):
    """ run_antismash without --output-dir, started in base: the output directory is base/in; it exists and holds
        file0.txt (and the sub-directory inner); the log file is given relative to the current directory """
    from antismash import main
    from antismash.config import update_config
    options = pipeline_options()
    for old in os.listdir(base):
        full = os.path.join(base, old)
        shutil.rmtree(full) if os.path.isdir(full) else os.remove(full)
    outdir = os.path.join(base, "in")
    os.mkdir(outdir)
    with open(os.path.join(outdir, "file0.txt"), "w") as handle:
        handle.write("content 0")
    if inner:
        os.mkdir(os.path.join(outdir, inner))
        with open(os.path.join(outdir, inner, "inner.txt"), "w") as handle:
            handle.write("inner")
    records, results = [(0, 0, 0, 0, 0)], [[]]
    plan = {"prereq": 0, "verify": 1, "read": 0, "pre": 0, "annotate": 0, "outputs": 0, "profile": 0,
            "recs": [(0, 0, 0, 0)]}
    hooks = Hooks(os.path.join(outdir, JSON_NAME), None)
    hooks.phase = "pipeline"
    recs, res = build_objects(hooks, records, results)
    recs[0].skip, recs[0].pipeline_regions = None, False
    from antismash.common import serialiser
    results_obj = serialiser.AntismashResults("in.gbk", recs, res, "v")
    original_cwd = os.getcwd()
    root = logging.getLogger()
    other_handlers, root.handlers = root.handlers, [ErrorCounter()]
    logging.disable(logging.NOTSET)
    before = tree_snapshot(outdir)
    try:
        os.chdir(base)
        update_config({"logfile": logname, "output_basename": "", "output_dir": "", "reuse_results": None,
                       "profile": False, "debug": False, "list_plugins": False, "check_prereqs_only": False})
        try:
            with PipelinePatches(plan, hooks, results_obj):
                out = [0, main.run_antismash("/data/in.gbk", options)]
        except Exception as exc:  # pylint: disable=broad-except
            out = [1, local_err_code(exc)]
    finally:
        os.chdir(original_cwd)
        logging.disable(logging.CRITICAL)
        root.handlers = other_handlers
        update_config({"output_dir": "", "output_basename": "", "logfile": ""})
    return out, before, tree_snapshot(outdir), outdir, os.path.join(base, logname) if logname else ""


def outer_verdict(chk, known, outdir, before, after, logfile, out, reported, derived=False):
    """ returns the reported flag, None once a violation has been reported """
    logrel = os.path.relpath(os.path.abspath(logfile), outdir) if logfile else None
    added = sorted(set(after) - set(before))
    removed = sorted(set(before) - set(after))
    changed = sorted(k for k in before if k in after and before[k] != after[k] and k != logrel)
    refused = out[:2] == [1, E_INPUT]
    foreign = [k for k in before if os.sep not in k and k != logrel and not (k == "input" and before[k] == "dir")]
    if not foreign:
        chk.count("outer_run_cases_nothing_foreign")        # e.g. the only file is named as the log file
        return reported
    chk.count("outer_run_cases_derived_directory" if derived else "outer_run_cases")
    if refused and not added and not removed and not changed:
        return reported
    witness = {"function": "run_antismash (wrapper: refusal test, logs.changed_logging, then _run_antismash)",
               "output directory": "not given, derived from the input name" if derived else "given",
               "output directory before": sorted(before), "config.logfile": logfile,
               "input": "/data/in.gbk (fresh run)", "outcome": out[:2], "entries added": added,
               "entries removed": removed, "entries changed": changed}
    # the class of FC20d: refused, and all that was added is the log file and the directories on the way to it
    on_the_way = bool(logrel) and all(k == logrel or logrel.startswith(k + os.sep) for k in added)
    in_class = refused and bool(added) and on_the_way and not removed and not changed
    if in_class and OUTER_CLASS in known:
        chk.count("known_finding_" + OUTER_CLASS)
        if not reported:
            chk.known(known[OUTER_CLASS]["what_fails"])
        return True
    chk.count("property_violations")
    chk.violation("counterexample", "a refused run left the existing output directory changed (run_antismash"
                  + (", finding class " + OUTER_CLASS + " (repaired as FC20d) is back" if in_class else "") + ")",
                  {"theorem_or_correspondence": "C20 second clause on the observed directory tree "
                                                "(harness oracle, outer run_antismash; Coq: "
                                                "C20_refused_run_writes_nothing)",
                   "input": witness, "implementation": out})
    return None


# function 5: the wrapper run_antismash against outer_run_antismash (log_setup v) of Model.v.  The witnesses of the
# repaired defect FC20d (known_findings.json, status fixed) head the cases
OUTER_CORPUS = [
    # (kind, reuse, dmeta, entry classes, logspec, cwdspec)
    (1, False, False, ["file"], ("inside", "absent.log", 0), "default"),          # FC20d: out/file0.txt, out/absent.log
    (1, False, False, ["file", "dir"], ("inside", "absent.log", 3), "default"),
    (1, False, False, ["json", "region", "dir"], ("inside", "absent.log", 0), "default"),
    (1, False, False, ["hidden"], ("inside", "run.log", 0), "default"),
    (1, False, True, ["file"], ("inside", "absent.log", 0), "default"),
    (1, False, False, ["dir"], ("inside", "absent.log", 0), "entry"),
    (1, False, False, ["log", "file"], ("inside", "run.log", 0), "default"),      # its own log file, must not grow either
    (2, False, False, [], ("inside", "absent.log", 0), "default"),                # not a directory
    (2, True, False, [], ("logs", "run.log", 0), "default"),
]


def gen_outer_cases(chk, budget):
    """ (plan, kind, reuse, dmeta, entry classes, logspec, cwdspec, records, results); the log file never lies
        below a sub-directory of the output directory (the listing of the model has one level), and a log file
        inside it is called run.log or absent.log (a new log file has a plain visible name) """
    rng = chk.rng
    cases = []
    for kind, reuse, dmeta, classes_, logspec, cwdspec in OUTER_CORPUS:
        records, results = clean_plan(rng, 1, 1)
        base_plan = clean_pipeline_plan(rng, 1)
        cases.append((base_plan, kind, reuse, dmeta, classes_, logspec, cwdspec, records, results))
        for stage in STAGES[:2]:
            cases.append((dict(base_plan, **{stage: rng.choice(FAULT_KINDS)}), kind, reuse, dmeta, classes_,
                          logspec, cwdspec, records, results))
    chk.count("outer_corpus_cases", len(cases))
    logspecs = [None, ("inside", "run.log", 0), ("inside", "absent.log", 0), ("inside", "absent.log", 3),
                ("parent", "run.log", 0), ("logs", "run.log", 2)]
    for kind, reuse, dmeta, classes_, _logspec in DIR_SCENARIOS:
        for logspec in logspecs:
            records, results = clean_plan(rng, 1, 2)
            plan = clean_pipeline_plan(rng, 1)
            cases.append((plan, kind, reuse, dmeta, classes_, logspec, "default", records, results))
    for classes_ in (["log"], ["logdir"], ["log", "file"], ["logdir", "file"], ["input_dir", "log"], ["input_dir"]):
        for reuse in (False, True):
            for logspec in logspecs:
                records, results = clean_plan(rng, 1, 1)
                cases.append((clean_pipeline_plan(rng, 1), 1, reuse, False, classes_, logspec, "default",
                              records, results))
    chk.count("outer_systematic_cases", len(cases))
    pool = ["file", "dir", "input_dir", "log", "region", "region_dir", "hidden", "json", "gbk", "logdir"]
    while len(cases) < budget:
        nrec = rng.choice([0, 1, 1, 2])
        records, results = clean_plan(rng, nrec, None)
        plan = clean_pipeline_plan(rng, nrec)
        r = rng.random()
        if r < 0.3:
            stage = rng.choice(STAGES + ["verify"])
            if stage == "verify":
                plan["verify"] = 0
            else:
                plan[stage] = rng.choice(FAULT_KINDS)
        elif r < 0.5:
            pos = [p for p in positions(records, results) if p[0] != "t"]
            if pos:
                records, results, _tl = apply_fault(records, results, 0, rng.choice(pos), rng.choice(FAULT_KINDS), rng)
        kind = rng.choice([0, 1, 1, 1, 1, 1, 2])
        logspec = None
        if rng.random() < 0.8:
            logspec = (rng.choice(["inside", "inside", "inside", "parent", "logs"]), rng.choice(["run.log", "absent.log"]),
                       rng.randrange(N_SPELLINGS))
        classes_ = [rng.choice(pool) for _ in range(rng.choice([0, 1, 1, 2, 2, 3, 4]))] if kind == 1 else []
        if kind == 0 and logspec and logspec[2] == 2:
            logspec = logspec[:2] + (0,)      # out/../out/absent.log below a missing out/: os.makedirs itself fails
        cases.append((plan, kind, rng.random() < 0.4, rng.random() < 0.08, classes_, logspec,
                      rng.choice(["default"] * 6 + ["entry", "outdir"]), records, results))
    return cases


def enc_plan(plan):
    flat = [plan["prereq"], int(plan["verify"]), plan["read"], plan["pre"], plan["annotate"], plan["outputs"],
            int(plan["profile"]), len(plan["recs"])]
    for rec in plan["recs"]:
        flat += [int(x) for x in rec]
    return flat


def clean_pipeline_plan(rng, nrec):
    return {"prereq": 0, "verify": 1, "read": 0, "pre": 0, "annotate": 0, "outputs": 0,
            "profile": int(rng.random() < 0.3),
            "recs": [(int(rng.random() < 0.15), 0, int(rng.random() < 0.7), 0) for _ in range(nrec)]}


DIR_SCENARIOS = [
    # (kind, reuse, dmeta, entry classes, logspec)
    (0, False, False, [], None),                                              # fresh directory
    (0, True, False, [], None),
    (1, False, False, [], None),                                              # existing, empty
    (1, False, False, ["input_dir", "log"], ("inside", "run.log", 0)),        # nothing foreign
    (1, False, False, ["input_dir", "log"], ("logs", "run.log", 0)),          # same name, log file elsewhere
    (1, False, False, ["json", "region", "file"], None),                      # a previous run, fresh input
    (1, True, False, ["json", "region", "file"], None),                       # a previous run, reused
    (1, True, False, ["json", "region_dir"], None),                           # os.remove fails on a directory
    (1, True, False, ["file"], None),                                         # reuse from elsewhere
    (1, False, False, ["hidden"], None),                                      # FC20a (repaired): refused
    (1, False, True, ["json", "file"], None),                                 # FC20b (repaired): refused
    (1, True, True, ["json", "region", "file"], None),                        # reuse, glob-pattern directory name
    (2, False, False, [], None),                                              # not a directory
]


PIPELINE_CORPUS = [
    # (kind, reuse, dmeta, entry classes, logspec, cwdspec)
    (1, False, False, ["hidden"], None, "default"),                           # FC20a
    (1, False, False, ["json", "hidden_dir"], None, "default"),
    (1, False, True, ["file"], None, "default"),                              # FC20b
    (1, False, False, ["dir"], None, "entry"),                                # FC20c
    (1, False, False, ["json", "dir"], None, "entry"),
]


def gen_pipeline_cases(chk, budget):
    """ (plan, kind, reuse, dmeta, entry classes, logspec, cwdspec, records, results) """
    rng = chk.rng
    cases = []
    # regression corpus: the witnesses of the repaired defects FC20a / FC20b / FC20c on a fault-free plan (the
    # run must stop at prepare_output_directory) and the current-directory witness under every stage fault
    for kind, reuse, dmeta, classes_, logspec, cwdspec in PIPELINE_CORPUS:
        records, results = clean_plan(rng, 2, 2)
        base_plan = clean_pipeline_plan(rng, 2)
        base_plan["recs"] = [(0, 0, 1, 0), (0, 0, 0, 0)]
        cases.append((base_plan, kind, reuse, dmeta, classes_, logspec, cwdspec, records, results))
        if cwdspec != "default":
            for stage in STAGES:
                cases.append((dict(base_plan, **{stage: rng.choice(FAULT_KINDS)}), kind, reuse, dmeta, classes_,
                              logspec, cwdspec, records, results))
    chk.count("pipeline_corpus_cases", len(cases))
    corpus_len = len(cases)
    # systematic: every stage fault, verify_options failing, every conversion position, on every scenario
    for scenario in DIR_SCENARIOS:
        records, results = clean_plan(rng, 2, 2)
        base_plan = clean_pipeline_plan(rng, 2)
        base_plan["recs"] = [(0, 0, 1, 0), (0, 0, 0, 0)]
        cases.append((base_plan,) + scenario + ("default", records, results))
        for stage in STAGES:
            cases.append((dict(base_plan, **{stage: rng.choice(FAULT_KINDS)}),) + scenario
                         + ("default", records, results))
        cases.append((dict(base_plan, verify=0),) + scenario + ("default", records, results))
        cases.append((dict(base_plan, profile=1),) + scenario + ("default", records, results))
        for k in (1, 3):
            recs = [(0, rng.choice(FAULT_KINDS) if k == 1 else 0, 1, rng.choice(FAULT_KINDS) if k == 3 else 0),
                    (0, 0, 1, 0)]
            cases.append((dict(base_plan, recs=recs),) + scenario + ("default", records, results))
        for pos in positions(records, results):
            if pos[0] == "t":
                continue
            plan = apply_fault(records, results, 0, pos, rng.choice(FAULT_KINDS[:4]), rng)
            cases.append((base_plan,) + scenario + ("default", plan[0], plan[1]))
    chk.count("pipeline_systematic_cases", len(cases) - corpus_len)
    pool = ["file", "dir", "input_dir", "log", "region", "region_dir", "hidden", "json", "json", "gbk", "logdir"]
    while len(cases) < budget:
        nrec = rng.choice([0, 1, 1, 2, 2, 3])
        records, results = clean_plan(rng, nrec, None)
        plan = clean_pipeline_plan(rng, nrec)
        r = rng.random()
        if r < 0.35:
            stage = rng.choice(STAGES + ["verify", "det", "ana"])
            if stage == "verify":
                plan["verify"] = 0
            elif stage in ("det", "ana") and nrec:
                i = rng.randrange(nrec)
                rec = list(plan["recs"][i])
                rec[1 if stage == "det" else 3] = rng.choice(FAULT_KINDS)
                plan["recs"][i] = tuple(rec)
            elif stage in STAGES:
                plan[stage] = rng.choice(FAULT_KINDS)
        elif r < 0.7:
            for _ in range(rng.choice([1, 1, 2])):
                pos = [p for p in positions(records, results) if p[0] != "t"]
                if pos:
                    records, results, _tl = apply_fault(records, results, 0, rng.choice(pos),
                                                        rng.choice(FAULT_KINDS), rng)
        if rng.random() < 0.4:
            scenario = rng.choice(DIR_SCENARIOS)
        else:
            kind = rng.choice([0, 1, 1, 1, 1, 2])
            logspec = None
            if rng.random() < 0.5:
                logspec = (rng.choice(["inside", "parent", "logs", "sub"]), rng.choice(["run.log", "absent.log", 0]),
                           rng.randrange(N_SPELLINGS))
            scenario = (kind, rng.random() < 0.5, rng.random() < 0.08,
                        [rng.choice(pool) for _ in range(rng.choice([0, 1, 2, 2, 3, 4]))] if kind == 1 else [], logspec)
        cases.append((plan,) + tuple(scenario) + (rng.choice(["default"] * 6 + ["entry", "outdir"]), records, results))
    return cases


# ------------------------------------------------------------------ the run

RULE = ("write_to_file / dump_records: fault plans over 0-5 records x 0-4 results per record; every value varies in "
        "type (None / subclass of ModuleResults / dict, list, str, int, bool, tuple, float, an object with a to_json "
        "method that is no ModuleResults, a plain object, the class itself), in truthiness (plain object / __len__ > 0 / "
        "__len__ == 0 / __bool__ False / __bool__ True with __len__ == 0 / empty or non-empty builtin / a subclass of "
        "the real TTAResults without or with features / bool(value) raising), in what to_json does (raises one of 8 "
        "exception kinds; returns a dict, None, a list, a number, a string, {}, a value nested three containers deep, "
        "a tuple) and in what json.dumps meets inside the returned value (nothing, a convertible object, an object "
        "whose to_json raises, or something unencodable: object without to_json, set, bytes, 2**70, complex, dict "
        "with a tuple key); a pre-existing target file with known bytes (or a new path, an open handle, a path in a missing "
        "directory, handle=None, or a path whose open succeeds and whose write raises OSError); systematic part = every "
        "conversion position (to_biopython, record_to_json, gather_record_areas, get_gc_content, each to_json, each "
        "custom object met by json.dumps, timings, results shorter than records, non-ModuleResults value, raising "
        "truthiness) of every grid up to 2x3 (quick) / 3x4 (thorough) with every exception kind, every module fault "
        "combined with every truthiness (truthy and falsy), every invalid type empty and non-empty, and every falsy "
        "but convertible result with every shape of returned value (it must be written); random part = 0, 1 or "
        "several faults; "
        "prepare_output_directory: real temporary directories, first the witnesses of the repaired defects FC20a/b/c "
        "(regression corpus), then the matrix of every entry class alone and paired with input "
        "dir / log file / region file / hidden file, both modes, plain and glob-pattern directory names; log file "
        "inside / in the parent / in a sub-directory / in an unrelated directory x carrying the name of an entry (file "
        "or directory) or not x 5 spellings of the path (plain, /./, dir/../dir, relative, //) x no --logfile; current "
        "directory = an entry of the output directory / the output directory / its parent, output directory given "
        "absolute or relative; plus random listings of 0-6 entries; _run_antismash: the real function on real "
        "directories with recorded collaborators, the regression corpus, 13 directory scenarios x every stage fault / verify_options failing / "
        "every conversion position (truthy or falsy value at the position), plus random plans; run_antismash (the "
        "wrapper: refusal test, logging set-up, _run_antismash; function 5): the witnesses of the repaired defect "
        "FC20d first, then the 13 directory scenarios and 6 log-name listings x 6 log file placements (none / inside "
        "and there / inside and not yet there / parent / unrelated directory), plus random directories and plans; and "
        "a tree-snapshot probe of refused directories: 7 directories with foreign content x 11 log file placements "
        "(also below an existing or a not yet existing sub-directory) and 4 cases in which the output directory is "
        "derived from the input name (harness oracle, class logfile_written_into_refused_directory); non-trivial = a write case with at least one record and at least "
        "one fault or a successful write, a directory case with at least one entry, every pipeline case; distinct by "
        "flat encoding")


def run(chk):
    if not chk.build_and_audit():
        return chk.finish(RULE)
    quick = chk.tier == "quick"
    n_write = 20000 if quick else 300000
    n_dir = 6000 if quick else 60000
    n_pipe = 2500 if quick else 40000
    n_outer = 700 if quick else 8000
    known = {f["class"]: f for f in common.load_known_findings("C20") if f.get("status") == "known"}
    cases, impl_outs, spec_cases, descr = [], [], [], []
    workdir = tempfile.mkdtemp(prefix="asv_c20_")
    try:
        for fn, hk, tl, records, results in gen_write_cases(chk, n_write):
            payload = enc_write_input(hk, tl, records, results)
            flat = [PROP, fn] + payload
            out, observed = impl_write(fn, hk, tl, records, results, workdir)
            cases.append(flat)
            impl_outs.append(out)
            spec_cases.append([PROP, fn + 10] + payload + observed)
            descr.append(describe_write(fn, hk, tl, records, results))
            chk.count({1: "write_to_file", 2: "dump_records"}[fn])
            chk.count(f"handle_kind_{hk}")
            chk.count(f"records_{len(records)}")
            chk.count("outcome_ok" if out[0] == 0 else "outcome_error_" + common.ERR_NAME.get(out[1], str(out[1])))
            if out[0] == 1 and out[2]:
                chk.count("typeerror_reported_with_message")
            chk.count("conversion_events", len(observed) - 3)
            nontrivial = bool(records) and (out[0] == 1 or observed[1] == 3)
            chk.note_case(flat, nontrivial, {"input": descr[-1], "implementation": out})
        base = os.path.join(workdir, "dirs")
        os.mkdir(base)
        for kind, reuse, dmeta, classes_, logspec, cwdspec, relname in gen_dir_cases(chk, n_dir):
            payload, out, observed, info = impl_prepare(kind, reuse, dmeta, classes_, logspec, cwdspec, relname, base)
            names = info["entries (listing order)"]
            flat = [PROP, 3] + payload
            cases.append(flat)
            impl_outs.append(out)
            spec_cases.append([PROP, 13] + payload + observed)
            descr.append(dict({"function": "prepare_output_directory",
                               "exists": {0: "no", 1: "directory", 2: "file"}[kind],
                               "reuse (input ends with .json)": reuse,
                               "directory name is a glob pattern": bool(payload[7])},
                              **info))
            chk.count("prepare_output_directory")
            chk.count(f"dir_entries_{len(names)}")
            chk.count("dir_mode_reuse" if reuse else "dir_mode_fresh")
            chk.count("dir_log_" + str(info["log file lives"]).replace(" ", "_"))
            if payload[0] and payload[2] < len(names):
                chk.count("dir_log_name_carried_by_an_entry_" + ("inside" if payload[1] == 0 else "elsewhere"))
            chk.count("dir_cwd_" + info["current directory"].split(" ")[0])
            chk.count("dir_outcome_ok" if out[0] == 0 else f"dir_outcome_error_{out[1]}")
            chk.note_case(flat, kind == 1 and bool(names), {"input": descr[-1], "implementation": out})
        for plan, kind, reuse, dmeta, classes_, logspec, cwdspec, records, results in gen_pipeline_cases(chk, n_pipe):
            payload, out, observed, info = impl_pipeline(plan, kind, reuse, dmeta, classes_, logspec, cwdspec,
                                                         records, results, base)
            flat = [PROP, 4] + payload
            cases.append(flat)
            impl_outs.append(out)
            spec_cases.append([PROP, 14] + payload + observed)
            descr.append(dict({"function": "_run_antismash",
                               "stage plan (fault codes; recs = skip, run_detection fault, regions found, "
                               "analyse_record fault)": plan,
                               "output directory exists": {0: "no", 1: "directory", 2: "file"}[kind],
                               "reuse (--reuse-results)": reuse,
                               "records [fault to_biopython, record_to_json, gather_record_areas, get_gc_content, "
                               "original_id]": records,
                               RESULTS_LEGEND: results}, **info))
            chk.count("run_antismash")
            chk.count("pipeline_outcome_" + ("return_%d" % out[1] if out[0] == 0 else
                                             "error_" + {E_INPUT: "AntismashInputError"}.get(
                                                 out[1], common.ERR_NAME.get(out[1], str(out[1])))))
            chk.count("pipeline_events", observed[observed[2] + 4])
            chk.count("pipeline_json_state_after_%d" % observed[observed[2] + 3])
            chk.note_case(flat, True, {"input": descr[-1], "implementation": out})
        for plan, kind, reuse, dmeta, classes_, logspec, cwdspec, records, results in gen_outer_cases(chk, n_outer):
            payload, out, observed, info = impl_pipeline(plan, kind, reuse, dmeta, classes_, logspec, cwdspec,
                                                         records, results, base, outer={})
            flat = [PROP, 5] + payload
            cases.append(flat)
            impl_outs.append(out)
            spec_cases.append([PROP, 15] + payload + observed)
            descr.append(dict({"function": "run_antismash (wrapper: refusal test, logging set-up, _run_antismash)",
                               "stage plan (fault codes; recs = skip, run_detection fault, regions found, "
                               "analyse_record fault)": plan,
                               "output directory exists": {0: "no", 1: "directory", 2: "file"}[kind],
                               "reuse (--reuse-results)": reuse,
                               "records [fault to_biopython, record_to_json, gather_record_areas, get_gc_content, "
                               "original_id]": records,
                               RESULTS_LEGEND: results}, **info))
            chk.count("outer_run_antismash")
            chk.count("outer_outcome_" + ("return_%d" % out[1] if out[0] == 0 else
                                          "error_" + {E_INPUT: "AntismashInputError"}.get(
                                              out[1], common.ERR_NAME.get(out[1], str(out[1])))))
            chk.count("outer_log_" + str(info["log file lives"]).replace(" ", "_"))
            if out[:2] == [1, E_INPUT] and observed[observed[2] + 4] == 0:
                chk.count("outer_refused_before_any_stage")
            chk.note_case(flat, True, {"input": descr[-1], "implementation": out})
        outer_run_probe(chk, known, base)
    finally:
        shutil.rmtree(workdir, ignore_errors=True)
    model_outs = common.correspondence(chk, cases, impl_outs,
                                       describe=lambda flat: descr[cases.index(flat)])
    # the property itself, evaluated on every observed outcome
    verdicts = common.run_driver(spec_cases)
    reported = 0
    for i, verdict in enumerate(verdicts):
        if verdict and verdict[0] == 1:
            continue
        guard = verdict[1] if len(verdict) > 1 else 1
        cls = FINDING_CLASSES.get(verdict[2]) if len(verdict) > 2 else None
        if len(verdict) == 3 and not guard and cls in known and model_outs[i] == impl_outs[i]:
            chk.count("known_finding_" + cls)
            chk.known(known[cls]["what_fails"])
            continue
        chk.count("property_violations")
        if reported < 5:
            reported += 1
            chk.violation("counterexample", "the implementation's outcome violates the property "
                          f"({descr[i]['function']}" + (f", unlisted finding class {cls}" if cls else "") + ")",
                          {"theorem_or_correspondence": "C20 specification on the observed outcome",
                           "function": cases[i][1], "flat": cases[i], "input": descr[i],
                           "implementation": impl_outs[i], "model": model_outs[i], "spec_verdict": verdict})
    chk.crosscheck_vm(cases, model_outs)
    return chk.finish(RULE)


def replay(chk, path):
    doc = json.load(open(path))
    if "flat" not in doc:
        # a violation found by the harness oracle on the outer run_antismash: run that probe again
        known = {f["class"]: f for f in common.load_known_findings("C20") if f.get("status") == "known"}
        workdir = tempfile.mkdtemp(prefix="asv_c20_")
        try:
            base = os.path.join(workdir, "dirs")
            os.mkdir(base)
            outer_run_probe(chk, known, base)
        finally:
            shutil.rmtree(workdir, ignore_errors=True)
        for kind, what, info in chk.violations:
            print(kind, what, json.dumps(info.get("input"), indent=1))
        print("recorded:", json.dumps(doc.get("input"), indent=1))
        return 1 if chk.violations else 0
    flat = doc["flat"]
    print("model:", common.run_driver([flat])[0], "recorded implementation:", doc.get("implementation"))
    fn, payload = flat[1], flat[2:]
    workdir = tempfile.mkdtemp(prefix="asv_c20_")
    try:
        if fn in (1, 2):
            hk, tl, nrec = payload[0], payload[1], payload[2]
            pos = 3
            records = [tuple(payload[pos + 5 * i: pos + 5 * i + 5]) for i in range(nrec)]
            pos += 5 * nrec
            nres = payload[pos]
            pos += 1
            results = []
            for _ in range(nres):
                nmod = payload[pos]
                pos += 1
                results.append([tuple(payload[pos + 7 * j: pos + 7 * j + 7]) for j in range(nmod)])
                pos += 7 * nmod
            out, observed = impl_write(fn, hk, tl, records, results, workdir)
            verdict = common.run_driver([[PROP, fn + 10] + payload + observed])[0]
            print("implementation now:", out, "spec verdict:", verdict)
            model = common.run_driver([flat])[0]
            return 1 if (verdict[0] != 1 or model != out) else 0
        plan = None
        if fn in (4, 5):
            nrec = payload[7]
            plan = dict(zip(["prereq", "verify", "read", "pre", "annotate", "outputs", "profile"], payload[:7]))
            plan["recs"] = [tuple(payload[8 + 4 * i: 12 + 4 * i]) for i in range(nrec)]
            payload = payload[8 + 4 * nrec:]
        lg_given, lg_dir, lg_base, cwd_dir, cwd_base = payload[:5]
        kind, reuse, dmeta, count = payload[5:9]
        specs = []
        for k in range(count):
            _name, visible, is_input, isdir, region = payload[9 + 5 * k: 14 + 5 * k]
            entry = "input" if is_input else (f"e{k}.region001.gbk" if region else f"e{k}")
            specs.append((entry if visible else "." + entry, bool(isdir)))
        rest = payload[9 + 5 * count:]
        if fn in (4, 5) and rest[0] == 0:
            # the old JSON is one of the plain visible files (preferably not the one carrying the log's name)
            plain = [k for k in range(count) if specs[k][0] == f"e{k}" and not specs[k][1]]
            plain.sort(key=lambda k: payload[9 + 5 * k] == lg_base)
            specs[plain[0]] = (JSON_NAME, False)
        by_id = {payload[9 + 5 * k]: specs[k][0] for k in range(count)}
        logspec = None
        if lg_given:
            where = {v: k for k, v in LOG_WHERE.items()}.get(lg_dir, "logs")
            logspec = (where, by_id.get(lg_base, "absent.log" if fn == 5 else "fresh.log"), 0)
        cwd_kind = {v: k for k, v in CWD_DIR.items()}.get(cwd_dir, "default")
        cwdspec = (cwd_kind, by_id.get(cwd_base) if cwd_kind == "entry" else None)
        base = os.path.join(workdir, "dirs")
        os.mkdir(base)
        known = {f["class"] for f in common.load_known_findings("C20") if f.get("status") == "known"}
        if fn in (4, 5):
            pos = 1
            nrec = rest[pos]
            records = [tuple(rest[pos + 1 + 5 * i: pos + 6 + 5 * i]) for i in range(nrec)]
            pos += 1 + 5 * nrec
            nres = rest[pos]
            pos += 1
            results = []
            for _ in range(nres):
                nmod = rest[pos]
                pos += 1
                results.append([tuple(rest[pos + 7 * j: pos + 7 * j + 7]) for j in range(nmod)])
                pos += 7 * nmod
            payload2, out, observed, info = impl_pipeline(plan, kind, bool(reuse), bool(dmeta), None, logspec, cwdspec,
                                                          records, results, base, specs=specs,
                                                          outer={} if fn == 5 else None)
            model = common.run_driver([[PROP, fn] + payload2])[0]
            verdict = common.run_driver([[PROP, fn + 10] + payload2 + observed])[0]
            print("directory:", info, "implementation now:", out, "model:", model,
                  "spec verdict [ok, guard, class]:", verdict)
            excused = verdict[0] == 0 and verdict[1] == 0 and FINDING_CLASSES.get(verdict[2]) in known
            return 1 if (model != out or (verdict[0] != 1 and not excused)) else 0
        flat2, out, observed, info = impl_prepare_specs(kind, bool(reuse), bool(dmeta), specs, logspec, cwdspec,
                                                        False, base)
        names = info
        model = common.run_driver([[PROP, 3] + flat2])[0]
        verdict = common.run_driver([[PROP, 13] + flat2 + observed])[0]
        print("entries:", names, "implementation now:", out, "model:", model, "spec verdict [ok, guard, class]:", verdict)
        excused = verdict[0] == 0 and verdict[1] == 0 and FINDING_CLASSES.get(verdict[2]) in known
        return 1 if (model != out or (verdict[0] != 1 and not excused)) else 0
    finally:
        shutil.rmtree(workdir, ignore_errors=True)
