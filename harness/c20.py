"""C20: a failed or refused write never damages existing results.

Correspondence for AntismashResults.write_to_file and dump_records under injected conversion faults (every
event position: the four per-record conversions, every module's to_json, every custom-object conversion
inside json.dumps, missing results, non-ModuleResults values) with a pre-existing target file, and for
prepare_output_directory on real temporary directories (entry classes x run mode)."""
import fnmatch
import hashlib
import io
import json
import logging
import os
import shutil
import tempfile

import common
from common import err_code

PROP = 20
OLD = b"OLD CONTENT of a previous run {not json}\n"
E_INPUT = 12   # AntismashInputError: harness-local code (not in common.ERR, would otherwise be 99)

EXC = {1: ValueError, 2: AssertionError, 3: IndexError, 4: KeyError, 5: TypeError, 9: RuntimeError,
       10: AttributeError, 99: OSError}
FAULT_KINDS = [1, 4, 5, 9, 3, 10, 2, 99]
LATE_EXC = {3: ValueError, 4: KeyError, 5: TypeError, 6: RuntimeError}
FINDING_CLASSES = {1: "hidden_entry_ignored", 2: "glob_metachar_dirname"}


def local_err_code(exc):
    if type(exc).__name__ == "AntismashInputError":
        return E_INPUT
    return err_code(exc)


# ------------------------------------------------------------------ part 1: write_to_file / dump_records

class Hooks:
    """ records every conversion event together with the state of the target at that moment """
    def __init__(self, path, sink):
        self.path = path
        self.sink = sink
        self.trace = []

    def state(self):
        if self.sink is not None:
            return self.sink.state()
        return file_state(self.path)

    def event(self, code, i, j):
        self.trace.append((code, i, j, self.state()))


def file_state(path):
    if not os.path.exists(path):
        return 0
    with open(path, "rb") as handle:
        data = handle.read()
    if data == OLD:
        return 1
    if not data:
        return 2
    return 3


class Sink(io.StringIO):
    """ an already open file-like handle; 'old' = nothing written to it yet """
    def __init__(self):
        super().__init__()
        self.writes = 0

    def write(self, text):
        self.writes += 1
        return super().write(text)

    def state(self):
        if not self.writes:
            return 1
        return 3 if self.getvalue() else 2


class Custom:
    """ a non-standard object inside a to_json payload: converted by _base_convertor during json.dumps """
    def __init__(self, hooks, code, i, j, val, late):
        self.hooks, self.code, self.i, self.j, self.val, self.late = hooks, code, i, j, val, late

    def to_json(self):
        self.hooks.event(self.code, self.i, self.j)
        if self.late == 1:
            return {"late": self.val}
        raise LATE_EXC[self.late]("injected fault inside json.dumps")


class Opaque:
    """ no conversion method at all """
    late = 2


def late_object(hooks, code, i, j, val, late):
    return Opaque() if late == 2 else Custom(hooks, code, i, j, val, late)


_classes = {}


def classes():
    """ the fault-injecting subclasses of the real Record / ModuleResults (built once, after the import) """
    if _classes:
        return _classes
    from antismash.common.module_results import ModuleResults
    from antismash.common.secmet import Record

    class BioProxy:
        """ stands for the SeqRecord handed to record_to_json: first attribute access = the conversion starts """
        def __init__(self, bio, callback):
            self.__dict__["_bio"] = bio
            self.__dict__["_callback"] = callback
            self.__dict__["_seen"] = False

        def __getattr__(self, name):
            if not self.__dict__["_seen"]:
                self.__dict__["_seen"] = True
                self.__dict__["_callback"]()
            return getattr(self.__dict__["_bio"], name)

    class FaultRecord(Record):
        def arm(self, hooks, index, spec):
            self._c20 = (hooks, index, spec)

        def _step(self, code, fault):
            hooks, index, _ = self._c20
            hooks.event(code, index, 0)
            if fault:
                raise EXC[fault]("injected fault")

        def to_biopython(self):
            spec = self._c20[2]
            self._step(1, spec[0])
            bio = super().to_biopython()
            return BioProxy(bio, lambda: self._step(2, spec[1]))

        def get_regions(self):
            self._step(3, self._c20[2][2])
            return super().get_regions()

        def get_gc_content(self):
            self._step(4, self._c20[2][3])
            return super().get_gc_content()

    class FaultModule(ModuleResults):
        def __init__(self, hooks, i, j, spec):
            super().__init__(f"r{i}")
            self.hooks, self.i, self.j, self.spec = hooks, i, j, spec

        def to_json(self):
            _kind, fault, val, late = self.spec
            self.hooks.event(5, self.i, self.j)
            if fault:
                raise EXC[fault]("injected fault")
            data = {"v": val}
            if late:
                data["c"] = late_object(self.hooks, 6, self.i, self.j, val, late)
            return data

    _classes.update(Record=FaultRecord, Module=FaultModule)
    return _classes


class ErrorCounter(logging.Handler):
    def __init__(self):
        super().__init__(level=logging.ERROR)
        self.count = 0

    def emit(self, record):
        self.count += 1


def parse_text(text, top_level):
    """ canonical view of the written JSON text: [3, records...] or [4] when it is not what a complete
        conversion writes """
    try:
        doc = json.loads(text)
        records = doc["records"] if top_level else doc
        if top_level and [k for k in doc] != ["version", "input_file", "records", "timings", "taxon", "schema"]:
            return [4]
        out = [3, len(records)]
        for rec in records:
            out.append(int("original_id" in rec))
            mods = rec["modules"]
            out.append(len(mods))
            for key, mod in mods.items():
                out += [int(key[1:]), mod["v"], mod["c"]["late"] if "c" in mod else -1]
        return out
    except Exception:  # pylint: disable=broad-except
        return [4]


def enc_returned(data):
    out = [len(data)]
    for rec in data:
        out.append(int("original_id" in rec))
        mods = rec["modules"]
        out.append(len(mods))
        for key, mod in mods.items():
            out += [int(key[1:]), mod["v"], mod["c"].late if "c" in mod else 0]
    return out


def impl_write(fn, hk, tl, records, results, workdir):
    """ runs the real write_to_file (fn 1) / dump_records (fn 2); returns the encoded outcome """
    from antismash.common import serialiser
    cls = classes()
    path = os.path.join(workdir, "missing_dir" if hk == 3 else "", "results.json")
    if os.path.exists(path):
        os.remove(path)
    if hk in (0, 2, 4):
        with open(path, "wb") as handle:
            handle.write(OLD)
    sink = Sink() if hk == 2 else None
    hooks = Hooks(path, sink)
    recs = []
    for i, spec in enumerate(records):
        rec = cls["Record"]("ACGT" * 5)
        rec.id = rec.name = f"r{i}"
        if spec[4]:
            rec.original_id = f"original{i}"
        rec.arm(hooks, i, spec)
        recs.append(rec)
    res = []
    for i, mods in enumerate(results):
        entry = {}
        for j, spec in enumerate(mods):
            if spec[0] == 0:
                entry[f"m{j}"] = None
            elif spec[0] == 2:
                entry[f"m{j}"] = cls["Module"](hooks, i, j, spec)
            else:
                entry[f"m{j}"] = {"v": spec[2]}     # e.g. JSON of a previous run that was never regenerated
        res.append(entry)
    timings = {"r0": {"some.module": late_object(hooks, 7, 0, 0, 0, tl) if tl else 1.5}}
    handle = {0: path, 1: path, 3: path, 2: sink, 4: None}[hk]
    counter = ErrorCounter()
    root = logging.getLogger()
    root.addHandler(counter)
    logging.disable(logging.NOTSET)
    wrapped = 0
    try:
        if fn == 1:
            obj = serialiser.AntismashResults("input.gbk", recs, res, "v", timings=timings)
            obj.write_to_file(handle)
            out = [0]
        else:
            data = serialiser.dump_records(res, recs, handle)
            out = [0] + enc_returned(data)
    except Exception as exc:  # pylint: disable=broad-except
        out = [1, err_code(exc)]
        wrapped = int(isinstance(exc, TypeError) and str(exc).startswith("Failed to convert JSON results"))
    finally:
        logging.disable(logging.CRITICAL)
        root.removeHandler(counter)
    del recs, res
    # the target afterwards
    if hk == 2:
        content = [1] if not sink.writes else (parse_text(sink.getvalue(), fn == 1) if sink.getvalue() else [2])
    else:
        state = file_state(path)
        if state == 3:
            with open(path, "rb") as fh:
                content = parse_text(fh.read(), fn == 1)
        else:
            content = [state]
    out += [wrapped] + content + [counter.count, len(hooks.trace)]
    for event in hooks.trace:
        out += list(event)
    observed = [out[0], content[0], len(hooks.trace)] + [e[3] for e in hooks.trace]
    return out, observed


def enc_write_input(hk, tl, records, results):
    flat = [hk, tl, len(records)]
    for spec in records:
        flat += list(spec)
    flat.append(len(results))
    for mods in results:
        flat.append(len(mods))
        for spec in mods:
            flat += list(spec)
    return flat


def positions(records, results):
    """ all fault positions of a fault-free plan: ('r', i, k) record step k, ('m', i, j) to_json,
        ('l', i, j) late conversion, ('k', i, j) wrong type, ('t',) timings, ('s',) results too short """
    pos = [("t",)]
    if records:
        pos.append(("s",))
    for i in range(min(len(records), len(results))):
        pos += [("r", i, k) for k in range(4)]
        for j, spec in enumerate(results[i]):
            if spec[0] == 2:
                pos += [("m", i, j), ("l", i, j)]
            pos.append(("k", i, j))
    return pos


def apply_fault(records, results, tl, pos, kind, rng):
    records = [list(r) for r in records]
    results = [[list(m) for m in mods] for mods in results]
    if pos[0] == "t":
        tl = rng.choice([2, 3, 4, 5, 6])
    elif pos[0] == "s":
        results = results[:rng.randrange(len(records))]
    elif pos[0] == "r":
        records[pos[1]][pos[2]] = kind
    elif pos[0] == "m":
        results[pos[1]][pos[2]][1] = kind
    elif pos[0] == "l":
        results[pos[1]][pos[2]][3] = rng.choice([2, 2, 3, 4, 5, 6])
    else:
        results[pos[1]][pos[2]][0] = 1
    return [tuple(r) for r in records], [[tuple(m) for m in mods] for mods in results], tl


def clean_plan(rng, nrec, nmods):
    records = [(0, 0, 0, 0, int(rng.random() < 0.3)) for _ in range(nrec)]
    results = []
    for i in range(nrec):
        mods = []
        for _ in range(nmods if nmods is not None else rng.choice([0, 1, 1, 2, 2, 3, 4])):
            kind = 0 if rng.random() < 0.15 else 2
            mods.append((kind, 0, rng.randrange(1000), rng.choice([0, 0, 0, 1])))
        results.append(mods)
    if rng.random() < 0.1:
        results.append([(2, rng.choice([0, 1]), 7, rng.choice([0, 2]))])      # surplus results are never looked at
    return records, results


def gen_write_cases(chk, budget):
    """ (fn, hk, tl, records, results) """
    rng = chk.rng
    out = []
    # systematic: every position of every grid up to the tier's bound, every fault kind
    max_rec, max_mod = (2, 3) if chk.tier == "quick" else (3, 4)
    kinds = FAULT_KINDS[:4] if chk.tier == "quick" else FAULT_KINDS
    for nrec in range(0, max_rec + 1):
        for nmod in range(0, max_mod + 1):
            records, results = clean_plan(rng, nrec, nmod)
            results = results[:nrec]
            results = [[(2, 0, m[2], m[3]) for m in mods] for mods in results]
            for fn in (1, 2):
                out.append((fn, 0, 0, records, results))
                for pos in positions(records, results):
                    for kind in (kinds if pos[0] in "rm" else kinds[:1]):
                        plan = apply_fault(records, results, 0, pos, kind, rng)
                        out.append((fn, 0, plan[2], plan[0], plan[1]))
    chk.count("write_systematic_cases", len(out))
    while len(out) < budget:
        fn = rng.choice([1, 1, 2])
        nrec = rng.choice([0, 1, 1, 2, 2, 3, 3, 4, 5])
        records, results = clean_plan(rng, nrec, None)
        tl = 1 if rng.random() < 0.1 else 0
        r = rng.random()
        nfaults = 0 if r < 0.2 else (1 if r < 0.8 else rng.choice([2, 3]))
        for _ in range(nfaults):
            pos = positions(records, results)
            records, results, tl = apply_fault(records, results, tl, rng.choice(pos), rng.choice(FAULT_KINDS), rng)
        hks = [0, 0, 0, 0, 1, 2, 3] + ([4, 4] if fn == 2 else [])
        out.append((fn, rng.choice(hks), tl, records, results))
    return out


def describe_write(fn, hk, tl, records, results):
    return {"function": {1: "AntismashResults.write_to_file", 2: "dump_records"}[fn],
            "handle": {0: "path of an existing file", 1: "path of a new file", 2: "open file-like object",
                       3: "path in a missing directory", 4: "None"}[hk],
            "timings_object": tl,
            "records [fault to_biopython, record_to_json, gather_record_areas, get_gc_content, original_id]": records,
            "results [kind 0 None/2 ModuleResults/1 other, to_json fault, value, object met by json.dumps]": results}


# ------------------------------------------------------------------ part 2: prepare_output_directory

ENTRY_MAKERS = {
    "file": lambda k: (f"file{k}.txt", False), "dir": lambda k: (f"dir{k}", True),
    "input_dir": lambda k: ("input", True), "input_file": lambda k: ("input", False),
    "log": lambda k: ("run.log", False), "region": lambda k: (f"rec{k}.region00{k % 10}.gbk", False),
    "region_dir": lambda k: (f"d{k}.region001.gbk", True), "hidden": lambda k: (f".hidden{k}", False),
    "hidden_region": lambda k: (f".h{k}.region001.gbk", False), "hidden_dir": lambda k: (".git", True),
    "xinput": lambda k: ("myinput", True), "json": lambda k: ("in.json", False),
    "log_region": lambda k: ("log.region001.gbk", False), "gbk": lambda k: (f"rec{k}.gbk", False),
}


def tree_digest(path):
    if os.path.isdir(path):
        parts = []
        for root, dirs, files in sorted(os.walk(path)):
            parts.append((os.path.relpath(root, path), sorted(dirs), sorted(files)))
            for name in sorted(files):
                with open(os.path.join(root, name), "rb") as handle:
                    parts.append(handle.read())
        return hashlib.md5(repr(parts).encode()).hexdigest()
    with open(path, "rb") as handle:
        return hashlib.md5(handle.read()).hexdigest()


def impl_prepare(kind, reuse, dmeta, classes_, logmode, base):
    """ builds the directory from entry classes, calls the real prepare_output_directory,
        returns (flat input, output, observed, names) """
    specs = []
    for k, cls in enumerate(classes_):
        entry, isdir = ENTRY_MAKERS[cls](k)
        specs.append((entry, isdir, cls in ("log", "log_region")))
    return impl_prepare_specs(kind, reuse, dmeta, specs, logmode, base)


def impl_prepare_specs(kind, reuse, dmeta, specs, logmode, base):
    """ specs: (entry name, is directory, is the log file) """
    from antismash import main
    from antismash.config import update_config
    for old in os.listdir(base):
        full = os.path.join(base, old)
        shutil.rmtree(full) if os.path.isdir(full) else os.remove(full)
    name = os.path.join(base, "out[1]" if dmeta else "out")
    logfile = ""
    names = []
    if kind == 2:
        with open(name, "w") as handle:
            handle.write("a file")
    elif kind == 1:
        os.mkdir(name)
        for k, (entry, isdir, islog) in enumerate(specs):
            full = os.path.join(name, entry)
            if os.path.exists(full):
                continue
            if isdir:
                os.mkdir(full)
                with open(os.path.join(full, "inner.txt"), "w") as handle:
                    handle.write(f"inner {k}")
            else:
                with open(full, "w") as handle:
                    handle.write(f"content {k}")
            if islog:
                logfile = full
        names = os.listdir(name)     # scandir order = the order glob yields
    if not logfile and logmode == 1:
        logfile = os.path.join(base, "outside.log")
    elif not logfile and logmode == 2:
        logfile = os.path.join(name, "absent.log")
    entries = []
    digests = {}
    for entry in names:
        full = os.path.join(name, entry)
        attrs = (int(not entry.startswith(".")), int(full.endswith("/input")), int(os.path.isdir(full)),
                 int(os.path.abspath(full) == os.path.abspath(logfile)) if logfile else 0,
                 int(fnmatch.fnmatchcase(entry, "*.region???.gbk")))
        entries.append(attrs)
        digests[entry] = tree_digest(full)
    flat = [kind, int(reuse), int(dmeta), len(entries)]
    for attrs in entries:
        flat += list(attrs)
    update_config({"logfile": logfile, "output_basename": "", "output_dir": name})
    try:
        main.prepare_output_directory(name, "/data/in.json" if reuse else "/data/in.gbk")
        out = [0]
    except Exception as exc:  # pylint: disable=broad-except
        out = [1, local_err_code(exc)]
    after_kind = 0 if not os.path.exists(name) else (1 if os.path.isdir(name) else 2)
    after = []
    if after_kind == 1:
        index = {entry: i for i, entry in enumerate(names)}
        for entry in os.listdir(name):
            if entry not in index:
                after.append(-1)
            elif tree_digest(os.path.join(name, entry)) != digests[entry]:
                after.append(index[entry] + 1000)
            else:
                after.append(index[entry])
        after.sort()
    out += [after_kind, len(after)] + after
    observed = [out[0], after_kind, len(after)] + after
    return flat, out, observed, names


def gen_dir_cases(chk, budget):
    rng = chk.rng
    pool = list(ENTRY_MAKERS)
    cases = []
    # the matrix: every single entry class and every pair with the benign ones, both modes
    for reuse in (False, True):
        for dmeta in (False, True):
            cases.append((1, reuse, dmeta, [], 0))
            for cls in pool:
                cases.append((1, reuse, dmeta, [cls], 0))
                for other in ("input_dir", "log", "region", "hidden"):
                    if other != cls:
                        cases.append((1, reuse, dmeta, [other, cls], 0))
        cases.append((0, reuse, False, [], 0))
        cases.append((2, reuse, False, [], 0))
    chk.count("dir_matrix_cases", len(cases))
    while len(cases) < budget:
        r = rng.random()
        kind = 1 if r < 0.9 else (0 if r < 0.95 else 2)
        n = rng.choice([0, 1, 1, 2, 2, 3, 3, 4, 5, 6])
        weights = rng.choice([pool, ["input_dir", "log", "region", "hidden", "hidden_region", "region_dir"],
                              ["input_dir", "log", "hidden", "hidden_dir"]])
        cases.append((kind, rng.random() < 0.45, rng.random() < 0.1,
                      [rng.choice(weights) for _ in range(n)] if kind == 1 else [], rng.choice([0, 0, 1, 2])))
    return cases


# ------------------------------------------------------------------ the run

RULE = ("write_to_file / dump_records: fault plans over 0-5 records x 0-4 results per record (None / ModuleResults / "
        "other object), a pre-existing target file with known bytes (or a new path, an open handle, a path in a missing "
        "directory, handle=None); systematic part = every conversion position (to_biopython, record_to_json, "
        "gather_record_areas, get_gc_content, each to_json, each custom object met by json.dumps, timings, results "
        "shorter than records, non-ModuleResults value) of every grid up to 2x3 (quick) / 3x4 (thorough) with every "
        "exception kind; random part = 0, 1 or several faults; prepare_output_directory: real temporary directories, "
        "matrix of every entry class alone and paired with input dir / log file / region file / hidden file, both modes, "
        "plain and glob-pattern directory names, plus random listings of 0-6 entries; non-trivial = a write case with at "
        "least one record and at least one fault or a successful write, a directory case with at least one entry; "
        "distinct by flat encoding")


def run(chk):
    if not chk.build_and_audit():
        return chk.finish(RULE)
    quick = chk.tier == "quick"
    n_write = 20000 if quick else 300000
    n_dir = 6000 if quick else 60000
    known = {f["class"]: f for f in common.load_known_findings("C20") if f.get("status") == "known"}
    cases, impl_outs, spec_cases, descr = [], [], [], []
    workdir = tempfile.mkdtemp(prefix="asv_c20_")
    try:
        for fn, hk, tl, records, results in gen_write_cases(chk, n_write):
            payload = enc_write_input(hk, tl, records, results)
            flat = [PROP, fn] + payload
            out, observed = impl_write(fn, hk, tl, records, results, workdir)
            cases.append(flat)
            impl_outs.append(out)
            spec_cases.append([PROP, fn + 10] + payload + observed)
            descr.append(describe_write(fn, hk, tl, records, results))
            chk.count({1: "write_to_file", 2: "dump_records"}[fn])
            chk.count(f"handle_kind_{hk}")
            chk.count(f"records_{len(records)}")
            chk.count("outcome_ok" if out[0] == 0 else "outcome_error_" + common.ERR_NAME.get(out[1], str(out[1])))
            if out[0] == 1 and out[2]:
                chk.count("typeerror_reported_with_message")
            chk.count("conversion_events", len(observed) - 3)
            nontrivial = bool(records) and (out[0] == 1 or observed[1] == 3)
            chk.note_case(flat, nontrivial, {"input": descr[-1], "implementation": out})
        base = os.path.join(workdir, "dirs")
        os.mkdir(base)
        for kind, reuse, dmeta, classes_, logmode in gen_dir_cases(chk, n_dir):
            payload, out, observed, names = impl_prepare(kind, reuse, dmeta, classes_, logmode, base)
            flat = [PROP, 3] + payload
            cases.append(flat)
            impl_outs.append(out)
            spec_cases.append([PROP, 13] + payload + observed)
            descr.append({"function": "prepare_output_directory", "exists": {0: "no", 1: "directory", 2: "file"}[kind],
                          "reuse (input ends with .json)": reuse, "directory name is a glob pattern": dmeta,
                          "entries (listing order)": names})
            chk.count("prepare_output_directory")
            chk.count(f"dir_entries_{len(names)}")
            chk.count("dir_mode_reuse" if reuse else "dir_mode_fresh")
            chk.count("dir_outcome_ok" if out[0] == 0 else f"dir_outcome_error_{out[1]}")
            chk.note_case(flat, kind == 1 and bool(names), {"input": descr[-1], "implementation": out})
    finally:
        shutil.rmtree(workdir, ignore_errors=True)
    model_outs = common.correspondence(chk, cases, impl_outs,
                                       describe=lambda flat: descr[cases.index(flat)])
    # the property itself, evaluated on every observed outcome
    verdicts = common.run_driver(spec_cases)
    reported = 0
    for i, verdict in enumerate(verdicts):
        if verdict and verdict[0] == 1:
            continue
        guard = verdict[1] if len(verdict) > 1 else 1
        cls = FINDING_CLASSES.get(verdict[2]) if len(verdict) > 2 else None
        if len(verdict) == 3 and not guard and cls in known and model_outs[i] == impl_outs[i]:
            chk.count("known_finding_" + cls)
            chk.known(known[cls]["what_fails"])
            continue
        chk.count("property_violations")
        if reported < 5:
            reported += 1
            chk.violation("counterexample", "the implementation's outcome violates the property "
                          f"({descr[i]['function']}" + (f", unlisted finding class {cls}" if cls else "") + ")",
                          {"theorem_or_correspondence": "C20 specification on the observed outcome",
                           "function": cases[i][1], "flat": cases[i], "input": descr[i],
                           "implementation": impl_outs[i], "model": model_outs[i], "spec_verdict": verdict})
    chk.crosscheck_vm(cases, model_outs)
    return chk.finish(RULE)


def replay(chk, path):
    doc = json.load(open(path))
    flat = doc["flat"]
    print("model:", common.run_driver([flat])[0], "recorded implementation:", doc.get("implementation"))
    fn, payload = flat[1], flat[2:]
    workdir = tempfile.mkdtemp(prefix="asv_c20_")
    try:
        if fn in (1, 2):
            hk, tl, nrec = payload[0], payload[1], payload[2]
            pos = 3
            records = [tuple(payload[pos + 5 * i: pos + 5 * i + 5]) for i in range(nrec)]
            pos += 5 * nrec
            nres = payload[pos]
            pos += 1
            results = []
            for _ in range(nres):
                nmod = payload[pos]
                pos += 1
                results.append([tuple(payload[pos + 4 * j: pos + 4 * j + 4]) for j in range(nmod)])
                pos += 4 * nmod
            out, observed = impl_write(fn, hk, tl, records, results, workdir)
            verdict = common.run_driver([[PROP, fn + 10] + payload + observed])[0]
            print("implementation now:", out, "spec verdict:", verdict)
            model = common.run_driver([flat])[0]
            return 1 if (verdict[0] != 1 or model != out) else 0
        kind, reuse, dmeta, count = payload[:4]
        specs = []
        for k in range(count):
            visible, is_input, isdir, islog, region = payload[4 + 5 * k: 9 + 5 * k]
            entry = "input" if is_input else (f"e{k}.region001.gbk" if region else f"e{k}")
            specs.append((entry if visible else "." + entry, bool(isdir), bool(islog)))
        base = os.path.join(workdir, "dirs")
        os.mkdir(base)
        flat2, out, observed, names = impl_prepare_specs(kind, bool(reuse), bool(dmeta), specs, 0, base)
        model = common.run_driver([[PROP, 3] + flat2])[0]
        verdict = common.run_driver([[PROP, 13] + flat2 + observed])[0]
        print("entries:", names, "implementation now:", out, "model:", model, "spec verdict [ok, guard, class]:", verdict)
        known = {f["class"] for f in common.load_known_findings("C20") if f.get("status") == "known"}
        excused = verdict[0] == 0 and verdict[1] == 0 and FINDING_CLASSES.get(verdict[2]) in known
        return 1 if (model != out or (verdict[0] != 1 and not excused)) else 0
    finally:
        shutil.rmtree(workdir, ignore_errors=True)
