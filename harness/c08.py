"""C08: genes belong to exactly the areas that contain them, whatever the build order.
(1) Record.get_cds_features_within_location on real secmet Records with real CDS features (overlapping, nested,
same start, both strands, multi-exon, origin-spanning) for simple, negative-start and compound (wrapped) queries;
(2) histories interleaving add_cds_feature with add_protocluster / add_candidate_cluster / add_subregion /
add_region / create_regions on real objects; observed: area.cds_children, protocluster.definition_cdses, cds.region,
Record.get_cds_features / get_regions order.  Both are compared with the Coq model (coq/C08/Model.v) and the decidable
specification (run_C08 fn + 100) is evaluated on every implementation output."""
import json
import os

import common
from common import err_code

PROP = 8
K_PROTO, K_CAND, K_SUB, K_REGION = 1, 2, 3, 4
STRAND_CODE = {1: 1, -1: -1, 0: 0, None: 2}
CODE_STRAND = {v: k for k, v in STRAND_CODE.items()}

# classes of gene layouts, named after the two repaired findings F13a / F13b (fixed: nothing is suppressed for them; a
# specification failure on such a layout is reported as a VIOLATION that names the class)
CLASS_NAME = {1: "nested_genes", 2: "origin_spanning_gene"}


# ------------------------------------------------------------------ encoding

def enc_loc(parts):
    out = [len(parts)]
    for s, e, st in parts:
        out += [s, e, STRAND_CODE[st]]
    return out


# product names travel as character-code lists: the model compares them as strings.  The pool contains names that
# are proper substrings / prefixes / suffixes of each other (real rule names), a pair differing only in case and an
# unrelated one.
PRODUCTS = ["NRPS", "NRPS-like", "nrps", "lanthipeptide-class-i", "lanthipeptide-class-ii", "PKS", "PKS-like", "T1PKS"]


def enc_str(text):
    return [len(text)] + [ord(c) for c in text]


def enc_gene(gid, parts, cores):
    out = [gid] + enc_loc(parts) + [len(cores)]
    for product in cores:
        out += enc_str(product)
    return out


def enc_area(aid, kind, parts, core, prod, children):
    return [aid, kind] + enc_loc(parts) + enc_loc(core) + enc_str(prod) + [len(children)] + list(children)


def mk_location(parts):
    from antismash.common.secmet.locations import FeatureLocation, CompoundLocation
    fls = [FeatureLocation(s, e, st) for s, e, st in parts]
    return fls[0] if len(fls) == 1 else CompoundLocation(fls)


def loc_parts(location):
    return [(int(p.start), int(p.end), p.strand) for p in location.parts]


_SPY = {}


def spy_record_class():
    """ Record with a hook in front of add_region (Record has __slots__, so the hook is a subclass slot);
        every other method is the real one """
    if "cls" not in _SPY:
        from antismash.common.secmet import Record

        class SpyRecord(Record):
            __slots__ = ["on_add_region"]

            def add_region(self, region):
                if self.on_add_region is not None:
                    self.on_add_region(region)
                super().add_region(region)
        _SPY["cls"] = SpyRecord
    return _SPY["cls"]


def mk_record(length, circular):
    record = spy_record_class()("A" * length)
    record.on_add_region = None
    record.add_annotation("topology", "circular" if circular else "linear")
    return record


def mk_cds(gid, parts, cores):
    from antismash.common.secmet.test.helpers import DummyCDS
    from antismash.common.secmet.qualifiers.gene_functions import GeneFunction
    cds = DummyCDS(location=mk_location(parts), locus_tag=f"g{gid}")
    for prod in cores:
        cds.gene_functions.add(GeneFunction.CORE, "verif", "core", product=prod)
    return cds


# ------------------------------------------------------------------ (1) look-ups

def impl_lookup(length, circular, genes, query, wo):
    try:
        record = mk_record(length, circular)
        ids = {}
        # the answer is a function of the genes in the record, whatever was asked of the record while it was built: between
        # the insertions the SAME look-up, a look-up elsewhere and get_cds_features() are called (results discarded); the
        # choices are a function of the case, so a replay repeats them
        import random
        rnd = random.Random(length * 7919 + len(genes) * 104729 + sum(s + 3 * e for _g, parts, _c in genes for s, e, _ in parts))
        for gid, parts, cores in genes:
            cds = mk_cds(gid, parts, cores)
            ids[id(cds)] = gid
            record.add_cds_feature(cds)
            for _ in range(rnd.choice([0, 0, 1, 2])):
                what = rnd.random()
                try:
                    if what < 0.45:
                        record.get_cds_features_within_location(mk_location(query), with_overlapping=wo)
                    elif what < 0.6:
                        record.get_cds_features_within_location(mk_location(query), with_overlapping=not wo)
                    else:
                        record.get_cds_features()
                except Exception:  # pylint: disable=broad-except
                    pass        # a look-up that raises on the unfinished record is reported for the finished one below
        found = record.get_cds_features_within_location(mk_location(query), with_overlapping=wo)
        return [0, len(found)] + [ids[id(f)] for f in found]
    except Exception as exc:  # pylint: disable=broad-except
        return [1, err_code(exc)]


def gen_gene_parts(rng, n, circular, style):
    """ one gene location on a record of length n """
    strand = rng.choice([1, -1])
    r = rng.random()
    if circular and r < (0.12 if style != "plain" else 0.0) and n >= 6:
        s = rng.randint(2, n - 1)
        e = rng.randint(1, s - 1)
        parts = [(s, n, strand), (0, e, strand)]
        return parts if strand == 1 else parts[::-1]
    if r < (0.25 if style == "exons" else 0.04 if style != "plain" else 0.0) and n >= 8:
        a = rng.randint(0, n - 6)
        b = rng.randint(a + 1, n - 4)
        c = rng.randint(b + 1, n - 2)
        d = rng.randint(c + 1, n)
        parts = [(a, b, strand), (c, d, strand)]
        return parts if strand == 1 else parts[::-1]
    s = rng.randint(0, n - 1)
    e = rng.randint(s + 1, min(n, s + rng.choice([1, 3, 6, n])))
    return [(s, e, strand)]


def gen_layout(rng, n, circular):
    """ list of gene locations; styles: monotone (no gene nested in another), nested, same-start, random, multi-exon,
        plain; every one satisfies the hypotheses of C08_lookup """
    style = rng.choice(["monotone", "monotone", "nested", "samestart", "random", "random", "exons", "plain"])
    k = rng.choice([1, 2, 3, 3, 4, 4, 5, 6, 8])
    locs = []
    if style == "monotone":
        s, e = rng.randint(0, 3), 0
        for _ in range(k):
            s = min(n - 1, s + rng.choice([0, 0, 1, 2, 5]))
            e = min(n, max(e, s + 1) + rng.choice([0, 0, 1, 3]))
            if s < e:
                locs.append([(s, e, rng.choice([1, -1]))])
    elif style == "nested":
        s, e = rng.randint(0, n // 3), rng.randint(2 * n // 3, n)
        for _ in range(k):
            locs.append([(s, e, rng.choice([1, -1]))])
            r = rng.random()
            if r < 0.6 and e - s > 2:
                s2 = rng.randint(s, e - 2)
                e = rng.randint(s2 + 1, e)
                s = s2
            else:
                s = rng.randint(0, n - 1)
                e = rng.randint(s + 1, n)
    elif style == "samestart":
        s = rng.randint(0, n - 2)
        for _ in range(k):
            if rng.random() < 0.3:
                s = rng.randint(0, n - 2)
            locs.append([(s, rng.randint(s + 1, n), rng.choice([1, -1]))])
    else:
        for _ in range(k):
            locs.append(gen_gene_parts(rng, n, circular, style))
    if rng.random() < 0.7:
        rng.shuffle(locs)
    return style, locs


def gen_query(rng, n, circular, locs):
    r = rng.random()
    bounds = sorted({x for parts in locs for s, e, _ in parts for x in (s, e)})

    def pick():
        if bounds and rng.random() < 0.7:
            return max(0, min(n, rng.choice(bounds) + rng.choice([-1, 0, 0, 1])))
        return rng.randint(0, n)
    if circular and r < 0.15 and n >= 4:
        s = rng.randint(1, n - 1)
        e = rng.randint(1, s)
        return "wrapped", [(s, n, 1), (0, e, 1)]
    if r < 0.22:
        parts = []
        for _ in range(rng.choice([2, 2, 3])):
            s = pick()
            e = pick()
            if s == e:
                e = min(n, s + 1)
                s = e - 1
            parts.append((min(s, e), max(s, e), rng.choice([1, 1, -1, None])))
        return "compound", parts
    if r < 0.30:
        e = max(1, pick())
        return "negative", [(-rng.choice([1, 5, 1000]), e, rng.choice([1, None]))]
    s = pick()
    e = pick()
    if s == e:
        if s == n:
            s -= 1
        else:
            e += 1
    return "simple", [(min(s, e), max(s, e), rng.choice([1, -1, None, 0]))]


# ------------------------------------------------------------------ (2) histories

class History:
    """ runs a list of operations on a real Record and reports the observation points """
    def __init__(self, length, circular):
        self.record = mk_record(length, circular)
        self.genes = {}       # gid -> cds
        self.areas = {}       # aid -> object
        self.order = []       # aids in insertion order
        self.flat_ops = []
        self.next_aid = 100

    def aid_of(self, obj):
        for aid, other in self.areas.items():
            if other is obj:
                return aid
        raise KeyError("unknown collection")

    def add_gene(self, gid, parts, cores):
        cds = mk_cds(gid, parts, cores)
        self.genes[gid] = cds
        self.flat_ops.append([1] + enc_gene(gid, parts, cores))
        self.record.add_cds_feature(cds)

    def _register(self, obj, kind, core=None, prod="", children=()):
        aid = self.next_aid
        self.next_aid += 1
        self.areas[aid] = obj
        self.order.append(aid)
        core_parts = loc_parts(core) if core is not None else [(0, 0, None)]
        self.flat_ops.append([2] + enc_area(aid, kind, loc_parts(obj.location), core_parts, prod, list(children)))
        return aid

    def add_subregion(self, parts):
        from antismash.common.secmet.features import SubRegion
        sub = SubRegion(mk_location(parts), "verif", label="s")
        aid = self._register(sub, K_SUB)
        self.record.add_subregion(sub)
        return aid

    def add_protocluster(self, parts, core_parts, prod):
        from antismash.common.secmet.features import Protocluster
        proto = Protocluster(mk_location(core_parts), mk_location(parts), "verif", prod, 10, 10, True, "cat")
        aid = self._register(proto, K_PROTO, core=proto.core_location, prod=prod)
        self.record.add_protocluster(proto)
        return aid

    def add_candidate(self, proto_aids, wrap_point=None):
        from antismash.common.secmet.features import CandidateCluster
        from antismash.common.secmet.features.candidate_cluster import CandidateClusterKind
        protos = [self.areas[a] for a in proto_aids]
        kind = CandidateClusterKind.SINGLE if len(protos) == 1 else CandidateClusterKind.INTERLEAVED
        kwargs = {}
        if any(p.crosses_origin() for p in protos):
            kwargs["circular_wrap_point"] = wrap_point
        cand = CandidateCluster(kind, protos, **kwargs)
        aid = self._register(cand, K_CAND, children=proto_aids)
        self.record.add_candidate_cluster(cand)
        return aid

    def add_region(self, cand_aids, sub_aids):
        from antismash.common.secmet.features import Region
        region = Region([self.areas[a] for a in cand_aids], [self.areas[a] for a in sub_aids])
        aid = self._register(region, K_REGION, children=list(sub_aids) + list(cand_aids))
        self.record.add_region(region)
        return aid

    def create_regions(self):
        """ Record.create_regions; every add_region call it makes becomes one region operation """
        record = self.record

        def spy(region):
            children = [self.aid_of(c) for c in region.subregions] + [self.aid_of(c) for c in region.candidate_clusters]
            self._register(region, K_REGION, children=children)
        record.on_add_region = spy
        try:
            record.create_regions()
        finally:
            record.on_add_region = None

    def observe(self):
        record = self.record
        gid_of = {id(c): g for g, c in self.genes.items()}
        features = record.get_cds_features()
        out = [0, len(features)] + [gid_of[id(f)] for f in features]
        out.append(len(self.order))
        for aid in self.order:
            obj = self.areas[aid]
            mem = [gid_of[id(c)] for c in obj.cds_children]
            defs = sorted(gid_of[id(c)] for c in obj.definition_cdses) if hasattr(obj, "definition_cdses") else []
            out += [aid, len(mem)] + mem + [len(defs)] + defs
        regions = record.get_regions()
        out += [len(regions)] + [self.aid_of(r) for r in regions]
        out.append(len(features))
        for f in features:
            out += [gid_of[id(f)], self.aid_of(f.region) if f.region is not None else -1]
        return out


def gen_history(rng):
    """ returns (length, circular, ops) with ops = list of tuples; areas refer to earlier areas by index """
    n = rng.choice([40, 60, 100])
    circular = rng.random() < 0.25
    style, locs = gen_layout(rng, n, circular and rng.random() < 0.5)
    seen = set()
    genes = []
    for parts in locs:
        if tuple(parts) in seen and rng.random() < 0.9:
            continue
        seen.add(tuple(parts))
        cores = [p for p in PRODUCTS if rng.random() < 0.25]
        rng.shuffle(cores)
        genes.append(("gene", len(genes), parts, cores))
    bounds = sorted({x for _, _, parts, _ in genes for s, e, _ in parts for x in (s, e)}) or [0, n]

    def interval(min_len=1):
        for _ in range(20):
            s = max(0, min(n - 1, rng.choice(bounds) + rng.choice([-3, -1, 0, 0, 0, 1])))
            e = max(0, min(n, rng.choice(bounds) + rng.choice([-1, 0, 0, 0, 1, 3])))
            if e - s >= min_len:
                return s, e
        s = rng.randint(0, n - min_len)
        return s, rng.randint(s + min_len, n)
    areas = []
    for _ in range(rng.choice([1, 2, 2, 3, 4])):
        r = rng.random()
        if r < 0.45:
            s, e = interval()
            areas.append(("sub", [(s, e, 1)]))
        else:
            s, e = interval(2)
            cs = rng.randint(s, e - 1)
            ce = rng.randint(cs + 1, e)
            if genes and rng.random() < 0.6:   # core = one gene's extent when it fits
                _, _, parts, _ = rng.choice(genes)
                gs, ge = min(p[0] for p in parts), max(p[1] for p in parts)
                if gs < ge and len(parts) == 1:
                    cs, ce = gs, ge
                    s, e = max(0, gs - rng.choice([0, 2, 10])), min(n, ge + rng.choice([0, 2, 10]))
            areas.append(("proto", [(s, e, 1)], [(cs, ce, 1)], rng.choice(PRODUCTS)))
            if rng.random() < 0.7:
                members = [len(areas) - 1]
                earlier = [i for i, other in enumerate(areas[:-1]) if other[0] == "proto"]
                if earlier and rng.random() < 0.4:      # a candidate cluster with two protoclusters
                    members.append(rng.choice(earlier))
                areas.append(("cand", members))
    ops = genes + [("area", a) for a in areas]
    # interleave: keep "cand" after its protocluster; everything else in random order
    keyed = []
    for op in ops:
        keyed.append([rng.random(), op])
    for i, (key, op) in enumerate(keyed):
        if op[0] == "area" and op[1][0] == "cand":
            for member in op[1][1]:
                proto_pos = [j for j, (_, o) in enumerate(keyed) if o[0] == "area" and o[1] is areas[member]][0]
                keyed[i][0] = max(keyed[i][0], keyed[proto_pos][0] + 1e-6)
    mode = rng.choice(["random", "random", "genes_first", "areas_first"])
    if mode == "genes_first":
        for item in keyed:
            item[0] += 0 if item[1][0] == "gene" else 2
    elif mode == "areas_first":
        for item in keyed:
            item[0] += 2 if item[1][0] == "gene" else 0
    keyed.sort(key=lambda x: x[0])
    seq = [op for _, op in keyed]
    # regions: created at a random position after the last area, by create_regions or explicit add_region
    area_pos = [i for i, op in enumerate(seq) if op[0] == "area"]
    if area_pos and rng.random() < 0.8:
        pos = rng.randint(area_pos[-1] + 1, len(seq))
        seq.insert(pos, ("regions", rng.choice(["create", "create", "explicit"])))
    return n, circular, style, mode, seq, areas


def run_history(n, circular, seq, areas):
    hist = History(n, circular)
    index_to_aid = {}
    try:
        for op in seq:
            if op[0] == "gene":
                hist.add_gene(op[1], op[2], op[3])
            elif op[0] == "area":
                spec = op[1]
                idx = [i for i, a in enumerate(areas) if a is spec][0]
                if spec[0] == "sub":
                    index_to_aid[idx] = hist.add_subregion(spec[1])
                elif spec[0] == "proto":
                    index_to_aid[idx] = hist.add_protocluster(spec[1], spec[2], spec[3])
                else:
                    index_to_aid[idx] = hist.add_candidate([index_to_aid[i] for i in spec[1]])
            elif op[1] == "create":
                hist.create_regions()
            else:
                # explicit: one region per connected group of top-level areas (computed here, simple intervals)
                tops = [(aid, hist.areas[aid]) for aid in hist.order
                        if type(hist.areas[aid]).__name__ in ("SubRegion", "CandidateCluster")]
                tops.sort(key=lambda t: (int(t[1].location.start), -int(t[1].location.end)))
                groups = []
                for aid, obj in tops:
                    s, e = int(obj.location.start), int(obj.location.end)
                    if groups and s < groups[-1][1]:
                        groups[-1][1] = max(groups[-1][1], e)
                        groups[-1][2].append((aid, obj))
                    else:
                        groups.append([s, e, [(aid, obj)]])
                order = list(range(len(groups)))
                order.reverse()      # add the regions from right to left: exercises the insertion loop
                for gi in order:
                    members = groups[gi][2]
                    hist.add_region([a for a, o in members if type(o).__name__ == "CandidateCluster"],
                                    [a for a, o in members if type(o).__name__ == "SubRegion"])
        out = hist.observe()
    except Exception as exc:  # pylint: disable=broad-except
        out = [1, err_code(exc)]
    flat = [PROP, 2, len(hist.flat_ops)] + [x for op in hist.flat_ops for x in op]
    return flat, out, hist


RULE = ("(1) look-ups: records of 8-60 bases (linear / circular), 1-8 genes in layouts monotone, nested, "
        "same-start, random, multi-exon and origin-spanning, both strands, shuffled insertion order; queries simple (ends on "
        "gene boundaries +-1), negative start (end >= 1), compound (2-3 parts) and wrapped; with_overlapping both ways. "
        "(2) histories: 1-8 genes with CORE annotations for products drawn from a pool of rule names that are substrings / prefixes of each other (compared as strings), 1-6 areas (sub-regions, protoclusters with a core, "
        "candidate clusters of one or two protoclusters) and regions made by create_regions or explicit add_region, interleaved at "
        "random / genes first / areas first; final cds_children, definition_cdses, cds.region, gene order and region order "
        "compared with the model.  The specification (exact set, order) is evaluated on every implementation output; every output "
        "violating it is a VIOLATION (the classes nested_genes / origin_spanning_gene of the repaired findings F13a / F13b are "
        "named in the report, nothing is suppressed); the hypotheses of C08_lookup hold on every generated look-up. "
        "Non-trivial = look-up with >= 2 genes and a non-empty answer, or history with a gene inside an area")


def run(chk):
    if not chk.build_and_audit():
        return chk.finish(RULE)
    rng = chk.rng
    quick = chk.tier == "quick"
    n_lookup_layouts = 4000 if quick else 60000
    n_hist = 4000 if quick else 60000
    cases, impl_outs, infos = [], [], []

    # regression corpus: witnesses of the repaired defects F35 / F30 / F13a (nested_genes) / F13b (origin_spanning_gene)
    nested = [(0, [(6, 10, 1)], []), (1, [(6, 23, 1)], []), (2, [(6, 26, 1)], []), (3, [(8, 19, 1)], [])]
    spanning = [(0, [(35, 40, 1), (0, 4, 1)], []), (1, [(10, 14, 1)], []), (2, [(20, 30, 1)], [])]
    corpus_lookups = [
        (100, True, [(0, [(85, 95, 1)], [])], [(90, 100, 1), (0, 10, 1)], True),
        # F13a: the forward scan stopped at [6:23) (neither a hit nor the container of its successor) ...
        (30, False, nested, [(5, 20, 1)], False),
        # ... and the walk back stopped at [8:19), which ends before the query although [6:23) and [6:26) reach it
        (30, False, nested, [(20, 22, 1)], True),
        (30, False, nested[::-1], [(20, 22, 1)], True),
        # a multi-exon gene whose second exon reaches the query, followed by a short gene that ends before it
        (60, False, [(0, [(2, 5, 1), (40, 50, 1)], []), (1, [(8, 12, 1)], []), (2, [(30, 45, 1)], [])], [(38, 48, 1)], True),
        # F13b: the gene crossing the origin was not reached by a query before the origin, nor by one after it
        (40, True, spanning, [(36, 40, 1)], True),
        (40, True, spanning, [(2, 12, 1)], True),
        (40, True, spanning + [(3, [(32, 37, 1)], [])], [(31, 40, 1), (0, 12, 1)], True),
        (40, True, spanning + [(3, [(32, 37, -1)], []), (4, [(0, 3, -1), (36, 40, -1)], [])], [(31, 40, 1), (0, 12, 1)], False),
        (40, True, spanning + [(3, [(32, 37, 1)], [])], [(0, 40, 1)], False),
    ]
    todo = list(corpus_lookups)
    for _ in range(n_lookup_layouts):
        n = rng.choice([8, 12, 20, 30, 60])
        circular = rng.random() < 0.5
        style, locs = gen_layout(rng, n, circular)
        if rng.random() < 0.93:      # a repeated location is refused by add_cds_feature: keep that path rare
            locs = [parts for i, parts in enumerate(locs) if parts not in locs[:i]]
        genes = [(i, parts, []) for i, parts in enumerate(locs)]
        for _ in range(4):
            qkind, q = gen_query(rng, n, circular, locs)
            wo = rng.random() < 0.5
            todo.append((n, circular, genes, q, wo, style, qkind))
    for item in todo:
        n, circular, genes, q, wo = item[:5]
        style, qkind = (item[5], item[6]) if len(item) > 5 else ("corpus", "corpus")
        flat = [PROP, 1, len(genes)] + [x for g in genes for x in enc_gene(*g)] + enc_loc(q) + [int(wo)]
        out = impl_lookup(n, circular, genes, q, wo)
        cases.append(flat)
        impl_outs.append(out)
        infos.append({"function": "Record.get_cds_features_within_location", "length": n, "circular": circular,
                      "genes_in_insertion_order": [g[1] for g in genes], "query": q, "with_overlapping": wo})
        chk.count("lookup_layout_" + style)
        chk.count("lookup_query_" + qkind + ("_overlapping" if wo else "_within"))
        if out[0] == 1:
            chk.count("error_" + common.ERR_NAME.get(out[1], str(out[1])))
        chk.note_case(flat, len(genes) >= 2 and out[0] == 0 and out[1] >= 1, dict(infos[-1], implementation=out))

    # F30 witness: three sub-regions, a gene equal to the first region, added after the regions
    corpus_hist = [(1000, False, [("area", ("sub", [(100, 200, 1)])), ("area", ("sub", [(400, 500, 1)])),
                                  ("area", ("sub", [(700, 800, 1)])), ("regions", "create"),
                                  ("gene", 0, [(100, 200, 1)], []), ("gene", 1, [(410, 490, 1)], []),
                                  ("gene", 2, [(700, 800, -1)], [])]),
                   # product names are compared as strings: a gene with a CORE annotation for "lanthipeptide-class-i"
                   # inside the core of an overlapping "lanthipeptide-class-ii" protocluster is not a definition gene
                   # of the latter (both build orders)
                   (2000, False, [("gene", 0, [(120, 290, 1)], ["lanthipeptide-class-i"]),
                                  ("gene", 1, [(310, 420, 1)], ["lanthipeptide-class-i"]),
                                  ("area", ("proto", [(70, 470, 1)], [(120, 420, 1)], "lanthipeptide-class-i")),
                                  ("area", ("proto", [(250, 750, 1)], [(300, 700, 1)], "lanthipeptide-class-ii")),
                                  ("gene", 2, [(450, 700, -1)], ["lanthipeptide-class-ii"]),
                                  ("gene", 3, [(1320, 1500, 1)], ["NRPS", "NRPS-like"]),
                                  ("gene", 4, [(1520, 1600, -1)], ["NRPS"]),
                                  ("area", ("proto", [(1050, 1650, 1)], [(1100, 1600, 1)], "NRPS-like")),
                                  ("regions", "create")])]
    # F13a / F13b in histories: areas added AFTER nested / origin-crossing genes list them as members
    corpus_hist.append((30, False, [("gene", 0, [(6, 10, 1)], []), ("gene", 1, [(6, 23, 1)], []), ("gene", 2, [(6, 26, 1)], []),
                                    ("gene", 3, [(8, 19, 1)], ["NRPS"]), ("area", ("sub", [(5, 20, 1)])),
                                    ("area", ("proto", [(6, 27, 1)], [(8, 19, 1)], "NRPS")), ("area", ("sub", [(6, 23, 1)])),
                                    ("regions", "create")]))
    corpus_hist.append((40, True, [("gene", 0, [(35, 40, 1), (0, 4, 1)], []), ("gene", 1, [(10, 14, 1)], []),
                                   ("gene", 2, [(20, 30, 1)], []), ("gene", 3, [(0, 2, 1)], []),
                                   ("area", ("sub", [(0, 40, 1)])), ("area", ("sub", [(0, 15, 1)])), ("regions", "create")]))
    hists = []
    for n, circular, seq in corpus_hist:
        hists.append((n, circular, "corpus", "areas_first", seq, [op[1] for op in seq if op[0] == "area"]))
    for _ in range(n_hist):
        hists.append(gen_history(rng))
    for n, circular, style, mode, seq, areas in hists:
        flat, out, hist = run_history(n, circular, seq, areas)
        cases.append(flat)
        impl_outs.append(out)
        infos.append({"function": "history", "length": n, "circular": circular,
                      "operations": [list(op[:1]) + [op[1] if op[0] != "gene" else list(op[1:])] for op in seq]})
        chk.count("history_layout_" + style)
        chk.count("history_order_" + mode)
        chk.count("history_regions_" + next((op[1] for op in seq if op[0] == "regions"), "none"))
        if out[0] == 1:
            chk.count("error_" + common.ERR_NAME.get(out[1], str(out[1])))
        nontrivial = out[0] == 0 and any(len(a.cds_children) > 0 for a in hist.areas.values())
        chk.note_case(flat, nontrivial, dict(infos[-1], implementation=out[:60]))

    model_outs = common.correspondence(chk, cases, impl_outs, spec_fn_offset=100,
                                       describe=lambda flat: infos[cases.index(flat)])
    # the property itself, evaluated on every implementation output
    spec_cases = [[c[0], c[1] + 100] + c[2:] + o for c, o in zip(cases, impl_outs)]
    verdicts = common.run_driver(spec_cases)
    reported = set()
    for i, verdict in enumerate(verdicts):
        if len(verdict) != 3:
            chk.violation("broken-correspondence", "specification function could not decode the implementation output",
                          {"theorem_or_correspondence": "run_C08 fn+100", "flat": spec_cases[i], "input": infos[i]})
            break
        ok, guard, cls = verdict
        what = "lookup" if cases[i][1] == 1 else "history"
        chk.count(f"{what}_guard_{'holds' if guard else 'fails'}")
        if ok:
            continue
        # no class is suppressed: F13a nested_genes / F13b origin_spanning_gene are repaired, the class only names the layout
        name = CLASS_NAME.get(cls, "?")
        chk.count(f"{what}_spec_fails_class_{name}")
        if len(reported) < 3:
            reported.add(i)
            chk.violation("counterexample",
                          (f"{infos[i]['function']}: the implementation's answer is not the set of genes the location "
                           f"contains/overlaps" if what == "lookup" else
                           "history: in the final record some area's cds_children are not exactly the genes its location "
                           "contains, or a protocluster's definition_cdses are not exactly the genes in its core with a "
                           "CORE annotation for its product, or a gene's region is not the region containing it")
                          + f" (guard {'holds' if guard else 'fails'}, layout class {name}: the repaired finding "
                            f"{'F13a' if cls == 1 else 'F13b' if cls == 2 else '?'} would show like this)",
                          {"theorem_or_correspondence": "C08_lookup" if what == "lookup"
                           else "C08_membership_order_independent", "flat": cases[i],
                           "input": infos[i], "implementation": impl_outs[i], "model": model_outs[i]})
    chk.crosscheck_vm(cases, model_outs)
    return chk.finish(RULE)


def replay(chk, path):
    doc = json.load(open(path))
    if "flat" in doc:
        flat = doc["flat"]
        print("input:", json.dumps(doc.get("input")))
        print("model:", common.run_driver([flat])[0])
        print("recorded implementation:", doc.get("implementation"))
        if doc.get("implementation"):
            print("spec verdict [ok, guard, class]:",
                  common.run_driver([[flat[0], flat[1] + 100] + flat[2:] + doc["implementation"]])[0])
    else:
        print(doc.get("what"), doc.get("log", "")[:2000])
    return 0
