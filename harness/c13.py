"""C13: correspondence for HMM hit refinement
   fn 1/2  hmmscan_refinement.refine_hmmscan_results (neighbour mode / default mode)
   fn 3    hmmer.remove_overlapping
   fn 4    cluster_prediction.filter_result_multiple
   fn 5    cluster_prediction.filter_results
   fn 6    domain_identification.filter_nonterminal_docking_domains
   fn 7    hmmscan_refinement.HMMResult.merge
   plus, on every implementation output, the decidable specifications of coq/C13/Model.v
   (fn 101/102/103/105/107), and a second call of the implementation on a shuffled copy of the input
   (order independence of the implementation)."""
import json
import types

import common
from common import err_code

PROP = 13
EV_UNIT = 1e-10
FN_NAME = {1: "refine_hmmscan_results(neighbour_mode=True)", 2: "refine_hmmscan_results(neighbour_mode=False)",
           3: "hmmer.remove_overlapping", 4: "filter_result_multiple", 5: "filter_results", 8: "find_hmmer_hits (filter_results then filter_result_multiple)",
           6: "filter_nonterminal_docking_domains", 7: "HMMResult.merge"}

KNOWN_TEXT = {
    "greedy_replacement_margin": "refine_hmmscan_results returns hits overlapping by more than 20% of the longer profile: "
                                 "_remove_overlapping replaces `previous` without re-checking the hit before it",
}
# repaired classes (F41, F42, F43, FC13a): nothing is suppressed for them; a case of one of them is a counterexample
REPAIRED_TEXT = {
    "merge_truncates": "HMMResult.merge of a hit with a nested or equal-start fragment of the same profile returns a hit "
                       "that does not span both (class merge_truncates, repaired as F41)",
    "hmmer_first_short_duplicate": "hmmer.remove_overlapping returns a hit more often than the input list holds it "
                                   "(class hmmer_first_short_duplicate, repaired as F42)",
    "hmmer_equal_start_order": "hmmer.remove_overlapping: the result depends on the order of the input list "
                               "(class hmmer_equal_start_order, repaired as F43)",
    "filter_groups_not_merged": "filter_results keeps more than the single best-scoring hit of a chain of >20 overlaps (two groups "
                                "of one chain are not united; class filter_groups_not_merged, repaired as FC13a)",
}


def known_classes():
    return {f["class"] for f in common.load_known_findings("C13") if f.get("status") == "known"}


# ---------------------------------------------------------------- fn 1 / 2 : refine_hmmscan_results

def prof_name(i, reg):
    return f"p{i:02d}" + ("_regulator" if reg else "")


def impl_refine(fn, table, hits, split):
    """ table: [(present, L, reg)], hits: [(gene, prof, st, en, ev, sc2)], split: QueryResult index per hit """
    from antismash.common.hmmscan_refinement import refine_hmmscan_results
    names = [prof_name(i, reg) for i, (_p, _l, reg) in enumerate(table)]
    index = {n: i for i, n in enumerate(names)}
    lengths = {names[i]: length for i, (present, length, _r) in enumerate(table) if present}
    nres = max(split) + 1 if split else 0
    results = [types.SimpleNamespace(hsps=[]) for _ in range(nres)]
    for (gene, prof, start, end, evalue, score), where in zip(hits, split):
        results[where].hsps.append(types.SimpleNamespace(query_id=f"g{gene:03d}", hit_id=names[prof], query_start=start,
                                                         query_end=end, evalue=evalue * EV_UNIT, bitscore=score / 2))
    try:
        refined = refine_hmmscan_results(results, lengths, neighbour_mode=(fn == 1))
    except Exception as exc:  # pylint: disable=broad-except
        return [1, err_code(exc)]
    out = [0, len(refined)]
    for gene in sorted(refined):
        out += [int(gene[1:]), len(refined[gene])]
        for hit in refined[gene]:
            evalue = round(hit.evalue / EV_UNIT)
            assert evalue * EV_UNIT == hit.evalue and (hit.bitscore * 2).is_integer()
            out += [index[hit.hit_id], hit.query_start, hit.query_end, evalue, int(hit.bitscore * 2)]
    return out


def enc_refine(fn, table, hits):
    flat = [PROP, fn, len(table)]
    for entry in table:
        flat += [int(entry[0]), entry[1], int(entry[2])]
    flat.append(len(hits))
    for hit in hits:
        flat += list(hit)
    return flat


LENGTHS = [10, 12, 15, 20, 25, 30, 33, 40, 50, 100]


def gen_refine(rng):
    nprof = rng.choice([1, 2, 2, 3, 3, 4])
    table = [(0 if rng.random() < 0.01 else 1, rng.choice(LENGTHS), 1 if rng.random() < 0.2 else 0) for _ in range(nprof)]
    ngenes = rng.choice([1, 1, 1, 2, 3])
    nhits = rng.choice([1, 2, 2, 3, 3, 4, 4, 5, 6, 7, 8])
    scores = rng.choice([[20, 40, 60], [20, 21, 40], [20], [10, 20, 30, 40, 50, 60, 70]])
    evalues = rng.choice([[1, 2, 3], [5], [1, 10, 100]])
    step = rng.choice([1, 5, 5, 10])
    hits = []
    for _ in range(nhits):
        gene = rng.randrange(ngenes)
        mine = [h for h in hits if h[0] == gene]
        prof = rng.randrange(nprof)
        length = table[prof][1]
        r = rng.random()
        if mine and r < 0.45:
            other = rng.choice(mine)
            lmax = max(length, table[other[1]][1])
            kind = rng.random()
            if kind < 0.45:      # on the 20 % margin of an earlier hit: 5*start vs 5*end - L
                start = other[3] - lmax // 5 + rng.choice([-1, 0, 0, 1, 2])
            elif kind < 0.65:    # equal start
                start = other[2]
            elif kind < 0.85:    # nested / chained
                start = other[2] + rng.randint(0, max(1, other[3] - other[2]))
            else:
                start = other[3] + rng.choice([0, 1, step])
        else:
            start = rng.randint(0, 12) * step
        start = max(0, start)
        r = rng.random()
        same = [h for h in mine if h[1] == prof]
        if same and r < 0.35:     # span to an earlier fragment of the same profile on 1.5 L
            first = rng.choice(same)
            end = first[2] + (3 * length) // 2 + rng.choice([-1, 0, 0, 1, 2])
        elif r < 0.6:             # completeness boundaries 0.5 L and L / 3
            end = start + rng.choice([length // 2, length // 2 + 1, (length + 1) // 2, length // 3, length // 3 + 1,
                                      (length + 2) // 3])
        elif r < 0.7 and mine:
            end = rng.choice(mine)[3]
        else:
            end = start + rng.randint(1, max(2, length + length // 4))
        if end <= start:
            end = start + rng.randint(1, 5)
        hits.append((gene, prof, start, end, rng.choice(evalues), rng.choice(scores)))
    if rng.random() < 0.25:   # duplicated fragments (gather_by_query builds a set)
        for _ in range(rng.choice([1, 1, 2])):
            hits.append(rng.choice(hits))
    rng.shuffle(hits)
    nres = rng.choice([1, 1, 2, 3])
    split = [rng.randrange(nres) for _ in hits]
    return table, hits, split


# ---------------------------------------------------------------- fn 3 : hmmer.remove_overlapping

def impl_hmmer(limit, cutoffs, hits):
    """ cutoffs: [None | 2*cutoff], hits: [(ident, start, end, 2*score)] """
    from antismash.common import hmmer
    name = lambda i: f"PF{i:05d}"
    objs = []
    for ident, start, end, score in hits:
        objs.append(hmmer.HmmerHit(location=f"[{start}:{end}]", label="l", locus_tag="cds", domain=f"d{ident}",
                                   evalue=1e-5, score=score / 2, identifier=name(ident), description="",
                                   protein_start=start, protein_end=end, translation="A" * (end - start)))
    cut = {name(i): c / 2 for i, c in enumerate(cutoffs) if c is not None}
    try:
        result = hmmer.remove_overlapping(objs, cut, overlap_limit=limit)
    except Exception as exc:  # pylint: disable=broad-except
        return [1, err_code(exc)]
    out = [0, len(result)]
    for hit in result:
        out += [int(hit.identifier[2:]), hit.protein_start, hit.protein_end, int(hit.score * 2)]
    return out


def enc_hmmer(limit, cutoffs, hits):
    flat = [PROP, 3, limit, len(cutoffs)]
    for cutoff in cutoffs:
        flat += [0] if cutoff is None else [1, cutoff]
    flat.append(len(hits))
    for hit in hits:
        flat += list(hit)
    return flat


def gen_hmmer(rng):
    nid = rng.choice([1, 2, 3, 4])
    cutoffs = [None if rng.random() < 0.01 else rng.choice([20, 40, 50, 60, 100]) for _ in range(nid)]
    limit = rng.choice([0, 1, 5, 10, 10, 10, 20])
    nhits = rng.choice([0] + [1] * 3 + [2] * 6 + [3] * 8 + [4] * 8 + [5] * 6 + [6] * 4 + [7, 8, 9])
    scores = rng.choice([[20, 40, 60, 80], [40], [20, 40, 50, 100, 200], [30, 60, 90, 45]])
    hits = []
    for _ in range(nhits):
        ident = rng.randrange(nid)
        r = rng.random()
        if hits and r < 0.5:
            other = rng.choice(hits)
            kind = rng.random()
            if kind < 0.4:     # group boundary: max_current - limit < start
                start = max(h[2] for h in hits) - limit + rng.choice([-1, 0, 1])
            elif kind < 0.7:   # conflict boundary: start <= other.end - limit
                start = other[2] - limit + rng.choice([-1, 0, 1])
            elif kind < 0.85:
                start = other[1]
            else:
                start = other[1] + rng.randint(0, max(1, other[2] - other[1]))
        else:
            start = rng.randint(0, 60)
        start = max(0, start)
        r = rng.random()
        if hits and r < 0.3:   # end >= other.start + limit
            end = rng.choice(hits)[1] + limit + rng.choice([-1, 0, 1])
        elif r < 0.45:
            end = start + rng.randint(1, max(1, limit))   # shorter than the limit
        else:
            end = start + rng.randint(1, 40)
        if end <= start:
            end = start + rng.randint(1, 12)
        hits.append((ident, start, end, rng.choice(scores)))
    if hits and rng.random() < 0.2:
        hits.append(rng.choice(hits))
    rng.shuffle(hits)
    return limit, cutoffs, hits


# ---------------------------------------------------------------- fn 4 / 5 : cluster_prediction filters

class Hsp:
    """ stand-in for Bio's HSP: identity equality; the hash (and with it the iteration order of a
        small set) is chosen by the generator """
    def __init__(self, hid, prof, start, end, score, rank):
        self.hid = hid
        self.query_id = f"prof{prof:02d}"
        self.hit_start = start
        self.hit_end = end
        self.bitscore = score / 2
        self.rank = rank

    def __hash__(self):
        return self.rank


def impl_frm(cds):
    """ cds: [[(hid, prof, hit_start, 2*score)]] """
    from antismash.common.hmm_rule_parser import cluster_prediction as cp
    by_id = {}
    results = []
    for i, hits in enumerate(cds):
        by_id[f"c{i:03d}"] = [Hsp(hid, prof, start, start + 30, score, hid) for hid, prof, start, score in hits]
        results.extend(by_id[f"c{i:03d}"])
    try:
        results, by_id = cp.filter_result_multiple(results, by_id)
    except Exception as exc:  # pylint: disable=broad-except
        return [1, err_code(exc)]
    out = [0, len(results)] + [h.hid for h in results] + [len(by_id)]
    for key in sorted(by_id):
        out += [len(by_id[key])] + [h.hid for h in by_id[key]]
    return out


def gen_frm(rng):
    ncds = rng.choice([1, 1, 2, 3])
    nprof = rng.choice([1, 2, 3])
    scores = rng.choice([[-4, -2, -1, 0, 10, 20], [10, 20, 20, 40], [20], [-3, -2, -1]])
    cds = []
    hid = 0
    for _ in range(ncds):
        hits = []
        for _ in range(rng.choice([0, 1, 2, 3, 4, 5, 6])):
            hits.append((hid, rng.randrange(nprof), rng.choice([0, 10, 10, 20, 35, 50]), rng.choice(scores)))
            hid += 1
        cds.append(hits)
    return cds


def enc_frm(cds):
    flat = [PROP, 4, len(cds)]
    for hits in cds:
        flat.append(len(hits))
        for hit in hits:
            flat += list(hit)
    return flat


def impl_fr(eqgs, order, cds):
    """ eqgs: [[prof]], cds: [[(hid, prof, start, end, 2*score, rank)]], order: hids in `results` order """
    from antismash.common.hmm_rule_parser import cluster_prediction as cp
    by_id = {}
    objs = {}
    for i, hits in enumerate(cds):
        by_id[f"c{i:03d}"] = [Hsp(*hit) for hit in hits]
        for obj in by_id[f"c{i:03d}"]:
            objs[obj.hid] = obj
    results = [objs[h] for h in order]
    groups = [set(f"prof{p:02d}" for p in group) for group in eqgs]
    try:
        results, by_id = cp.filter_results(results, by_id, groups)
    except Exception as exc:  # pylint: disable=broad-except
        return [1, err_code(exc)]
    out = [0, len(results)] + [h.hid for h in results] + [len(by_id)]
    for key in sorted(by_id):
        out += [len(by_id[key])] + [h.hid for h in by_id[key]]
    return out


def impl_find(eqgs, order, cds):
    """ fn 8: the real find_hmmer_hits on the hits of fn 5's encoding; only the external HMMer run and the FASTA text are
        replaced, signature cutoffs are below every score, so what is observed is the two filters in the order the
        function applies them.  Output as fn 4 / fn 5: ids of `results` (sorted by hit_start), ids per gene """
    from unittest import mock
    from antismash.common.hmm_rule_parser import cluster_prediction as cp

    class Signature:  # pylint: disable=too-few-public-methods
        cutoff = -1000
        seed_count = 1
    profs = sorted({hit[1] for hits in cds for hit in hits})
    objs = {}
    for i, hits in enumerate(cds):
        for hit in hits:
            obj = Hsp(*hit)
            obj.hit_id = f"c{i:03d}"
            obj.evalue, obj.query_start, obj.query_end = 1e-20, obj.hid, obj.hid + 10
            objs[obj.hid] = obj
    by_prof = {}
    for hid in order:       # `results` order = the order the search output lists the HSPs in
        by_prof.setdefault(objs[hid].query_id, []).append(objs[hid])
    canned = [types.SimpleNamespace(accession=name, hsps=hsps) for name, hsps in by_prof.items()]
    groups = [set(f"prof{p:02d}" for p in group) for group in eqgs]
    try:
        with mock.patch.object(cp, "run_hmmsearch", return_value=canned), \
                mock.patch.object(cp.fasta, "get_fasta_from_record", return_value=""):
            found = cp.find_hmmer_hits(None, {f"prof{p:02d}": Signature() for p in profs}, "db", groups)
    except Exception as exc:  # pylint: disable=broad-except
        return [1, err_code(exc)]
    out = [0, len(cds)]
    for i in range(len(cds)):
        ids = [hit.query_start for hit in found.get(f"c{i:03d}", [])]      # query_start carries the hit's id
        out += [len(ids)] + ids
    return out


def gen_fr(rng):
    ncds = rng.choice([1, 1, 2])
    nprof = rng.choice([2, 3, 4])
    eqgs = []
    for _ in range(rng.choice([1, 1, 2, 3])):
        eqgs.append(sorted(rng.sample(range(nprof + 1), rng.choice([1, 2, 2, 3, min(3, nprof)]))))
    scores = rng.choice([[20, 40, 60, 80, 100], [20, 40], [40], list(range(10, 200, 7)), None, None, None])
    cds = []
    hid = 0
    for _ in range(ncds):
        n = rng.choice([1, 2, 2, 3, 3, 4, 4, 5, 6, 7, 8])
        ranks = list(range(8))
        rng.shuffle(ranks)
        hits = []
        distinct = rng.sample(range(10, 400, 3), n)   # pairwise distinct scores (scores is None)
        if rng.random() < 0.4:
            # a chain (or two) of overlaps just above / at the limit of 20, listed in a random order, so that
            # several groups are opened before the pairs linking them are seen
            pos, chain = rng.randint(0, 5) * 10, []
            for j in range(n):
                length = rng.choice([60, 100, 100, 45])
                chain.append((pos, pos + length))
                pos += length - rng.choice([30, 30, 21, 21, 25, 20] + ([-50] if j == n // 2 and rng.random() < 0.3 else []))
            rng.shuffle(chain)
            for j, (start, end) in enumerate(chain):
                score = distinct[j] if scores is None or rng.random() < 0.7 else rng.choice(scores)
                hits.append((hid, rng.randrange(nprof), start, end, score, ranks[j]))
                hid += 1
            cds.append(hits)
            continue
        for j in range(n):
            if hits and rng.random() < 0.6:   # overlap of 19..22 with an earlier hit
                other = rng.choice(hits)
                start = other[3] - rng.choice([19, 20, 20, 21, 21, 22, 40])
            else:
                start = rng.randint(0, 20) * 10
            start = max(0, start)
            end = start + rng.choice([21, 25, 30, 41, 60, 100])
            if rng.random() < 0.005:
                end = start - rng.choice([0, 1])
            hits.append((hid, rng.randrange(nprof), start, end, distinct[j] if scores is None else rng.choice(scores), ranks[j]))
            hid += 1
        cds.append(hits)
    order = [h[0] for hits in cds for h in hits]
    if rng.random() < 0.5:
        rng.shuffle(order)
    return eqgs, order, cds


def enc_fr(eqgs, order, cds):
    flat = [PROP, 5, len(eqgs)]
    for group in eqgs:
        flat += [len(group)] + list(group)
    by_hid = {h[0]: h for hits in cds for h in hits}
    flat.append(len(order))
    for hid in order:
        flat += list(by_hid[hid])
    flat.append(len(cds))
    for hits in cds:
        flat.append(len(hits))
        for hit in hits:
            flat += list(hit)
    return flat


# ---------------------------------------------------------------- fn 6 : docking domains

DOCKING = ['NRPS-COM_Nterm', 'NRPS-COM_Cterm', 'PKS_Docking_Cterm', 'PKS_Docking_Nterm']
NON_DOCKING = ["PKS_KS", "ACP", "PKS_Docking", "NRPS-COM"]


def impl_docking(cds):
    """ cds: [(length, [(hid, dock, start, end)])] """
    from antismash.detection.nrps_pks_domains import domain_identification as di
    from antismash.common.hmmscan_refinement import HMMResult
    features = {}
    domains = {}
    ids = {}
    for i, (length, hits) in enumerate(cds):
        name = f"c{i:03d}"
        features[name] = types.SimpleNamespace(translation="A" * length)
        domains[name] = []
        for hid, dock, start, end in hits:
            label = DOCKING[hid % 4] if dock else NON_DOCKING[hid % 4]
            obj = HMMResult(label, start, end, 1e-5, 10.)
            ids[id(obj)] = hid
            domains[name].append(obj)
    record = types.SimpleNamespace(get_cds_name_mapping=lambda: features)
    try:
        result = di.filter_nonterminal_docking_domains(record, domains)
    except Exception as exc:  # pylint: disable=broad-except
        return [1, err_code(exc)]
    out = [0, len(result)]
    for name in sorted(result):
        out += [cds[int(name[1:])][0], len(result[name])] + [ids[id(h)] for h in result[name]]
    return out


def gen_docking(rng):
    cds = []
    hid = 0
    for _ in range(rng.choice([1, 2, 3])):
        length = rng.choice([40, 99, 100, 101, 120, 300])
        hits = []
        for _ in range(rng.choice([0, 1, 2, 3, 4])):
            start = rng.choice([0, 10, 49, 50, 51, length - 80, length - 60, 70])
            end = rng.choice([start + 10, length - 51, length - 50, length - 49, length, start + 40])
            hits.append((hid, 1 if rng.random() < 0.7 else 0, max(0, start), max(1, end)))
            hid += 1
        cds.append((length, hits))
    return cds


def enc_docking(cds):
    flat = [PROP, 6, len(cds)]
    for length, hits in cds:
        flat += [length, len(hits)]
        for hit in hits:
            flat += list(hit)
    return flat


# ---------------------------------------------------------------- fn 7 : HMMResult.merge

def impl_merge(first, second):
    """ first, second: (prof, start, end, evalue, 2*score) """
    from antismash.common.hmmscan_refinement import HMMResult
    objs = [HMMResult(f"p{h[0]:02d}", h[1], h[2], h[3] * EV_UNIT, h[4] / 2) for h in (first, second)]
    try:
        merged = objs[0].merge(objs[1])
    except Exception as exc:  # pylint: disable=broad-except
        return [1, err_code(exc)]
    evalue = round(merged.evalue / EV_UNIT)
    assert evalue * EV_UNIT == merged.evalue and (merged.bitscore * 2).is_integer()
    return [0, int(merged.hit_id[1:]), merged.query_start, merged.query_end, evalue, int(merged.bitscore * 2)]


def gen_merge(rng):
    prof = rng.randrange(3)
    start = rng.randint(0, 50)
    first = (prof, start, start + rng.randint(1, 60), rng.choice([1, 2, 5, 10]), rng.choice([20, 40, 41, 100]))
    kind = rng.random()
    if kind < 0.25:      # equal start
        start2 = first[1]
    elif kind < 0.5:     # nested / overlapping
        start2 = rng.randint(first[1], first[2])
    elif kind < 0.75:    # before
        start2 = max(0, first[1] - rng.randint(0, 30))
    else:                # after
        start2 = first[2] + rng.randint(0, 30)
    end2 = rng.choice([first[2], start2 + rng.randint(1, 80), start2 + 1, max(start2 + 1, first[2] - rng.randint(0, 10))])
    second = (prof if rng.random() < 0.97 else (prof + 1) % 3, start2, end2, rng.choice([1, 2, 5, 10]),
              rng.choice([20, 40, 41, 100]))
    return (first, second) if rng.random() < 0.5 else (second, first)


def enc_merge(first, second):
    return [PROP, 7] + list(first) + list(second)


# ---------------------------------------------------------------- the run

RULE = ("structured random hit sets: refine_hmmscan_results (both modes) with 1-8 fragments over 1-4 profiles (lengths 10..100, "
        "divisible and not divisible by 5) on 1-3 genes, starts placed on the 20 % margin of an earlier hit (+-1), equal starts, "
        "nested and chained hits, ends on the 1.5 L span (+-1) of an earlier fragment of the profile and on the 0.5 L and L/3 "
        "completeness boundaries, equal and distinct scores/e-values, duplicated fragments, regulator profiles, a profile without "
        "length (KeyError); hmmer.remove_overlapping with 0-9 hits over 1-4 identifiers with different cutoffs, starts on the "
        "group and conflict boundaries of overlap_limit (+-1), hits shorter than the limit, duplicates, missing cutoff, empty list; "
        "filter_result_multiple and filter_results on 1-3 genes with up to 8 hits, overlaps of 19..22 around the limit 20, equal "
        "scores, scores around the -1 default, set iteration order of the overlap groups chosen by the generator through the "
        "objects' hashes, chains of 1-8 hits overlapping by 20..30 listed in random order with pairwise distinct scores (several "
        "groups are opened before the linking pairs are seen); filter_nonterminal_docking_domains around the 50-residue limits; HMMResult.merge on pairs of hits with "
        "equal starts, nested, overlapping, disjoint, either operand first, rarely of different profiles.  Every refine/hmmer input is also run "
        "in a second, shuffled order on the implementation.  non-trivial = at least 3 input hits and a non-error result; "
        "distinct by flat encoding")

CORPUS = [
    # (fn, args) regression witnesses: F21 (known), F31 (merge list drops earlier), F41 merge_truncates (both modes, and
    # the merge itself in both operand orders), F20 (equal starts), F42 hmmer_first_short_duplicate, F43 hmmer_equal_start_order
    (1, ([(1, 10, 0), (1, 100, 0), (1, 10, 0)], [(0, 0, 0, 30, 1, 100), (0, 1, 15, 120, 1, 80), (0, 2, 16, 40, 1, 120)], [0, 0, 0])),
    (2, ([(1, 100, 0), (1, 100, 0)], [(0, 0, 0, 90, 1, 100), (0, 0, 500, 590, 1, 120), (0, 1, 100, 180, 1, 20)], [0, 0, 0])),
    (1, ([(1, 100, 0)], [(0, 0, 10, 20, 5, 20), (0, 0, 10, 80, 1, 100)], [0, 0])),
    (2, ([(1, 100, 0)], [(0, 0, 0, 100, 5, 20), (0, 0, 10, 50, 1, 100)], [0, 0])),
    (1, ([(1, 20, 0), (1, 30, 0)], [(0, 0, 5, 20, 1, 20), (0, 1, 5, 30, 1, 20)], [0, 0])),
    (3, (10, [10], [(0, 0, 5, 20)])),
    (3, (10, [10, 10], [(0, 0, 5, 20), (1, 3, 50, 40)])),
    (3, (10, [100, 100, 100], [(2, 43, 52, 20), (0, 43, 45, 20)])),
    (3, (10, [100, 100, 100], [(0, 43, 45, 20), (2, 43, 52, 20)])),
    (7, ((0, 10, 20, 5, 20), (0, 10, 80, 1, 100))),
    (7, ((0, 10, 50, 1, 100), (0, 0, 100, 5, 20))),
    # FC13a filter_groups_not_merged (repaired; regression witness): a chain v4-v0-v2-v1-v3 listed as v0 v3 v1 v4 v2 kept
    # v3 and v4, now only v4
    (5, ([[0, 1, 2, 3, 4]], [0, 3, 1, 4, 2],
         [[(0, 0, 70, 170, 20, 0), (3, 3, 280, 380, 180, 3), (1, 1, 210, 310, 60, 1), (4, 4, 0, 100, 200, 4),
           (2, 2, 140, 240, 40, 2)]])),
    # the same hits in positional order (one survivor before and after the repair)
    (5, ([[0, 1, 2, 3, 4]], [4, 0, 2, 1, 3],
         [[(4, 4, 0, 100, 200, 4), (0, 0, 70, 170, 20, 0), (2, 2, 140, 240, 40, 2), (1, 1, 210, 310, 60, 1),
           (3, 3, 280, 380, 180, 3)]])),
    # a chain of four in per-profile order (two groups are opened, then united: one survivor)
    (5, ([[0, 1, 2, 3]], [0, 1, 2, 3],
         [[(0, 0, 0, 100, 180, 0), (1, 1, 210, 310, 200, 1), (2, 2, 70, 170, 100, 2), (3, 3, 140, 240, 80, 3)]])),
]


def run(chk):
    if not chk.build_and_audit():
        return chk.finish(RULE)
    rng = chk.rng
    total = 60000 if chk.tier == "quick" else 800000
    known = known_classes()
    cases, impl_outs = [], []
    for i in range(total):
        r = rng.random()
        if i < len(CORPUS):
            fn, args = CORPUS[i]
        elif r < 0.25:
            fn, args = 1, gen_refine(rng)
        elif r < 0.50:
            fn, args = 2, gen_refine(rng)
        elif r < 0.72:
            fn, args = 3, gen_hmmer(rng)
        elif r < 0.82:
            fn, args = 4, (gen_frm(rng),)
        elif r < 0.90:
            fn, args = 5, gen_fr(rng)
        elif r < 0.94:
            fn, args = 8, gen_fr(rng)
        elif r < 0.97:
            fn, args = 7, gen_merge(rng)
        else:
            fn, args = 6, (gen_docking(rng),)
        shuffled_out = None
        if fn in (1, 2):
            table, hits, split = args
            flat = enc_refine(fn, table, hits)
            out = impl_refine(fn, table, hits, split)
            perm = list(range(len(hits)))
            rng.shuffle(perm)
            shuffled_out = impl_refine(fn, table, [hits[j] for j in perm], [rng.randrange(2) for _ in perm])
            size = len(hits)
            starts = [(h[0], h[2]) for h in set(hits)]
            if len(set(starts)) < len(starts):
                chk.count("refine_equal_starts")
            if len(set(hits)) < len(hits):
                chk.count("refine_duplicates")
            if len({(h[0], h[5]) for h in hits}) < len({h for h in hits}):
                chk.count("refine_equal_scores")
        elif fn == 3:
            limit, cutoffs, hits = args
            flat = enc_hmmer(limit, cutoffs, hits)
            out = impl_hmmer(limit, cutoffs, hits)
            perm = list(hits)
            rng.shuffle(perm)
            shuffled_out = impl_hmmer(limit, cutoffs, perm)
            size = len(hits)
        elif fn == 4:
            flat = enc_frm(args[0])
            out = impl_frm(args[0])
            size = sum(len(c) for c in args[0])
        elif fn == 5:
            flat = enc_fr(*args)
            out = impl_fr(*args)
            size = sum(len(c) for c in args[2])
        elif fn == 8:
            # find_hmmer_hits builds `results` and the per-gene lists itself, in the order the search output lists the HSPs
            # (profile by profile): the case is encoded with that order
            eqgs, order, cds = args
            prof_of = {h[0]: h[1] for hits in cds for h in hits}
            first_seen = list(dict.fromkeys(prof_of[hid] for hid in order))
            order = [hid for prof in first_seen for hid in order if prof_of[hid] == prof]
            rank = {hid: k for k, hid in enumerate(order)}
            cds = [sorted(hits, key=lambda h: rank[h[0]]) for hits in cds]
            args = (eqgs, order, cds)
            flat = enc_fr(*args)
            flat[1] = 8
            out = impl_find(*args)
            size = sum(len(c) for c in args[2])
        elif fn == 7:
            flat = enc_merge(*args)
            out = impl_merge(*args)
            size = 3
        else:
            flat = enc_docking(args[0])
            out = impl_docking(args[0])
            size = sum(len(c[1]) for c in args[0])
        cases.append(flat)
        impl_outs.append(out)
        chk.count(FN_NAME[fn])
        chk.count(f"size_{min(size, 9)}")
        if out[0] == 1:
            chk.count("error_" + common.ERR_NAME.get(out[1], str(out[1])))
        if shuffled_out is not None and shuffled_out != out:
            what = f"{FN_NAME[fn]}: the result depends on the order of the input list"
            if fn == 3:
                chk.count("class_hmmer_equal_start_order")
                what = REPAIRED_TEXT["hmmer_equal_start_order"]
            if not any(v[1] == what for v in chk.violations):
                chk.violation("counterexample", what,
                              {"theorem_or_correspondence": ("C13_hmmer_order_independent" if fn == 3 else "C13_order_independent")
                               + " / implementation on a shuffled input",
                               "function": fn, "flat": flat, "input": describe(flat), "implementation": out,
                               "implementation_on_shuffled_input": shuffled_out})
        chk.note_case(flat, size >= 3 and out[0] == 0,
                      {"function": FN_NAME[fn], "input": describe(flat), "implementation": out})
    model_outs = common.correspondence(chk, cases, impl_outs, spec_fn_offset=None, describe=describe)
    agree = [m == o for m, o in zip(model_outs, impl_outs)]

    # fn 8, judged by C13_find_hits_filters_spec: relative to the survivors of the competition (the Coq model of
    # filter_results on the same input), every hit find_hmmer_hits returns for a gene is one of them and the best-scoring
    # one of its profile among them, and every profile the competition left a hit (score above -1) keeps one
    find_idx = [i for i, c in enumerate(cases) if c[1] == 8 and impl_outs[i][:1] == [0]]
    stage1 = common.run_driver([[PROP, 5] + cases[i][2:] for i in find_idx])
    for i, survivors in zip(find_idx, stage1):
        chk.count("find_hmmer_hits_outputs_judged_by_spec")
        if survivors[:1] != [0]:
            continue
        flat = cases[i]
        # decode the hits of the payload: groups, results, genes
        pos = 2
        ngroups = flat[pos]; pos += 1
        for _ in range(ngroups):
            pos += 1 + flat[pos]
        nres = flat[pos]; pos += 1
        hit = {}
        for _ in range(nres):
            hid, prof, _hs, _he, sc, _rank = flat[pos:pos + 6]
            hit[hid] = (prof, sc)
            pos += 6
        # survivors: [0, n, ids..., ngenes, (len, ids...)...]
        spos = 2 + survivors[1]
        ngenes = survivors[spos]; spos += 1
        per_gene = []
        for _ in range(ngenes):
            k = survivors[spos]
            per_gene.append(survivors[spos + 1:spos + 1 + k])
            spos += 1 + k
        out = impl_outs[i]
        opos, bad = 2, None
        for g in range(out[1]):
            k = out[opos]
            got = out[opos + 1:opos + 1 + k]
            opos += 1 + k
            left = per_gene[g] if g < len(per_gene) else []
            for hid in got:
                if hid not in left:
                    bad = f"gene {g}: hit {hid} is returned although it lost the competition of equivalent profiles"
                elif any(hit[o][0] == hit[hid][0] and hit[o][1] > hit[hid][1] for o in left):
                    bad = f"gene {g}: hit {hid} is returned although a better-scoring hit of its profile survived the competition"
            for o in left:
                if hit[o][1] > -2 and not any(hit[h][0] == hit[o][0] for h in got):
                    bad = (f"gene {g}: profile {hit[o][0]} disappears although its hit {o} lost to no better-scoring "
                           f"overlapping hit of an equivalent profile")
        if bad:
            chk.violation("counterexample", "find_hmmer_hits: " + bad,
                          {"theorem_or_correspondence": "C13_find_hits_filters_spec / find_hmmer_hits", "function": 8,
                           "flat": flat, "input": describe(flat), "implementation": out,
                           "survivors_of_the_competition_per_gene": per_gene})
            break

    # the decidable specification on every implementation output of fn 1-3 and 7, and the finding classes
    spec_idx = [i for i, c in enumerate(cases) if c[1] in (1, 2, 3, 5, 7)]
    spec_cases = [[PROP, cases[i][1] + 100] + cases[i][2:] + impl_outs[i] for i in spec_idx]
    verdicts = common.run_driver(spec_cases)
    for i, verdict in zip(spec_idx, verdicts):
        fn = cases[i][1]
        replay = {"function": fn, "flat": cases[i], "input": describe(cases[i]), "implementation": impl_outs[i],
                  "model": model_outs[i], "spec_verdict_on_implementation_output": verdict}
        if len(verdict) != {1: 6, 2: 6, 3: 4, 5: 3, 7: 2}[fn] or verdict == [-999]:
            chk.violation("broken-correspondence", f"{FN_NAME[fn]}: the implementation's output does not decode",
                          dict(replay, theorem_or_correspondence="spec decoder"))
            continue
        if fn == 7:
            if not verdict[0]:
                chk.count("class_merge_truncates")
                repaired(chk, "merge_truncates", "C13_merge_spans", replay)
            if not verdict[1]:
                chk.violation("counterexample", "HMMResult.merge: the merged hit does not carry the best score and the least "
                              "e-value of its operands", dict(replay, theorem_or_correspondence="C13_merge_fields"))
            continue
        if fn == 5:
            # [ok; applicable (domain, pairwise distinct scores); result = best of every component]
            _ok, applicable, same = verdict
            if not applicable:
                chk.count("filter_results_spec_not_applicable(score ties)")
                continue
            chk.count("filter_results_spec_evaluated")
            if same:
                continue
            out, spec = impl_outs[i], model_outs[i]
            if out[0] == 0 and spec[0] == 0 and out[1] > spec[1]:
                # more survivors than components: the repaired class FC13a (no suppression)
                chk.count("class_filter_groups_not_merged")
                repaired(chk, "filter_groups_not_merged", "C13_filter_results_spec / C13_filter_results_components", replay)
            else:
                chk.violation("counterexample", "filter_results: the survivors are not the best-scoring hit of every group of hits "
                              "chained by overlaps > 20",
                              dict(replay, theorem_or_correspondence="C13_filter_results_spec"))
            continue
        if fn in (1, 2):
            _ok, is_sorted, provenance, margin, coverage, margin_guard = verdict
            chk.count("refine_margin_guard_" + ("holds" if margin_guard else "fails"))
            if not coverage:
                chk.count("class_merge_truncates")
                repaired(chk, "merge_truncates", "C13_merge_keeps_complete_all", replay)
            if not is_sorted:
                chk.violation("counterexample", f"{FN_NAME[fn]}: output not ordered by start",
                              dict(replay, theorem_or_correspondence="C13_sorted"))
            if not provenance:
                chk.violation("counterexample", f"{FN_NAME[fn]}: an output hit has a field that no input hit of its profile has",
                              dict(replay, theorem_or_correspondence="C13_provenance"))
            if not margin and margin_guard:
                chk.violation("counterexample", f"{FN_NAME[fn]}: two returned hits overlap beyond the margin although the input "
                              "has monotone overlap (outside the class greedy_replacement_margin)",
                              dict(replay, theorem_or_correspondence="C13_pairwise_margin_guarded"))
            elif not margin:
                chk.count("class_greedy_replacement_margin")
                finding(chk, known, "greedy_replacement_margin", agree[i], replay)
        else:
            _ok, noconflict, nodup, dropped_ok = verdict
            if not dropped_ok:
                chk.violation("counterexample", "hmmer.remove_overlapping: a hit is dropped although no returned hit that ranks "
                              "better overlaps it by overlap_limit or more",
                              dict(replay, theorem_or_correspondence="C13_hmmer_dropped_has_better_kept"))
            if not noconflict:
                chk.violation("counterexample", "hmmer.remove_overlapping: two returned hits overlap by overlap_limit or more",
                              dict(replay, theorem_or_correspondence="C13_hmmer_no_overlap"))
            if not nodup:
                chk.count("class_hmmer_first_short_duplicate")
                repaired(chk, "hmmer_first_short_duplicate", "C13_hmmer_no_extra_copies", replay)
    chk.crosscheck_vm(cases, model_outs)
    return chk.finish(RULE)


def repaired(chk, cls, theorem, replay):
    """ a case of a repaired finding class: always a counterexample (reported once per class) """
    if not any(v[2].get("finding_class") == cls for v in chk.violations):
        chk.violation("counterexample", REPAIRED_TEXT[cls],
                      dict(replay, theorem_or_correspondence=theorem, finding_class=cls))


def finding(chk, known, cls, faithful, replay):
    """ a case of a finding class: suppressed only if the class is recorded as known and the
        implementation behaves exactly as the faithful model (DESIGN 3.3) """
    if cls in known and faithful:
        chk.known(f"class={cls} {KNOWN_TEXT[cls]}")
    elif faithful or cls not in known:
        if not any(v[2].get("finding_class") == cls for v in chk.violations):
            chk.violation("counterexample", f"{KNOWN_TEXT[cls]} (class {cls}, not recorded as known)",
                          dict(replay, theorem_or_correspondence="C13 finding class " + cls, finding_class=cls))


def describe(flat):
    fn = flat[1]
    body = flat[2:]
    try:
        if fn in (1, 2):
            n = body[0]
            table = [tuple(body[1 + 3 * k:4 + 3 * k]) for k in range(n)]
            rest = body[1 + 3 * n:]
            hits = [dict(zip(("gene", "profile", "start", "end", "evalue_e-10", "score_x2"), rest[1 + 6 * k:7 + 6 * k]))
                    for k in range(rest[0])]
            return {"function": FN_NAME[fn], "profiles(present,length,regulator)": table, "hits": hits}
        return {"function": FN_NAME.get(fn, fn), "payload": body}
    except Exception:  # pylint: disable=broad-except
        return {"function": fn, "payload": body}


def decode_args(flat):
    """ flat encoding -> the generator's argument tuple (inverse of the enc_* functions) """
    fn, body = flat[1], list(flat[2:])
    pos = [0]

    def take(k=1):
        vals = body[pos[0]:pos[0] + k]
        pos[0] += k
        return vals if k > 1 else vals[0]
    if fn in (1, 2):
        table = [tuple(take(3)) for _ in range(take())]
        hits = [tuple(take(6)) for _ in range(take())]
        return table, hits, [0] * len(hits)
    if fn == 3:
        limit = take()
        cutoffs = [take() if take() else None for _ in range(take())]
        return limit, cutoffs, [tuple(take(4)) for _ in range(take())]
    if fn == 4:
        return ([[tuple(take(4)) for _ in range(take())] for _ in range(take())],)
    if fn == 5:
        eqgs = [[take() for _ in range(take())] for _ in range(take())]
        order = [tuple(take(6))[0] for _ in range(take())]
        cds = [[tuple(take(6)) for _ in range(take())] for _ in range(take())]
        return eqgs, order, cds
    if fn == 7:
        return tuple(take(5)), tuple(take(5))
    return ([(take(), [tuple(take(4)) for _ in range(take())]) for _ in range(take())],)


def run_impl(fn, args):
    if fn in (1, 2):
        return impl_refine(fn, *args)
    return {3: impl_hmmer, 4: impl_frm, 5: impl_fr, 6: impl_docking, 7: impl_merge}[fn](*args)


def replay(chk, path):
    doc = json.load(open(path))
    flat = doc["flat"]
    fn = flat[1]
    model = common.run_driver([flat])[0]
    out = run_impl(fn, decode_args(flat))
    print("function:", FN_NAME.get(fn, fn))
    print("input:", json.dumps(describe(flat)))
    print("implementation now:", out)
    print("model             :", model)
    print("recorded implementation:", doc.get("implementation"))
    verdict = None
    still = model != out
    if fn in (1, 2, 3, 5, 7) and (out[0] == 0 or fn == 5):
        verdict = common.run_driver([[PROP, fn + 100] + flat[2:] + out])[0]
        print("spec verdict on the implementation's output:", verdict)
        bits = list(verdict[1:]) if len(verdict) > 1 else list(verdict)
        if fn in (1, 2) and len(bits) == 5:
            guard = bits.pop()
            if not guard and "greedy_replacement_margin" in known_classes():
                bits[2] = 1   # the pairwise margin outside the guard is the recorded finding F21
        if fn == 5 and len(bits) == 2:
            applicable, same = bits
            bits = [1] if (not applicable or same) else [0]
        still = still or not all(bits)
    if fn in (1, 2, 3):
        args = decode_args(flat)
        hits = list(args[1] if fn != 3 else args[2])
        again = run_impl(fn, (args[0], hits[::-1], [0] * len(hits)) if fn != 3 else (args[0], args[1], hits[::-1]))
        print("implementation on the reversed input:", again)
        still = still or again != out
    print("still violates" if still else "no longer violates")
    return 1 if still else 0
