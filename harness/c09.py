"""C09: correspondence for annotations placed inside a gene by protein coordinates
(convert_protein_position_to_dna, Feature.get_sub_location_from_protein_coordinates, the codon_start
adjustment of Feature.from_biopython/to_biopython, Prepeptide.to_biopython leader/core/tail,
TTAResults.new_feature_from_other) and for the model's extraction assumption (location.extract)."""
import json
import warnings

import common
from common import err_code

PROP = 9
SPEC_OFFSET = 10
FN_NAMES = {1: "convert_protein_position_to_dna", 2: "Feature.get_sub_location_from_protein_coordinates",
            3: "Feature.from_biopython(codon_start) + sub-location + to_biopython",
            4: "Prepeptide.to_biopython (leader/core/tail locations)", 5: "TTAResults.new_feature_from_other",
            6: "location.extract",
            7: "CDSFeature.from_biopython(codon_start) + translation + sub-location + to_biopython",
            8: "Record.from_biopython -> CDS (codon_start) + translation + sub-location + Record.to_biopython + reload"}
STRAND_CODE = {1: 1, -1: -1, 0: 0, None: 2}
CODE_STRAND = {v: k for k, v in STRAND_CODE.items()}
BASES = "ACGT"

# finding classes (entries of known_findings.json with status "known" suppress them)
CLASS_SPANNING = "origin_spanning_gene_sublocation"
CLASS_TTA = "tta_multi_exon"
CLASS_CODON = "origin_spanning_codon_start"
CLASS_OVERLAP = "overlapping_exons_sublocation"
WHAT = {
    CLASS_SPANNING: ("sub-location of an origin-spanning gene is built by walking the exons in coordinate order instead "
                     "of transcription order: wrong nucleotides (or ValueError) for protein ranges of a gene that spans "
                     "the origin (Feature.get_sub_location_from_protein_coordinates / convert_protein_position_to_dna)"),
    CLASS_CODON: ("codon_start 2 or 3 on a compound gene that spans the origin: the frameshift adjustment asserts that the "
                  "first listed exon starts at location.start (resp. ends at location.end) and raises AssertionError, so "
                  "the feature cannot be built (locations._adjust_location_by_offset via Feature.from_biopython)"),
    CLASS_OVERLAP: ("sub-location inside a gene whose exons overlap by 1-2 bases (programmed frameshift, accepted in input "
                    "records): the protein-to-DNA conversion counts the overlap as a negative gap and the exon walk stops "
                    "at the first exon containing a coordinate, so ranges at or after the overlap get the wrong bases or "
                    "fewer than three bases per residue (convert_protein_position_to_dna / "
                    "Feature.get_sub_location_from_protein_coordinates)"),
    CLASS_TTA: ("TTA codon marker placed at start+offset / end-offset-3 ignores introns: for a multi-exon gene the marker "
                "does not cover the codon found in the spliced sequence (TTAResults.new_feature_from_other)"),
}


# ---------------------------------------------------------------- encoding

def enc_parts(parts):
    out = [len(parts)]
    for start, end, strand in parts:
        out += [start, end, strand]
    return out


def enc_pyloc(location):
    return enc_parts([(int(p.start), int(p.end), STRAND_CODE[p.strand]) for p in location.parts])


def result(fn):
    try:
        return [0] + fn()
    except Exception as exc:  # pylint: disable=broad-except
        return [1, err_code(exc)]


def mk_loc(parts, end_after=False, start_before=False):
    """ parts: [(start, end, strand code)] in listed order; the flags put an AfterPosition on the
        largest end / a BeforePosition on the smallest start """
    from antismash.common.secmet.locations import FeatureLocation, CompoundLocation, AfterPosition, BeforePosition
    hi = max(range(len(parts)), key=lambda i: parts[i][1])
    lo = min(range(len(parts)), key=lambda i: parts[i][0])
    built = []
    for i, (start, end, strand) in enumerate(parts):
        if end_after and i == hi:
            end = AfterPosition(end)
        if start_before and i == lo:
            start = BeforePosition(start)
        built.append(FeatureLocation(start, end, CODE_STRAND[strand]))
    if len(built) == 1:
        return built[0]
    return CompoundLocation(built)


# ---------------------------------------------------------------- the implementation

def impl(fn, args):
    from antismash.common.secmet.features import Feature
    from antismash.common.secmet import locations as L
    if fn == 1:
        start, end, parts = args
        loc = mk_loc(parts)
        return result(lambda: [int(x) for x in L.convert_protein_position_to_dna(start, end, loc)])
    if fn == 2:
        parts, end_after, start_before, start, end = args
        feature = Feature(mk_loc(parts, end_after, start_before), "CDS")
        return result(lambda: enc_pyloc(feature.get_sub_location_from_protein_coordinates(start, end)))
    if fn == 3:
        from Bio.SeqFeature import SeqFeature
        parts, codon_start, start, end = args
        bio = SeqFeature(mk_loc(parts), type="CDS", qualifiers={"codon_start": [str(codon_start)]})
        try:
            feature = Feature.from_biopython(bio)
        except Exception as exc:  # pylint: disable=broad-except
            return [1, err_code(exc)]
        out = [0] + enc_pyloc(feature.location)
        out += result(lambda: enc_pyloc(feature.get_sub_location_from_protein_coordinates(start, end)))
        out += result(lambda: enc_pyloc(feature.to_biopython()[0].location))
        return out
    if fn == 4:
        from antismash.common.secmet.features import Prepeptide
        parts, leader_len, tail_len = args
        loc = mk_loc(parts)
        core_len = max(1, len(loc) // 3 - leader_len - tail_len)
        pre = Prepeptide(loc, "lanthipeptide", "A" * core_len, "tag", "tool", leader="M" * leader_len, tail="C" * tail_len)

        def locations():
            feats = pre.to_biopython()
            out = [len(feats)]
            for feat in feats:
                out += enc_pyloc(feat.location)
            return out
        return result(locations)
    if fn == 5:
        from antismash.modules.tta.tta import TTAResults
        parts, offset = args
        feature = Feature(mk_loc(parts), "CDS")
        results = TTAResults("rec", 0.7, 0.65)
        return result(lambda: enc_pyloc(results.new_feature_from_other(feature, offset).location))
    if fn == 6:
        from Bio.Seq import Seq
        parts, bases = args
        seq = Seq("".join(BASES[b] for b in bases))
        got = str(mk_loc(parts).extract(seq))
        return [len(got)] + [BASES.index(c) for c in got]
    if fn in (7, 8):
        parts, codon_start, bases, _table, start, end, circular = args
        return impl_load(fn, parts, codon_start, bases, start, end, circular)
    raise ValueError(fn)


class ReloadMismatch(Exception):
    """ the gene read back from Record.to_biopython() differs from the gene first loaded """


def codon_table():
    """ Biopython's table 11 (what Record.from_biopython uses for taxon bacteria) as the 64 residue codes of the
        model's encoding: codon (a, b, c) at 16a + 4b + c, bases A=0 C=1 G=2 T=3, '*' for stop codons """
    from Bio.Data import CodonTable
    table = CodonTable.unambiguous_dna_by_id[11]
    out = []
    for a in BASES:
        for b in BASES:
            for c in BASES:
                codon = a + b + c
                out.append(ord("*") if codon in table.stop_codons else ord(table.forward_table[codon]))
    return out


def bio_location(parts):
    """ a Biopython (not antismash) location, as the GenBank parser would deliver it """
    from Bio.SeqFeature import FeatureLocation as BioFeatureLocation, CompoundLocation as BioCompoundLocation
    built = [BioFeatureLocation(s, e, CODE_STRAND[st]) for s, e, st in parts]
    return built[0] if len(built) == 1 else BioCompoundLocation(built)


def impl_load(fn, parts, codon_start, bases, start, end, circular):
    """ loads a CDS the way antiSMASH loads its input: fn 7 CDSFeature.from_biopython(SeqFeature, record=...),
        fn 8 Record.from_biopython(SeqRecord) and, for writing out, Record.to_biopython() followed by a reload """
    from Bio.Seq import Seq
    from Bio.SeqFeature import SeqFeature
    from Bio.SeqRecord import SeqRecord
    from antismash.common.secmet import Record
    from antismash.common.secmet.features import CDSFeature
    seq = Seq("".join(BASES[b] for b in bases))
    qualifiers = {"locus_tag": ["gene"]}
    if codon_start >= 0:
        qualifiers["codon_start"] = [str(codon_start)]
    try:
        if fn == 7:
            record = Record(seq, transl_table=11)
            cds = CDSFeature.from_biopython(SeqFeature(mk_loc(parts), type="CDS", qualifiers=qualifiers), record=record)
        else:
            bio = SeqRecord(seq, id="rec", name="rec", annotations={"molecule_type": "DNA"})
            if circular:
                bio.annotations["topology"] = "circular"
            bio.features.append(SeqFeature(bio_location(parts), type="CDS", qualifiers=qualifiers))
            record = Record.from_biopython(bio, taxon="bacteria")
            (cds,) = record.get_cds_features()
    except Exception as exc:  # pylint: disable=broad-except
        return [1, err_code(exc)]
    original = cds._original_codon_start  # pylint: disable=protected-access
    out = [0] + enc_pyloc(cds.location) + [len(cds.translation)] + [ord(c) for c in cds.translation]
    out += [-1 if original is None else original]
    out += result(lambda: enc_pyloc(cds.get_sub_location_from_protein_coordinates(start, end)))

    def written():
        if fn == 7:
            bio_cds = cds.to_biopython()[0]
        else:
            bio_again = record.to_biopython()
            (bio_cds,) = [f for f in bio_again.features if f.type == "CDS"]
            again = Record.from_biopython(bio_again, taxon="bacteria")
            (cds2,) = again.get_cds_features()
            if enc_pyloc(cds2.location) != enc_pyloc(cds.location) or cds2.translation != cds.translation:
                raise ReloadMismatch(f"{cds2.location} {cds2.translation} != {cds.location} {cds.translation}")
        return enc_pyloc(bio_cds.location) + [int(bio_cds.qualifiers.get("codon_start", ["-1"])[0])]
    out += result(written)
    return out


def encode(fn, args):
    if fn == 1:
        start, end, parts = args
        return [start, end] + enc_parts(parts)
    if fn == 2:
        parts, end_after, start_before, start, end = args
        return enc_parts(parts) + [int(end_after), int(start_before), start, end]
    if fn == 3:
        parts, codon_start, start, end = args
        return enc_parts(parts) + [codon_start, start, end]
    if fn == 4:
        parts, leader_len, tail_len = args
        return enc_parts(parts) + [leader_len, tail_len]
    if fn == 5:
        parts, offset = args
        return enc_parts(parts) + [offset]
    if fn == 6:
        parts, bases = args
        return enc_parts(parts) + [len(bases)] + list(bases)
    if fn in (7, 8):
        parts, codon_start, bases, table, start, end, _circular = args
        return enc_parts(parts) + [codon_start, len(bases)] + list(bases) + [len(table)] + list(table) + [start, end]
    raise ValueError(fn)


# ---------------------------------------------------------------- generators

class Gene:
    def __init__(self, parts, n, kind, total_len):
        self.parts = parts          # listed (transcription) order
        self.n = n                  # record length
        self.kind = kind            # "plain" | "spanning" | "malformed"
        self.length = total_len
        self.codons = total_len // 3

    @property
    def strand(self):
        strands = {p[2] for p in self.parts}
        return self.parts[0][2] if len(strands) == 1 else 2


def gen_gene(rng, allow_malformed=True):
    """ 1-4 exons on a record of length n, either strand, introns of 0-5 bases, optionally spanning the
        origin (an exon may itself be cut by the origin), optionally 1-2 surplus bases """
    while True:
        n = rng.choice([rng.randint(12, 40), rng.randint(30, 120), rng.randint(30, 120)])
        strand = rng.choice([1, 1, 1, -1, -1, -1, 0, 2]) if rng.random() < 0.1 else rng.choice([1, -1])
        nex = rng.choice([1, 1, 2, 2, 3, 4])
        codons = rng.choice([1, 2, 3, 4, 5, 6, 7, 8, 10, 12])
        length = 3 * codons + (rng.choice([1, 2]) if rng.random() < 0.15 else 0)
        if length < nex:
            continue
        cuts = sorted(rng.sample(range(1, length), nex - 1)) if nex > 1 else []
        lens = [b - a for a, b in zip([0] + cuts, cuts + [length])]
        gaps = [rng.choice([0, 1, 1, 2, 3, 5]) for _ in range(nex - 1)]
        span = length + sum(gaps)
        if span >= n - 1:
            continue
        cross = rng.random() < 0.22
        u0 = rng.randint(n - span + 1, n - 1) if cross else rng.randint(0, n - span)
        parts = []
        pos = u0
        for i, size in enumerate(lens):
            start, end = pos, pos + size
            if start < n < end:
                parts.append((start, n))
                parts.append((0, end - n))
            elif start >= n:
                parts.append((start - n, end - n))
            else:
                parts.append((start, end))
            pos = end + (gaps[i] if i < len(gaps) else 0)
        # two adjacent exons may share an end only through a zero intron: Feature() refuses equal ends only
        parts = [(s, e, strand) for s, e in parts]
        spanning = any(b[0] < a[0] for a, b in zip(parts, parts[1:]))
        if strand == -1:
            parts.reverse()
        kind = "spanning" if spanning else "plain"
        if allow_malformed and rng.random() < 0.04 and len(parts) > 1:
            kind = "malformed"
            choice = rng.random()
            if choice < 0.4:
                rng.shuffle(parts)
            elif choice < 0.7:      # overlapping exons
                i = rng.randrange(len(parts) - 1)
                s, e, st = parts[i + 1]
                parts[i + 1] = (max(0, s - rng.randint(1, 4)), e, st)
            else:                   # mixed strands
                i = rng.randrange(len(parts))
                parts[i] = (parts[i][0], parts[i][1], -parts[i][2] if parts[i][2] in (1, -1) else 1)
        if any(s >= e for s, e, _ in parts):
            continue
        length = sum(e - s for s, e, _ in parts)
        return Gene(parts, n, kind, length)


def feature_ok(parts):
    from antismash.common.secmet.features import Feature
    try:
        Feature(mk_loc(parts), "CDS")
        return True
    except Exception:  # pylint: disable=broad-except
        return False


def exon_border_residues(gene):
    """ residue indices whose codon starts or ends exactly at an exon border (in reading order) """
    borders = set()
    acc = 0
    for s, e, _ in gene.parts:
        acc += e - s
        if acc % 3 == 0:
            borders.add(acc // 3)
    return sorted(b for b in borders if 0 < b < gene.codons)


def gen_range(rng, gene):
    total = gene.codons
    r = rng.random()
    if r < 0.08:    # rejection paths
        return rng.choice([(-1, 1), (0, 0), (total, total + 1), (0, total + 1), (total - 1, total + 2),
                           (rng.randint(0, total + 1), rng.randint(-1, total + 2)), (1, 1), (2, 1)])
    if total == 0:
        return (0, 1)
    borders = exon_border_residues(gene)
    if borders and r < 0.35:
        b = rng.choice(borders)
        return rng.choice([(rng.randint(0, b - 1), b), (b, rng.randint(b + 1, total)),
                           (max(0, b - 1), min(total, b + 1))])
    if r < 0.45:
        return rng.choice([(0, total), (0, 1), (total - 1, total)])
    s = rng.randint(0, total - 1)
    return (s, rng.randint(s + 1, total))


# ---------------------------------------------------------------- property evaluated on the real objects

def python_property(parts, start, end, out, n, rng):
    """ the property at its observation point: location.extract(record.seq).translate() == translation[s:e]
        (plus the bases themselves, three per residue, inside the gene) on a random record sequence """
    from Bio.Seq import Seq
    if out[0] != 0:
        return False
    gene = mk_loc(parts)
    k = out[1]
    sub_parts = [(out[2 + 3 * i], out[3 + 3 * i], out[4 + 3 * i]) for i in range(k)]
    sub = mk_loc(sub_parts)
    seq = Seq("".join(rng.choice(BASES) for _ in range(n)))
    full = gene.extract(seq)
    got = sub.extract(seq)
    if len(sub) != 3 * (end - start) or str(got) != str(full[3 * start:3 * end]):
        return False
    if str(got.translate()) != str(full[:3 * (len(full) // 3)].translate())[start:end]:
        return False
    return all(any(o[0] <= p[0] and p[1] <= o[1] for o in parts) for p in sub_parts)


# ---------------------------------------------------------------- the run

RULE = ("genes of 1-4 exons (introns 0-5 bases, exons cut anywhere incl. inside codons), either strand (10%: strand 0/None), "
        "records of 12-120 bases, 22% spanning the origin (also with an exon cut by the origin), 15% with 1-2 surplus bases, "
        "4% malformed (shuffled / overlapping / mixed-strand exons), partial (<, >) ends; protein ranges drawn with weight on "
        "exon borders, whole gene, first/last residue and on the rejection paths; codon_start 0-4; leader/tail lengths 0..total+1; "
        "TTA offsets at every codon; CDS loading: the same genes as Bio SeqFeatures with /codon_start 2/3 (67%), 1, absent, "
        "0/4, on a random record sequence (85% with the reading frame made stop-free), loaded by CDSFeature.from_biopython "
        "and by Record.from_biopython (Biopython location classes, circular topology for origin-spanning genes), observed: "
        "gene location, stored translation, _original_codon_start, one sub-location, the location and qualifier written out "
        "by to_biopython / Record.to_biopython, and the gene read back from the written record. Functions: convert_protein_position_to_dna, Feature.get_sub_location_from_protein_coordinates, "
        "from_biopython(codon_start)+sub-location+to_biopython, Prepeptide.to_biopython, TTAResults.new_feature_from_other, "
        "CDSFeature.from_biopython / Record.from_biopython load path, "
        "location.extract (the model's extraction assumption). Every implementation output is also judged by the decidable "
        "specification in Gallina (inside the gene, 3 bases per residue, reads exactly coordinates 3s..3e of the gene's reading "
        "order) and, for sub-locations, by extract+translate on a random sequence with Biopython. non-trivial = compound gene "
        "or reverse strand; distinct by flat encoding")


def known_classes():
    return {f.get("class"): f for f in common.load_known_findings("C09") if f.get("status") == "known"}


def gen_case(rng, table):
    """ -> (fn, args, gene) """
    r = rng.random()
    if r < 0.07:
        return gen_load_case(rng, 7, table)
    if r < 0.14:
        return gen_load_case(rng, 8, table)
    if r < 0.24:
        gene = gen_gene(rng)
        s, e = gen_range(rng, gene)
        return 1, (s, e, gene.parts), gene
    if r < 0.62:
        while True:
            gene = gen_gene(rng)
            if feature_ok(gene.parts):
                break
        s, e = gen_range(rng, gene)
        end_after = start_before = False
        if rng.random() < 0.08:
            end_after, start_before = rng.choice([(True, False), (False, True), (True, True)])
            if rng.random() < 0.7:
                s, e = rng.randint(0, max(0, gene.codons - 1)), gene.codons + rng.randint(1, 2)
        return 2, (gene.parts, end_after, start_before, s, e), gene
    if r < 0.72:
        while True:
            gene = gen_gene(rng)
            if feature_ok(gene.parts):
                break
        cs = rng.choice([1, 2, 3, 1, 2, 3, 2, 3, 0, 4])
        # ranges are drawn for the gene as it is; the shortened gene may reject the last residue
        s, e = gen_range(rng, gene)
        return 3, (gene.parts, cs, s, e), gene
    if r < 0.82:
        while True:
            gene = gen_gene(rng)
            if feature_ok(gene.parts):
                break
        total = gene.codons
        ll = rng.choice([0, 0, 1, rng.randint(0, total + 1)])
        tl = rng.choice([0, 0, 1, rng.randint(0, total + 1)])
        if rng.random() < 0.8 and total >= 1:
            ll = min(ll, total - 1)
            tl = min(tl, total - 1 - ll)
        return 4, (gene.parts, ll, tl), gene
    if r < 0.92:
        while True:
            gene = gen_gene(rng)
            if feature_ok(gene.parts):
                break
        if gene.codons and rng.random() < 0.9:
            off = 3 * rng.randrange(gene.codons)
        else:
            off = rng.randint(-1, gene.length + 3)
        return 5, (gene.parts, off), gene
    gene = gen_gene(rng)
    bases = [rng.randrange(4) for _ in range(gene.n)]
    return 6, (gene.parts, bases), gene


def shifted_gene(gene, off):
    """ the gene as it is stored after the codon_start adjustment (first listed exon shortened at its 5' end) """
    if off == 0:
        return gene
    s, e, st = gene.parts[0]
    first = (s, e - off, st) if st == -1 else (s + off, e, st)
    if first[0] >= first[1]:
        return gene
    return Gene([first] + gene.parts[1:], gene.n, gene.kind, gene.length - off)


def remove_stops(gene, off, bases, table):
    """ rewrites the record so that the reading frame starting at base `off` of the gene has no stop codon """
    coords = []
    for s, e, st in gene.parts:
        coords += [(i, st) for i in (range(e - 1, s - 1, -1) if st == -1 else range(s, e))]
    coords = coords[off:]
    for k in range(0, len(coords) - 2, 3):
        read = [3 - bases[i] if st == -1 else bases[i] for i, st in coords[k:k + 3]]
        if table[16 * read[0] + 4 * read[1] + read[2]] == ord("*"):
            i, st = coords[k]
            bases[i] = 2 if st == -1 else 1     # read as C: CAA, CAG, CGA are not stop codons


def gen_load_case(rng, fn, table):
    """ a CDS as it appears in an input record: location, /codon_start (mostly 2 or 3), record sequence """
    while True:
        gene = gen_gene(rng, allow_malformed=(fn == 7))
        if fn == 8 and (gene.strand not in (1, -1) or gene.length < 3):
            continue
        if feature_ok(gene.parts):
            break
    cs = rng.choice([2, 3, 2, 3, 2, 3, 1, -1, rng.choice([0, 4, 1, -1])])
    off = cs - 1 if 1 <= cs <= 3 else 0
    bases = [rng.randrange(4) for _ in range(gene.n)]
    if gene.kind != "malformed" and rng.random() < 0.85:
        remove_stops(gene, off, bases, table)
    s, e = gen_range(rng, shifted_gene(gene, off))
    return fn, (gene.parts, cs, bases, table, s, e, gene.kind == "spanning"), gene


def describe(flat):
    return {"function": FN_NAMES.get(flat[1], flat[1] if flat[1] < 10 else f"specification of fn {flat[1] - 10}"),
            "flat_payload": flat[2:]}


def fmt_parts(parts):
    sign = {1: "+", -1: "-", 0: "?", 2: ""}
    body = ", ".join(f"[{s}:{e}]({sign[st]})" for s, e, st in parts)
    return body if len(parts) == 1 else "join{" + body + "}"


def corpus():
    """ witnesses of the recorded findings and of the boundary the property text names """
    span_fwd = [(90, 102, 1), (0, 21, 1)]
    span_rev = [(0, 21, -1), (90, 102, -1)]
    multi = [(0, 4, 1), (10, 15, 1)]
    slip = [(32, 43, 1), (42, 45, 1)]
    return [
        (2, (span_fwd, False, False, 0, 2), Gene(span_fwd, 102, "spanning", 33)),
        (2, (span_rev, False, False, 0, 2), Gene(span_rev, 102, "spanning", 33)),
        (2, (span_fwd, False, False, 3, 8), Gene(span_fwd, 102, "spanning", 33)),
        (5, (multi, 6), Gene(multi, 30, "plain", 9)),
        (3, (span_fwd, 2, 0, 2), Gene(span_fwd, 102, "spanning", 33)),
        (4, (span_fwd, 2, 2), Gene(span_fwd, 102, "spanning", 33)),
        (2, (slip, False, False, 3, 4), Gene(slip, 60, "malformed", 14)),
    ] + load_corpus()


def load_corpus():
    """ 5'-partial genes (codon_start 2 / 3): forward single exon, forward two exons split inside a codon, reverse
        single exon, reverse two exons; and an origin-spanning gene with codon_start 1 and 2 """
    import random
    rng = random.Random(99)
    table = codon_table()
    genes = [([(0, 35, 1)], 3), ([(45, 59, 1), (71, 91, 1)], 2), ([(101, 135, -1)], 2),
             ([(30, 50, -1), (4, 20, -1)], 3), ([(130, 140, 1), (0, 21, 1)], 1), ([(130, 140, 1), (0, 21, 1)], 2)]
    out = []
    for fn in (7, 8):
        for parts, cs in genes:
            length = sum(e - s for s, e, _ in parts)
            spanning = parts[0][0] == 130
            gene = Gene(parts, 140, "spanning" if spanning else "plain", length)
            bases = [rng.randrange(4) for _ in range(140)]
            remove_stops(gene, cs - 1, bases, table)
            out.append((fn, (parts, cs, bases, table, 1, 4, spanning), gene))
    return out


def judge_load(chk, i, fn, args, gene, verdict, out, report):
    """ verdict of the Gallina specification on a loaded CDS: [0, location, translation, sub-location, written,
        range applicable, gene class] or [1, error, gene class] """
    parts, cs, _bases, _table, s, e, _circular = args
    shown = [cs, s, e]
    if len(verdict) not in (3, 7):
        chk.violation("broken-correspondence", "specification function did not decode its input",
                      {"theorem_or_correspondence": "spec encoding", "function": FN_NAMES[fn], "implementation": out})
        return
    cls = verdict[-1]
    if cls in (2, 3) or cs not in (-1, 1, 2, 3):
        chk.count("spec_no_verdict(out of range or malformed gene)")
        return
    off = max(0, cs - 1)
    first_len = parts[0][1] - parts[0][0]
    guard = cls == 0
    if verdict[0] == 1:
        if cls == 1 and off and len(parts) > 1 and verdict[1] == common.ERR["AssertionError"]:
            chk.count(f"spec_fn{fn}_outside_guard_adjustment_FAILS")
            report(i, fn, parts, shown, False, CLASS_CODON, "C09_cds_load")
        elif first_len > off and gene.length - off >= 3 and gene.strand in (1, -1):
            chk.count(f"spec_fn{fn}_{'guard' if guard else 'outside_guard'}_load_FAILS")
            report(i, fn, parts, shown, guard, None, "C09_cds_load",
                   f": the CDS cannot be loaded ({common.ERR_NAME.get(verdict[1], verdict[1])})")
        else:
            chk.count("spec_no_verdict(first exon not longer than the codon_start offset, or gene shorter than a codon)")
        return
    if first_len <= off:
        chk.count("spec_no_verdict(first exon not longer than the codon_start offset, or gene shorter than a codon)")
        return
    _zero, ok_loc, ok_tr, ok_sub, ok_out, in_range, _cls = verdict
    where = "guard" if guard else "outside_guard"
    clauses = [(ok_loc, ": the gene's location does not read the annotated location from base codon_start-1 on"),
               (ok_tr, ": the stored translation is not the translation of the gene's location"),
               (ok_out, ": the location / codon_start written out differ from the annotated ones "
                        "(or the gene read back differs)")]
    good = all(ok for ok, _ in clauses)
    chk.count(f"spec_fn{fn}_{where}_load_{'ok' if good else 'FAILS'}")
    for ok, text in clauses:
        if not ok:
            report(i, fn, parts, shown, guard, None, "C09_cds_load", text)
            return
    if not in_range:
        chk.count("spec_no_verdict(residue range outside the stored translation)")
        return
    chk.count(f"spec_fn{fn}_{where}_sub_{'ok' if ok_sub else 'FAILS'}")
    if not ok_sub:
        report(i, fn, parts, shown, guard, CLASS_SPANNING if cls == 1 else None, "C09_codon_start",
               ": the sub-location does not cover the nucleotides that encode the residues of the stored translation")


def run(chk):
    if not chk.build_and_audit():
        return chk.finish(RULE)
    # antismash asserts on a warning while it is imported: import first, silence Biopython afterwards
    import antismash.common.secmet.features  # noqa: F401  pylint: disable=unused-import,import-outside-toplevel
    import antismash.modules.tta.tta  # noqa: F401  pylint: disable=unused-import,import-outside-toplevel
    warnings.simplefilter("ignore")
    total = 60000 if chk.tier == "quick" else 900000
    known = known_classes()
    cases, impl_outs, meta = [], [], []
    fixed = corpus()
    table = codon_table()
    for i in range(total):
        fn, args, gene = fixed[i] if i < len(fixed) else gen_case(chk.rng, table)
        flat = [PROP, fn] + encode(fn, args)
        out = impl(fn, args)
        cases.append(flat)
        impl_outs.append(out)
        meta.append((fn, args, gene))
        chk.count(FN_NAMES[fn])
        chk.count(f"gene_{gene.kind}")
        chk.count(f"exons_{len(gene.parts)}")
        chk.count(f"strand_{gene.strand}")
        if out[:1] == [1] and fn != 6:
            chk.count("error_" + common.ERR_NAME.get(out[1], str(out[1])))
        if fn == 2 and (args[1] or args[2]):
            chk.count("partial_end_flags")
        if fn in (7, 8):
            chk.count(f"load_codon_start_{args[1] if args[1] >= 0 else 'absent'}")
        chk.note_case(flat, len(gene.parts) > 1 or gene.strand == -1,
                      {"function": FN_NAMES[fn], "gene": fmt_parts(gene.parts), "record_length": gene.n,
                       "args": [a for a in args if not isinstance(a, list)],
                       "implementation": out if fn != 6 else "..."})
    model_outs = common.correspondence(chk, cases, impl_outs, spec_fn_offset=None, describe=describe)

    # ---- the specification evaluated on every implementation output (fn 2, 3, 4, 5)
    judged = [i for i, (fn, _a, _g) in enumerate(meta) if fn in (2, 4, 5, 7, 8)]
    spec_cases = [[PROP, cases[i][1] + SPEC_OFFSET] + cases[i][2:] + impl_outs[i] for i in judged]
    # fn 3: class of the original gene, and the sub-location judged against the ADJUSTED gene
    cs_cases = []
    for i, (fn, args, gene) in enumerate(meta):
        if fn != 3:
            continue
        parts, cs, s, e = args
        out = impl_outs[i]
        judged.append(i)
        spec_cases.append([PROP, 12] + enc_parts(parts) + [0, 0, 0, 1, 1, 1])     # only the class is read
        if out[0] == 0:
            k = out[1]
            adjusted = out[1:2 + 3 * k]
            sub_res = out[2 + 3 * k:]
            sub_len = 2 if sub_res[0] == 1 else 2 + 3 * sub_res[1]
            cs_cases.append((i, adjusted, sub_res[:sub_len], sub_res[sub_len:]))
    cs_spec = [[PROP, 12] + adj + [0, 0, meta[i][1][2], meta[i][1][3]] + sub for i, adj, sub, _r in cs_cases]
    verdicts = common.run_driver(spec_cases)
    cs_verdicts = {c[0]: (v, c) for c, v in zip(cs_cases, common.run_driver(cs_spec))}
    seq_rng = __import__("random").Random(chk.seed + 7)
    reported = set()
    pending = []     # counterexamples; those inside the proved guard and the smallest first

    def report(i, fn, parts, shown_args, guard, finding, theorem, clause=""):
        replay = {"theorem_or_correspondence": theorem, "function": FN_NAMES[fn], "flat": cases[i],
                  "input": {"gene": fmt_parts(parts), "args": shown_args, "record_length": meta[i][2].n},
                  "implementation": impl_outs[i], "model": model_outs[i], "spec_ok": False, "guard": guard,
                  "finding_class": finding, "failed_clause": clause}
        if guard or finding is None:
            where = "inside the proved guard" if guard else "outside every recorded finding class"
            pending.append((0, len(cases[i]), f"{FN_NAMES[fn]}: output violates the property {where}{clause} "
                            f"({fmt_parts(parts)}, args {shown_args})", replay))
        elif finding in known and impl_outs[i] == model_outs[i]:
            if finding not in reported:
                reported.add(finding)
                chk.known(f"class={finding} {WHAT[finding]}; e.g. {fmt_parts(parts)} args {shown_args}")
        else:
            why = ("not recorded as known in known_findings.json" if finding not in known else
                   "recorded as known, but the implementation no longer behaves like the faithful model there")
            pending.append((1, len(cases[i]), f"{FN_NAMES[fn]}: output violates the property (class {finding}, {why})",
                            replay))

    for i, verdict in zip(judged, verdicts):
        fn, args, gene = meta[i]
        if fn in (7, 8):
            judge_load(chk, i, fn, args, gene, verdict, impl_outs[i], report)
            continue
        if len(verdict) != 2:
            chk.violation("broken-correspondence", "specification function did not decode its input",
                          {"theorem_or_correspondence": "spec encoding", "flat": cases[i]})
            break
        ok, cls = verdict
        if cls == 3 and fn not in (2, 4):
            cls = 2     # overlapping exons: verdicts only for the sub-location functions
        total_res = gene.codons
        shown_args = [a for a in args if not isinstance(a, list)]
        if fn == 3:
            parts, cs, s, e = args
            out = impl_outs[i]
            if cls in (2, 3) or not 1 <= cs <= 3:
                chk.count("spec_no_verdict(out of range or malformed gene)")
                continue
            if out[0] == 1:
                if cls == 1 and out[1] == common.ERR["AssertionError"]:
                    chk.count("spec_fn3_outside_guard_adjustment_FAILS")
                    report(i, fn, parts, shown_args, False, CLASS_CODON, "C09_codon_start_restored")
                else:
                    chk.count("spec_no_verdict(first exon shorter than the codon_start offset)")
                continue
            (sub_verdict, (_i, adjusted, sub_res, restored)) = cs_verdicts[i]
            if cls == 0:
                good = restored == [0] + enc_parts(parts)
                chk.count(f"spec_fn3_guard_restore_{'ok' if good else 'FAILS'}")
                if not good:
                    report(i, fn, parts, shown_args, True, None, "C09_codon_start_restored")
                    continue
            adj_len = sum(adjusted[2 + 3 * j] - adjusted[1 + 3 * j] for j in range(adjusted[0]))
            if len(sub_verdict) == 2 and sub_verdict[1] in (0, 1) and 0 <= s < e <= adj_len // 3:
                sub_ok, sub_cls = sub_verdict
                chk.count(f"spec_fn3_sub_{'guard' if sub_cls == 0 else 'outside_guard'}_{'ok' if sub_ok else 'FAILS'}")
                if not sub_ok:
                    report(i, fn, parts, shown_args, sub_cls == 0, CLASS_SPANNING if sub_cls == 1 else None, "C09_subloc")
            continue
        if fn == 2:
            parts, end_after, start_before, s, e = args
            in_range = 0 <= s < e <= total_res
            finding = CLASS_SPANNING if cls == 1 else (CLASS_OVERLAP if cls == 3 else None)
            theorem = "C09_subloc"
        elif fn == 4:
            parts, ll, tl = args
            in_range = ll + tl < total_res
            finding = CLASS_SPANNING if cls == 1 else (CLASS_OVERLAP if cls == 3 else None)
            theorem = "C09_prepeptide_partition"
        else:
            parts, off = args
            # TTA markers are only made for CDS features, whose strand is 1 or -1 (CDSFeature refuses others)
            in_range = 0 <= off and off + 3 <= gene.length and gene.strand in (1, -1)
            finding = CLASS_TTA if (len(parts) > 1 and cls in (0, 1)) else None
            theorem = "C09_tta"
        if cls == 2 or not in_range:
            chk.count("spec_no_verdict(out of range or malformed gene)")
            continue
        guard = (cls == 0) if fn != 5 else (cls == 0 and len(parts) == 1)
        chk.count(f"spec_fn{fn}_{'guard' if guard else 'outside_guard'}_{'ok' if ok else 'FAILS'}")
        if fn == 2:
            py_ok = python_property(parts, s, e, impl_outs[i], gene.n, seq_rng)
            if ok and not py_ok:
                chk.violation("broken-correspondence", "Gallina specification accepts an output that Biopython "
                              "extract/translate rejects (extraction model wrong)",
                              {"theorem_or_correspondence": "C09 extraction assumption", "flat": cases[i],
                               "implementation": impl_outs[i], "input": describe(cases[i])})
                break
            if py_ok and not ok:
                chk.count("coincidental_sequence_match")
        if not ok:
            report(i, fn, parts, shown_args, guard, finding, theorem)
    pending.sort(key=lambda item: item[:2])
    chk.extra["spec_failures_outside_recorded_findings"] = len(pending)
    for _prio, _size, what, replay_doc in pending[:20]:
        chk.violation("counterexample", what, replay_doc)
    chk.crosscheck_vm(cases, model_outs)
    return chk.finish(RULE, trusted_extra=[
        "Biopython location semantics (start=min, end=max, strand=common or None, int membership half-open, "
        "extract = parts in listed order, reverse-complemented per part on strand -1) are assumptions of the model, "
        "re-checked on every run (fn 6 and the extract+translate evaluation of every sub-location)",
        "Biopython Seq.translate (table 11, to_stop) is modelled as codon-by-codon lookup in the 64-entry table read from "
        "Bio.Data.CodonTable on every run, over unambiguous ungapped bases; compared with the real translation of every "
        "loaded CDS (fn 7, 8)"])


def replay(chk, path):
    doc = json.load(open(path))
    flat = doc["flat"]
    model = common.run_driver([flat])[0]
    print("model:", model, "recorded implementation:", doc.get("implementation"))
    if flat[1] in (7, 8) and doc.get("implementation"):
        print("specification verdict [0, location, translation, sub-location, written, range applicable, class] "
              "(or [1, error, class]) on the recorded implementation output:",
              common.run_driver([[flat[0], flat[1] + SPEC_OFFSET] + flat[2:] + doc["implementation"]])[0])
    if flat[1] in (2, 4, 5) and doc.get("implementation"):
        print("specification verdict [ok, class] on the recorded implementation output:",
              common.run_driver([[flat[0], flat[1] + SPEC_OFFSET] + flat[2:] + doc["implementation"]])[0])
    return 0
