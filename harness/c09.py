"""C09: correspondence for annotations placed inside a gene by protein coordinates
(convert_protein_position_to_dna, Feature.get_sub_location_from_protein_coordinates, the codon_start
adjustment of Feature.from_biopython/to_biopython, Prepeptide.to_biopython leader/core/tail and the
to_biopython -> from_biopython round trip through build_location_from_others,
TTAResults.new_feature_from_other), for the model's extraction assumption (location.extract), and for the
CALLERS of the sub-location function driven on generated records with several genes (hmmer.build_hits /
run_hmmer and the result classes that turn hits into domains, nrps_pks_domains, the RiPP modules, tta.detect)."""
import json
import warnings

import common
from common import err_code

PROP = 9
SPEC_OFFSET = 10
FN_NAMES = {1: "convert_protein_position_to_dna", 2: "Feature.get_sub_location_from_protein_coordinates",
            3: "Feature.from_biopython(codon_start) + sub-location + to_biopython",
            4: "Prepeptide.to_biopython (leader/core/tail locations)", 5: "TTAResults.new_feature_from_other",
            6: "location.extract",
            7: "CDSFeature.from_biopython(codon_start) + translation + sub-location + to_biopython",
            8: "Record.from_biopython -> CDS (codon_start) + translation + sub-location + Record.to_biopython + reload",
            9: "Prepeptide.to_biopython -> Prepeptide.from_biopython (build_location_from_others) -> to_biopython",
            20: "build_location_from_others",
            24: "Prepeptide.to_biopython (leader/core/tail locations; location longer than the sections)",
            29: "Prepeptide.to_biopython -> Prepeptide.from_biopython -> to_biopython (location longer than the sections)"}
STRAND_CODE = {1: 1, -1: -1, 0: 0, None: 2}
CODE_STRAND = {v: k for k, v in STRAND_CODE.items()}
BASES = "ACGT"

# finding classes (entries of known_findings.json with status "known" suppress them)
CLASS_SPANNING = "origin_spanning_gene_sublocation"
CLASS_OVERLAP = "overlapping_exons_sublocation"
CLASS_TTA_SPLIT = "tta_codon_split_by_intron"
CLASS_LAST = "prepeptide_last_section_holds_stop_codon"
# repaired classes (status "fixed": nothing is suppressed; a failing case of the class is a VIOLATION that names it)
CLASS_TTA = "tta_multi_exon"
CLASS_CODON = "origin_spanning_codon_start"
CLASS_TAIL_SHIFT = "prepeptide_tail_boundary_shifted_by_stop_codon"
WHAT = {
    CLASS_SPANNING: ("sub-location of an origin-spanning gene is built by walking the exons in coordinate order instead "
                     "of transcription order: wrong nucleotides (or ValueError) for protein ranges of a gene that spans "
                     "the origin (Feature.get_sub_location_from_protein_coordinates / convert_protein_position_to_dna)"),
    CLASS_CODON: ("codon_start 2 or 3 on a compound gene that spans the origin: the frameshift adjustment asserts that the "
                  "first listed exon starts at location.start (resp. ends at location.end) and raises AssertionError, so "
                  "the feature cannot be built (locations._adjust_location_by_offset via Feature.from_biopython)"),
    CLASS_OVERLAP: ("sub-location inside a gene whose exons overlap by 1-2 bases (programmed frameshift, accepted in input "
                    "records): the protein-to-DNA conversion counts the overlap as a negative gap and the exon walk stops "
                    "at the first exon containing a coordinate, so ranges at or after the overlap get the wrong bases or "
                    "fewer than three bases per residue (convert_protein_position_to_dna / "
                    "Feature.get_sub_location_from_protein_coordinates)"),
    CLASS_TTA: ("TTA codon marker placed at start+offset / end-offset-3 ignores introns: for a multi-exon gene the marker "
                "does not cover the codon found in the spliced sequence (TTAResults.new_feature_from_other)"),
    CLASS_TTA_SPLIT: ("TTA codon that an intron splits (its three bases are not adjacent in the record): the marker is one "
                      "feature of three bases from the codon's first base on, so it runs into the intron and does not cover "
                      "the codon's other bases (TTAResults.new_feature_from_other / new_feature_from_basics: a marker is "
                      "(start, strand))"),
    CLASS_LAST: ("prepeptide on a location that holds more codons than leader + core + tail (the RiPP modules hand over the "
                 "gene's location, which ends with the stop codon, and sections that make up the gene's translation): the LAST "
                 "section written by Prepeptide.to_biopython (the tail if there is one, else the core) runs to the end of the "
                 "location, so it holds the stop codon as well - three bases more than its residues encode; every other "
                 "section is exact (kept so that Prepeptide.from_biopython, which rebuilds the location from the written "
                 "sections, gives back the same location)"),
    CLASS_TAIL_SHIFT: ("prepeptide on a location that ends with the stop codon, with a tail: Prepeptide.to_biopython counted "
                       "the tail back from the end of the location, so the core held the tail's first codon as well and the "
                       "tail started one residue late"),
}


# ---------------------------------------------------------------- encoding

def enc_parts(parts):
    out = [len(parts)]
    for start, end, strand in parts:
        out += [start, end, strand]
    return out


def enc_pyloc(location):
    return enc_parts([(int(p.start), int(p.end), STRAND_CODE[p.strand]) for p in location.parts])


def result(fn):
    try:
        return [0] + fn()
    except Exception as exc:  # pylint: disable=broad-except
        return [1, err_code(exc)]


def mk_loc(parts, end_after=False, start_before=False):
    """ parts: [(start, end, strand code)] in listed order; the flags put an AfterPosition on the
        largest end / a BeforePosition on the smallest start """
    from antismash.common.secmet.locations import FeatureLocation, CompoundLocation, AfterPosition, BeforePosition
    hi = max(range(len(parts)), key=lambda i: parts[i][1])
    lo = min(range(len(parts)), key=lambda i: parts[i][0])
    built = []
    for i, (start, end, strand) in enumerate(parts):
        if end_after and i == hi:
            end = AfterPosition(end)
        if start_before and i == lo:
            start = BeforePosition(start)
        built.append(FeatureLocation(start, end, CODE_STRAND[strand]))
    if len(built) == 1:
        return built[0]
    return CompoundLocation(built)


# ---------------------------------------------------------------- the implementation

def impl(fn, args):
    from antismash.common.secmet.features import Feature
    from antismash.common.secmet import locations as L
    if fn == 1:
        start, end, parts = args
        loc = mk_loc(parts)
        return result(lambda: [int(x) for x in L.convert_protein_position_to_dna(start, end, loc)])
    if fn == 2:
        parts, end_after, start_before, start, end = args
        feature = Feature(mk_loc(parts, end_after, start_before), "CDS")
        return result(lambda: enc_pyloc(feature.get_sub_location_from_protein_coordinates(start, end)))
    if fn == 3:
        from Bio.SeqFeature import SeqFeature
        parts, codon_start, start, end = args
        bio = SeqFeature(mk_loc(parts), type="CDS", qualifiers={"codon_start": [str(codon_start)]})
        try:
            feature = Feature.from_biopython(bio)
        except Exception as exc:  # pylint: disable=broad-except
            return [1, err_code(exc)]
        out = [0] + enc_pyloc(feature.location)
        out += result(lambda: enc_pyloc(feature.get_sub_location_from_protein_coordinates(start, end)))
        out += result(lambda: enc_pyloc(feature.to_biopython()[0].location))
        return out
    if fn in (4, 24):
        pre = make_prepeptide(*args)

        def locations():
            feats = pre.to_biopython()
            out = [len(feats)]
            for feat in feats:
                out += enc_pyloc(feat.location)
            return out
        return result(locations)
    if fn == 5:
        from antismash.modules.tta.tta import TTAResults
        parts, offset = args
        feature = Feature(mk_loc(parts), "CDS")
        results = TTAResults("rec", 0.7, 0.65)
        return result(lambda: enc_pyloc(results.new_feature_from_other(feature, offset).location))
    if fn == 6:
        from Bio.Seq import Seq
        parts, bases = args
        seq = Seq("".join(BASES[b] for b in bases))
        got = str(mk_loc(parts).extract(seq))
        return [len(got)] + [BASES.index(c) for c in got]
    if fn in (7, 8):
        parts, codon_start, bases, _table, start, end, circular = args
        return impl_load(fn, parts, codon_start, bases, start, end, circular)
    if fn in (9, 29):
        return impl_reread(make_prepeptide(*args))
    if fn == 20:
        (locs,) = args
        return result(lambda: enc_pyloc(L.build_location_from_others([mk_loc(parts) for parts in locs])))
    raise ValueError(fn)


def make_prepeptide(parts, leader_len, tail_len, slack=0):
    """ a prepeptide on the location whose sections leave `slack` codons of the location uncovered (slack 1: the location
        ends with the stop codon, the sections are the translation); section_args() only hands out arguments for which
        the core has at least one residue """
    from antismash.common.secmet.features import Prepeptide
    loc = mk_loc(parts)
    core_len = len(loc) // 3 - leader_len - tail_len - slack
    assert core_len >= 1, (parts, leader_len, tail_len, slack)
    if core_len >= 2 and (sum(s + e for s, e, _ in parts) + leader_len) % 3 == 0:
        # second use of the object: built with the cleavage site one residue further on, converted once (result unused),
        # then moved to where the case wants it through the setters; what is written afterwards is judged as always
        pre = Prepeptide(loc, "lanthipeptide", "A" * (core_len - 1), "tag", "tool", leader="M" * (leader_len + 1),
                         tail="C" * tail_len)
        try:
            pre.to_biopython()
        except Exception:  # pylint: disable=broad-except
            pass
        pre.leader = "M" * leader_len
        pre.core = "A" * core_len
        return pre
    return Prepeptide(loc, "lanthipeptide", "A" * core_len, "tag", "tool", leader="M" * leader_len, tail="C" * tail_len)


def section_args(base_fn, parts, total, leader_len, tail_len, slack):
    """ -> (fn, args) for leader / tail lengths and a wanted slack: the core gets what is left but at least one residue
        (Prepeptide refuses an empty core), so the slack actually realised may differ from the wanted one (it is negative
        when leader + tail alone are longer than the location: the rejection paths); function base_fn (4 or 9) when the
        sections fill the location's codons exactly, base_fn + 20 with the realised slack otherwise """
    core_len = max(1, total - leader_len - tail_len - slack)
    slack = total - leader_len - tail_len - core_len
    if slack == 0:
        return base_fn, (parts, leader_len, tail_len)
    return base_fn + 20, (parts, leader_len, tail_len, slack)


class ReloadMismatch(Exception):
    """ the gene read back from Record.to_biopython() differs from the gene first loaded """


def codon_table():
    """ Biopython's table 11 (what Record.from_biopython uses for taxon bacteria) as the 64 residue codes of the
        model's encoding: codon (a, b, c) at 16a + 4b + c, bases A=0 C=1 G=2 T=3, '*' for stop codons """
    from Bio.Data import CodonTable
    table = CodonTable.unambiguous_dna_by_id[11]
    out = []
    for a in BASES:
        for b in BASES:
            for c in BASES:
                codon = a + b + c
                out.append(ord("*") if codon in table.stop_codons else ord(table.forward_table[codon]))
    return out


def bio_location(parts):
    """ a Biopython (not antismash) location, as the GenBank parser would deliver it """
    from Bio.SeqFeature import FeatureLocation as BioFeatureLocation, CompoundLocation as BioCompoundLocation
    built = [BioFeatureLocation(s, e, CODE_STRAND[st]) for s, e, st in parts]
    return built[0] if len(built) == 1 else BioCompoundLocation(built)


def impl_load(fn, parts, codon_start, bases, start, end, circular):
    """ loads a CDS the way antiSMASH loads its input: fn 7 CDSFeature.from_biopython(SeqFeature, record=...),
        fn 8 Record.from_biopython(SeqRecord) and, for writing out, Record.to_biopython() followed by a reload """
    from Bio.Seq import Seq
    from Bio.SeqFeature import SeqFeature
    from Bio.SeqRecord import SeqRecord
    from antismash.common.secmet import Record
    from antismash.common.secmet.features import CDSFeature
    seq = Seq("".join(BASES[b] for b in bases))
    qualifiers = {"locus_tag": ["gene"]}
    if codon_start >= 0:
        qualifiers["codon_start"] = [str(codon_start)]
    try:
        if fn == 7:
            record = Record(seq, transl_table=11)
            cds = CDSFeature.from_biopython(SeqFeature(mk_loc(parts), type="CDS", qualifiers=qualifiers), record=record)
        else:
            bio = SeqRecord(seq, id="rec", name="rec", annotations={"molecule_type": "DNA"})
            if circular:
                bio.annotations["topology"] = "circular"
            bio.features.append(SeqFeature(bio_location(parts), type="CDS", qualifiers=qualifiers))
            record = Record.from_biopython(bio, taxon="bacteria")
            (cds,) = record.get_cds_features()
    except Exception as exc:  # pylint: disable=broad-except
        return [1, err_code(exc)]
    original = cds._original_codon_start  # pylint: disable=protected-access
    out = [0] + enc_pyloc(cds.location) + [len(cds.translation)] + [ord(c) for c in cds.translation]
    out += [-1 if original is None else original]
    out += result(lambda: enc_pyloc(cds.get_sub_location_from_protein_coordinates(start, end)))

    def written():
        if fn == 7:
            bio_cds = cds.to_biopython()[0]
        else:
            bio_again = record.to_biopython()
            (bio_cds,) = [f for f in bio_again.features if f.type == "CDS"]
            again = Record.from_biopython(bio_again, taxon="bacteria")
            (cds2,) = again.get_cds_features()
            if enc_pyloc(cds2.location) != enc_pyloc(cds.location) or cds2.translation != cds.translation:
                raise ReloadMismatch(f"{cds2.location} {cds2.translation} != {cds.location} {cds.translation}")
        return enc_pyloc(bio_cds.location) + [int(bio_cds.qualifiers.get("codon_start", ["-1"])[0])]
    out += result(written)
    return out


def encode(fn, args):
    if fn == 1:
        start, end, parts = args
        return [start, end] + enc_parts(parts)
    if fn == 2:
        parts, end_after, start_before, start, end = args
        return enc_parts(parts) + [int(end_after), int(start_before), start, end]
    if fn == 3:
        parts, codon_start, start, end = args
        return enc_parts(parts) + [codon_start, start, end]
    if fn in (4, 9):
        parts, leader_len, tail_len = args
        return enc_parts(parts) + [leader_len, tail_len]
    if fn in (24, 29):
        parts, leader_len, tail_len, slack = args
        return enc_parts(parts) + [leader_len, tail_len, slack]
    if fn == 20:
        (locs,) = args
        return [len(locs)] + [x for parts in locs for x in enc_parts(parts)]
    if fn == 5:
        parts, offset = args
        return enc_parts(parts) + [offset]
    if fn == 6:
        parts, bases = args
        return enc_parts(parts) + [len(bases)] + list(bases)
    if fn in (7, 8):
        parts, codon_start, bases, table, start, end, _circular = args
        return enc_parts(parts) + [codon_start, len(bases)] + list(bases) + [len(table)] + list(table) + [start, end]
    raise ValueError(fn)


# ---------------------------------------------------------------- generators

class Gene:
    def __init__(self, parts, n, kind, total_len):
        self.parts = parts          # listed (transcription) order
        self.n = n                  # record length
        self.kind = kind            # "plain" | "spanning" | "malformed"
        self.length = total_len
        self.codons = total_len // 3

    @property
    def strand(self):
        strands = {p[2] for p in self.parts}
        return self.parts[0][2] if len(strands) == 1 else 2


def gen_gene(rng, allow_malformed=True):
    """ 1-4 exons on a record of length n, either strand, introns of 0-5 bases, optionally spanning the
        origin (an exon may itself be cut by the origin), optionally 1-2 surplus bases """
    while True:
        n = rng.choice([rng.randint(12, 40), rng.randint(30, 120), rng.randint(30, 120)])
        strand = rng.choice([1, 1, 1, -1, -1, -1, 0, 2]) if rng.random() < 0.1 else rng.choice([1, -1])
        nex = rng.choice([1, 1, 2, 2, 3, 4])
        codons = rng.choice([1, 2, 3, 4, 5, 6, 7, 8, 10, 12])
        length = 3 * codons + (rng.choice([1, 2]) if rng.random() < 0.15 else 0)
        if length < nex:
            continue
        cuts = sorted(rng.sample(range(1, length), nex - 1)) if nex > 1 else []
        lens = [b - a for a, b in zip([0] + cuts, cuts + [length])]
        gaps = [rng.choice([0, 1, 1, 2, 3, 5]) for _ in range(nex - 1)]
        span = length + sum(gaps)
        if span >= n - 1:
            continue
        cross = rng.random() < 0.22
        u0 = rng.randint(n - span + 1, n - 1) if cross else rng.randint(0, n - span)
        parts = []
        pos = u0
        for i, size in enumerate(lens):
            start, end = pos, pos + size
            if start < n < end:
                parts.append((start, n))
                parts.append((0, end - n))
            elif start >= n:
                parts.append((start - n, end - n))
            else:
                parts.append((start, end))
            pos = end + (gaps[i] if i < len(gaps) else 0)
        # two adjacent exons may share an end only through a zero intron: Feature() refuses equal ends only
        parts = [(s, e, strand) for s, e in parts]
        spanning = any(b[0] < a[0] for a, b in zip(parts, parts[1:]))
        if strand == -1:
            parts.reverse()
        kind = "spanning" if spanning else "plain"
        if allow_malformed and rng.random() < 0.04 and len(parts) > 1:
            kind = "malformed"
            choice = rng.random()
            if choice < 0.4:
                rng.shuffle(parts)
            elif choice < 0.7:      # overlapping exons
                i = rng.randrange(len(parts) - 1)
                s, e, st = parts[i + 1]
                parts[i + 1] = (max(0, s - rng.randint(1, 4)), e, st)
            else:                   # mixed strands
                i = rng.randrange(len(parts))
                parts[i] = (parts[i][0], parts[i][1], -parts[i][2] if parts[i][2] in (1, -1) else 1)
        if any(s >= e for s, e, _ in parts):
            continue
        length = sum(e - s for s, e, _ in parts)
        return Gene(parts, n, kind, length)


def feature_ok(parts):
    from antismash.common.secmet.features import Feature
    try:
        Feature(mk_loc(parts), "CDS")
        return True
    except Exception:  # pylint: disable=broad-except
        return False


def exon_border_residues(gene):
    """ residue indices whose codon starts or ends exactly at an exon border (in reading order) """
    borders = set()
    acc = 0
    for s, e, _ in gene.parts:
        acc += e - s
        if acc % 3 == 0:
            borders.add(acc // 3)
    return sorted(b for b in borders if 0 < b < gene.codons)


def gen_range(rng, gene):
    total = gene.codons
    r = rng.random()
    if r < 0.08:    # rejection paths
        return rng.choice([(-1, 1), (0, 0), (total, total + 1), (0, total + 1), (total - 1, total + 2),
                           (rng.randint(0, total + 1), rng.randint(-1, total + 2)), (1, 1), (2, 1)])
    if total == 0:
        return (0, 1)
    borders = exon_border_residues(gene)
    if borders and r < 0.35:
        b = rng.choice(borders)
        return rng.choice([(rng.randint(0, b - 1), b), (b, rng.randint(b + 1, total)),
                           (max(0, b - 1), min(total, b + 1))])
    if r < 0.45:
        return rng.choice([(0, total), (0, 1), (total - 1, total)])
    s = rng.randint(0, total - 1)
    return (s, rng.randint(s + 1, total))


# ---------------------------------------------------------------- property evaluated on the real objects

def python_property(parts, start, end, out, n, rng):
    """ the property at its observation point: location.extract(record.seq).translate() == translation[s:e]
        (plus the bases themselves, three per residue, inside the gene) on a random record sequence """
    from Bio.Seq import Seq
    if out[0] != 0:
        return False
    gene = mk_loc(parts)
    k = out[1]
    sub_parts = [(out[2 + 3 * i], out[3 + 3 * i], out[4 + 3 * i]) for i in range(k)]
    sub = mk_loc(sub_parts)
    seq = Seq("".join(rng.choice(BASES) for _ in range(n)))
    full = gene.extract(seq)
    got = sub.extract(seq)
    if len(sub) != 3 * (end - start) or str(got) != str(full[3 * start:3 * end]):
        return False
    if str(got.translate()) != str(full[:3 * (len(full) // 3)].translate())[start:end]:
        return False
    return all(any(o[0] <= p[0] and p[1] <= o[1] for o in parts) for p in sub_parts)


# ---------------------------------------------------------------- records with several genes: the real CALLERS
# Every site that positions an annotation by protein coordinates is driven on a generated record that holds
# several genes; each annotation it produces becomes one case of fn 2 (sub-location), fn 4 (leader/core/tail)
# or fn 5 (TTA marker) whose "implementation output" is what the CALLER handed out, so that it is compared with
# the model and judged by the Gallina specification against the gene it claims to belong to.

CALLERS = {
    "build_hits": "hmmer.build_hits -> HmmerResults.add_to_record -> PFAMDomain",
    "run_hmmer": "hmmer.run_hmmer (hmmscan output injected) -> build_hits -> TIGRFamResults.add_to_record -> TIGRDomain",
    "rrefinder": "hmmer.run_hmmer (hmmscan output injected) -> build_hits -> rrefinder.extract_rre_hits/filter_hits -> RREFinderResults -> RREDomain",
    "nrps_domains": "nrps_pks_domains.generate_domain_features -> ModularDomain",
    "nrps_motifs": "nrps_pks_domains.generate_motif_features -> CDSMotif",
    "lanthi": "lanthipeptides.result_vec_to_feature -> Prepeptide.to_biopython",
    "thio": "thiopeptides.result_vec_to_feature -> Prepeptide.to_biopython",
    "lasso": "lassopeptides.result_vec_to_motif -> Prepeptide.to_biopython",
    "sacti": "sactipeptides.determine_precursor_peptide_candidate (run_rodeo stubbed) -> Prepeptide.to_biopython",
    "tta_detect": "tta.detect -> TTAResults.new_feature_from_other",
}
FAKE_DB = "/nonexistent/pfam/31.0/Pfam-A.hmm"
FAKE_TIGR = "/nonexistent/tigrfam/TIGRFam.hmm"
FAKE_RRE = "/nonexistent/rrefinder/RREFam.hmm"
PROFILES = {f"prof{i}": f"PF{i:05d}.1" for i in range(1, 7)}
FAKE_DBS = {FAKE_DB: PROFILES, FAKE_TIGR: {name: f"TIGR{i:05d}" for i, name in enumerate(sorted(PROFILES), 1)},
            FAKE_RRE: {name: f"RREFam{i:03d}.1" for i, name in enumerate(sorted(PROFILES), 1)}}


def gen_layout(rng):
    """ exon sizes and intron sizes of one gene (in reading order), strand """
    nex = rng.choice([1, 1, 2, 2, 3, 4])
    codons = rng.choice([3, 4, 5, 6, 7, 8, 10, 12, 15])
    length = 3 * codons + (rng.choice([1, 2]) if rng.random() < 0.15 else 0)
    cuts = sorted(rng.sample(range(1, length), nex - 1)) if nex > 1 else []
    lens = [b - a for a, b in zip([0] + cuts, cuts + [length])]
    gaps = [rng.choice([0, 1, 1, 2, 3, 5]) for _ in range(nex - 1)]
    return lens, gaps, rng.choice([1, -1])


def gen_record(rng, table):
    """ a record with 2-5 genes next to each other (both strands, 1-4 exons, some with /codon_start 2 or 3, 25%
        of the records circular with the last gene running over the origin), its sequence made stop-free in every
        gene's frame -> dict(n, bases, circular, genes=[dict(name, parts (as annotated), cs)]) """
    count = rng.choice([2, 2, 3, 3, 4, 5])
    layouts = [gen_layout(rng) for _ in range(count)]
    lead = rng.randint(0, 12)
    pos = lead
    placed = []
    for lens, gaps, strand in layouts:
        exons = []
        for i, size in enumerate(lens):
            exons.append((pos, pos + size))
            pos += size + (gaps[i] if i < len(gaps) else 0)
        placed.append((exons, strand))
        pos += rng.choice([0, 1, 3, 7, 12])
    cross = rng.random() < 0.25
    if cross:
        last_exons = placed[-1][0]
        inside = last_exons[-1][1] - last_exons[0][0]
        over = rng.randint(1, max(1, min(lead, inside - 1))) if lead else 0
        n = last_exons[-1][1] - over
        cross = over > 0
    if not cross:
        n = pos + rng.randint(0, 9)
    genes = []
    for k, (exons, strand) in enumerate(placed):
        parts = []
        for start, end in exons:
            if start < n < end:
                parts += [(start, n, strand), (0, end - n, strand)]
            elif start >= n:
                parts.append((start - n, end - n, strand))
            else:
                parts.append((start, end, strand))
        spanning = any(b[0] < a[0] for a, b in zip(parts, parts[1:]))
        if strand == -1:
            parts.reverse()
        first_len = parts[0][1] - parts[0][0]
        cs = rng.choice([-1, -1, 1, 2, 3])
        if 2 <= cs and (first_len <= cs - 1 or sum(e - s for s, e, _ in parts) - (cs - 1) < 9):
            cs = 1
        genes.append({"name": f"gene{k + 1}", "parts": parts, "cs": cs, "spanning": spanning})
    bases = [rng.randrange(4) for _ in range(n)]
    for gene in genes:
        off = gene["cs"] - 1 if gene["cs"] >= 2 else 0
        length = sum(e - s for s, e, _ in gene["parts"])
        remove_stops(Gene(gene["parts"], n, "plain", length), off, bases, table)
    return {"n": n, "bases": bases, "circular": bool(cross), "genes": genes}


def plant_tta(rng, spec, table):
    """ writes TTA into some codons of the genes (reading frame of the stored location) """
    for gene in spec["genes"]:
        off = gene["cs"] - 1 if gene["cs"] >= 2 else 0
        coords = []
        for s, e, st in gene["parts"]:
            coords += [(i, st) for i in (range(e - 1, s - 1, -1) if st == -1 else range(s, e))]
        coords = coords[off:]
        for k in range(3, len(coords) - 2, 3):
            if rng.random() < 0.25:
                for (i, st), base in zip(coords[k:k + 3], (3, 3, 0)):
                    spec["bases"][i] = 3 - base if st == -1 else base
    # an exon border inside a codon can make a planted codon of a neighbouring gene... genes do not overlap: none
    for gene in spec["genes"]:
        off = gene["cs"] - 1 if gene["cs"] >= 2 else 0
        length = sum(e - s for s, e, _ in gene["parts"])
        remove_stops(Gene(gene["parts"], spec["n"], "plain", length), off, spec["bases"], table)


def plant_stops(rng, spec):
    """ writes a stop codon into the last codon of half of the genes (reading frame of the stored location): the gene's
        location then holds one codon more than its translation, which is how genes normally are annotated - the RiPP
        modules hand such a location to Prepeptide together with sections that make up the translation """
    for gene in spec["genes"]:
        if rng.random() < 0.5:
            continue
        off = gene["cs"] - 1 if gene["cs"] >= 2 else 0
        coords = []
        for s, e, st in gene["parts"]:
            coords += [(i, st) for i in (range(e - 1, s - 1, -1) if st == -1 else range(s, e))]
        coords = coords[off:]
        last = 3 * (len(coords) // 3 - 1)
        if last < 9:    # keep at least three residues
            continue
        for (i, st), base in zip(coords[last:last + 3], rng.choice([(3, 0, 0), (3, 0, 2), (3, 2, 0)])):
            spec["bases"][i] = 3 - base if st == -1 else base
        gene["stop"] = True


def build_record(spec):
    """ the secmet Record with its CDS features, loaded the way input records are """
    from Bio.Seq import Seq
    from Bio.SeqFeature import SeqFeature
    from antismash.common.secmet import Record
    from antismash.common.secmet.features import CDSFeature
    seq = Seq("".join(BASES[b] for b in spec["bases"]))
    annotations = {"molecule_type": "DNA", "topology": "circular" if spec["circular"] else "linear"}
    record = Record(seq, transl_table=11, annotations=annotations)
    record.id = "rec"
    for gene in spec["genes"]:
        qualifiers = {"locus_tag": [gene["name"]]}
        if gene["cs"] >= 1:
            qualifiers["codon_start"] = [str(gene["cs"])]
        bio = SeqFeature(mk_loc(gene["parts"]), type="CDS", qualifiers=qualifiers)
        record.add_cds_feature(CDSFeature.from_biopython(bio, record=record))
    return record


def stored_parts(cds):
    return [(int(p.start), int(p.end), STRAND_CODE[p.strand]) for p in cds.location.parts]


def gen_hits(rng, record):
    """ protein ranges per gene; a pool of ranges shared by the genes of the record makes hits with identical
        protein coordinates in different genes (paralogues, related profiles) -> {gene: [(profile, s, e, score, evalue)]} """
    genes = list(record.get_cds_features())
    shortest = min(len(cds.translation) for cds in genes)
    pool = []
    for _ in range(rng.choice([1, 2, 3])):
        s = rng.randint(0, shortest - 1)
        pool.append((s, rng.randint(s + 1, shortest)))
    hits = {}
    for cds in genes:
        total = len(cds.translation)
        mine = []
        for _ in range(rng.choice([1, 2, 2, 3, 4])):
            if rng.random() < 0.6:
                s, e = rng.choice(pool)
            else:
                s = rng.randint(0, total - 1)
                e = rng.randint(s + 1, total)
            score, evalue = (50. + rng.randint(0, 40), 1e-20) if rng.random() < 0.9 else rng.choice([(1., 1e-20), (50., 5.)])
            mine.append((rng.choice(sorted(PROFILES)), s, e, score, evalue))
        hits[cds.get_name()] = mine
    return hits


def fake_hmmscan(hits_by_gene):
    """ stand-ins for the Bio.SearchIO QueryResult / HSP objects that run_hmmscan returns """
    from types import SimpleNamespace
    results = []
    for gene, hits in hits_by_gene.items():
        hsps = [SimpleNamespace(query_id=gene, query_start=s, query_end=e, hit_id=profile,
                                hit_description=f"{profile} description", bitscore=score, evalue=evalue)
                for profile, s, e, score, evalue in hits]
        results.append(SimpleNamespace(id=gene, hsps=hsps))
    return results


class CallerFault(Exception):
    """ a caller did not produce the annotations it was asked for (count, gene, coordinates) """


def domain_annotations(caller, features, expected, record):
    """ [(caller, cds, s, e, location or exception, stored translation)] for domain-like features, after checking that
        the caller produced exactly the requested (gene, s, e) in order """
    got = [(f.locus_tag, int(f.protein_location.start), int(f.protein_location.end)) for f in features]
    if got != expected:
        raise CallerFault(f"{CALLERS[caller]}: produced {got}, requested {expected}")
    return [(caller, record.get_cds_by_name(f.locus_tag), int(f.protein_location.start), int(f.protein_location.end),
             f.location, f.translation) for f in features]


def drive_hmmer(rng, record):
    """ build_hits / run_hmmer and the three result classes that turn hits into features """
    from unittest import mock
    from antismash.common import hmmer, pfamdb
    from antismash.detection.tigrfam.tigr_results import TIGRFamResults
    from antismash.modules.rrefinder import rrefinder
    for database, mapping in FAKE_DBS.items():
        pfamdb.KNOWN_MAPPINGS[database] = dict(mapping)
    hits_by_gene = gen_hits(rng, record)
    kept = [(gene, s, e) for gene, hits in hits_by_gene.items() for _p, s, e, score, evalue in hits
            if score > 10. and evalue < 1.]
    out = []
    # full_hmmer / cluster_hmmer: build_hits, then HmmerResults.add_to_record
    hits = hmmer.build_hits(record, fake_hmmscan(hits_by_gene), 10., 1., FAKE_DB)
    results = hmmer.HmmerResults(record.id, 1., 10., FAKE_DB, "fullhmmer", hits)
    before = len(record.get_pfam_domains())
    results.add_to_record(record)
    out += domain_annotations("build_hits", record.get_pfam_domains()[before:], kept, record)

    def run(database, tool, **kwargs):
        with mock.patch.object(hmmer.os.path, "exists", return_value=True), \
                mock.patch.object(hmmer.subprocessing, "run_hmmscan", return_value=fake_hmmscan(hits_by_gene)):
            return hmmer.run_hmmer(record, record.get_cds_features(), 1., 10., database, tool,
                                   filter_overlapping=False, **kwargs)
    # tigrfam: run_hmmer as the module calls it, then TIGRFamResults.add_to_record
    tigr = TIGRFamResults.from_hmmer_results(run(FAKE_TIGR, "tigrfam"))
    tigr.add_to_record(record)
    new = [f for f in record.get_antismash_domains() if f.domain_id.startswith("TIGRFam_")]
    out += domain_annotations("run_hmmer", sorted(new, key=lambda f: int(f.domain_id.rsplit("_", 1)[1])), kept, record)
    # rrefinder: run_hmmer as run_rrefinder calls it, extract_rre_hits, filter_hits, RREFinderResults
    by_cds = rrefinder.extract_rre_hits(run(FAKE_RRE, "rrefinder", use_cut_tc=False))
    by_cds, by_proto = rrefinder.filter_hits(by_cds, {1: list(by_cds)}, 1, 10.)
    rre = rrefinder.RREFinderResults(record.id, 10., 1, by_proto, by_cds)
    out += domain_annotations("rrefinder", rre.features, [(h.locus_tag, h.protein_start, h.protein_end)
                                                          for hs in by_cds.values() for h in hs], record)
    if sorted((h.locus_tag, h.protein_start, h.protein_end) for hs in by_cds.values() for h in hs) != sorted(kept):
        raise CallerFault(f"{CALLERS['rrefinder']}: hits kept differ from the hits requested")
    return out


def drive_nrps(rng, record):
    from antismash.common.hmmscan_refinement import HMMResult
    from antismash.detection.nrps_pks_domains import domain_identification as di
    out = []
    pool = []
    for cds in record.get_cds_features():
        total = len(cds.translation)
        ranges = []
        for _ in range(rng.choice([1, 2, 3])):
            if pool and rng.random() < 0.5 and pool[-1][1] <= total:
                ranges.append(pool[-1])
            else:
                s = rng.randint(0, total - 1)
                ranges.append((s, rng.randint(s + 1, total)))
                pool.append(ranges[-1])
        names = ["PKS_KS", "PKS_AT", "Condensation_LCL", "AMP-binding", "PCP", "Thioesterase"]
        domains = [HMMResult(rng.choice(names), s, e, 1e-10, 40. + i) for i, (s, e) in enumerate(ranges)]
        made = di.generate_domain_features(cds, domains)
        feats = [made[d] for d in domains]
        out += domain_annotations("nrps_domains", feats, [(cds.get_name(), s, e) for s, e in ranges], record)
        motifs = [HMMResult(f"motif{i}", s, e, 1e-5, 20.) for i, (s, e) in enumerate(ranges)]
        feats = di.generate_motif_features(cds, motifs)
        out += domain_annotations("nrps_motifs", feats, [(cds.get_name(), s, e) for s, e in ranges], record)
    return out


def drive_ripps(rng, record):
    """ the four RiPP modules' converters from a prediction to a Prepeptide -> [(caller, cds, prepeptide, ll, tl)] """
    from types import SimpleNamespace
    from unittest import mock
    from importlib import import_module
    lanthi, thio, lasso, sacti = [import_module(f"antismash.modules.{name}.specific_analysis")
                                  for name in ("lanthipeptides", "thiopeptides", "lassopeptides", "sactipeptides")]
    out = []
    for cds in record.get_cds_features():
        text = cds.translation
        total = len(text)
        if total < 3:
            continue
        caller = rng.choice(["lanthi", "thio", "lasso", "sacti"])
        ll = rng.randint(1, total - 1)
        tl = rng.choice([0, rng.randint(0, total - 1 - ll)])
        common_kw = dict(score=10., monoisotopic_mass=1., molecular_weight=2., alternative_weights=[3.], rodeo_score=5)
        if caller == "lanthi":
            tl = 0
            vec = SimpleNamespace(leader=text[:ll], core=text[ll:], lantype="Class I", number_of_lan_bridges=1,
                                  aminovinyl_group=False, chlorinated=False, oxygenated=False, lactonated=False, **common_kw)
            pre = lanthi.result_vec_to_feature(cds, vec)
        elif caller == "thio":
            vec = SimpleNamespace(leader=text[:ll], core=text[ll:], c_cut=text[total - tl:] if tl else "", thio_type="Type I",
                                  mature_alt_weights=[1.], amidation=False, macrocycle="26-member", mature_features="",
                                  **common_kw)
            pre = thio.result_vec_to_feature(cds, vec)
        elif caller == "lasso":
            vec = SimpleNamespace(leader=text[:ll], core=text[ll:], c_cut=text[total - tl:] if tl else "", lasso_class="Class II",
                                  number_bridges=0, macrolactam="", cut_mass=1., cut_weight=1., **common_kw)
            pre = lasso.result_vec_to_motif(cds, vec)
        else:
            tl = 0
            ll = total // 4
            with mock.patch.object(sacti, "run_rodeo", return_value=(True, 20)), \
                    mock.patch.object(sacti, "MIN_PRECURSOR_LENGTH", 1), mock.patch.object(sacti, "MAX_PRECURSOR_LENGTH", 10000):
                pre = sacti.determine_precursor_peptide_candidate(None, cds, text, {})
            if ll == 0:     # an empty leader: no leader feature is written
                pass
        if (pre.leader, pre.core, pre.tail) != (text[:ll], text[ll:total - tl], text[total - tl:] if tl else ""):
            raise CallerFault(f"{CALLERS[caller]}: sections {pre.leader!r} {pre.core!r} {pre.tail!r} of {text!r} [{ll}, -{tl}]")
        out.append((caller, cds, pre, ll, tl))
    return out


def drive_tta(record):
    """ tta.detect over a region that holds every gene -> [(cds, offset, marker location)] in the order of the calls,
        plus the offsets an independent scan of each gene's extracted sequence expects """
    from types import SimpleNamespace
    from antismash.common.secmet.features import SubRegion
    from antismash.common.secmet.locations import FeatureLocation
    from antismash.modules.tta import tta
    record.add_subregion(SubRegion(FeatureLocation(0, len(record.seq), 1), tool="verif"))
    record.create_candidate_clusters()
    record.create_regions()
    calls = []
    original = tta.TTAResults.new_feature_from_other

    def recording(self, feature, offset):
        made = original(self, feature, offset)
        calls.append((feature, offset, made.location))
        return made
    tta.TTAResults.new_feature_from_other = recording
    try:
        results = tta.detect(record, SimpleNamespace(tta_threshold=0.0))
    finally:
        tta.TTAResults.new_feature_from_other = original
    expected = []
    for cds in record.get_cds_features_within_regions():
        text = str(cds.location.extract(record.seq)).upper()
        expected += [(cds.get_name(), i) for i in range(0, len(text), 3) if text[i:i + 3] == "TTA"]
    got = [(feature.get_name(), offset) for feature, offset, _loc in calls]
    if got != expected or len(results.features) != len(calls):
        raise CallerFault(f"{CALLERS['tta_detect']}: marked {got}, the genes contain TTA codons at {expected}")
    return calls


def record_doc(spec):
    return {"length": spec["n"], "circular": spec["circular"], "sequence": "".join(BASES[b] for b in spec["bases"]),
            "genes": [{"name": g["name"], "location": fmt_parts(g["parts"]), "codon_start": g["cs"] if g["cs"] >= 1 else None}
                      for g in spec["genes"]]}


def gene_obj(cds, spec):
    parts = stored_parts(cds)
    spanning = any(b[0] < a[0] for a, b in zip(*( (parts, parts[1:]) if parts[0][2] != -1 else (parts[::-1], parts[::-1][1:]))))
    return Gene(parts, spec["n"], "spanning" if spanning else "plain", sum(e - s for s, e, _ in parts))


def translation_agrees(record, cds, s, e, location, stored):
    """ the observation point of the property on the real objects: extract + translate of the annotation's location is
        residues [s,e) of the gene (the stored first residue is M whatever the start codon) and the translation stored
        with the annotation is that stretch """
    expected = cds.translation[s:e]
    got = str(location.extract(record.seq).translate(table=11))
    if s == 0:
        got, expected = got[1:], expected[1:]
    return got == expected and (stored is None or stored == cds.translation[s:e])


def caller_cases(rng, table, count):
    """ -> list of (fn, args, gene, origin, impl_out) """
    cases = []
    for _ in range(count):
        spec = gen_record(rng, table)
        with_tta = rng.random() < 0.3
        if with_tta:
            plant_tta(rng, spec, table)
        plant_stops(rng, spec)
        doc = record_doc(spec)
        annotations = []
        try:
            try:
                record = build_record(spec)
            except Exception as fault:  # pylint: disable=broad-except
                # every generated gene is well formed: a CDS that cannot be loaded is a failure of the property
                raise CallerFault(f"CDSFeature.from_biopython: a gene of the record cannot be loaded "
                                  f"({type(fault).__name__}: {fault})") from fault
            annotations += drive_hmmer(rng, record)
            annotations += drive_nrps(rng, record)
            ripps = drive_ripps(rng, record)
            markers = drive_tta(record) if with_tta else []
        except Exception as fault:  # pylint: disable=broad-except
            # the harness' own oracle (requested vs produced annotations, TTA codons of the extracted gene) gives a verdict
            # on a concrete record: counterexample; any other exception: the caller could not be driven
            kind = "counterexample" if isinstance(fault, CallerFault) else "broken-correspondence"
            cases.append((0, None, None, {"fault": f"{type(fault).__name__}: {fault}", "record": doc, "kind": kind}, None))
            continue
        for caller, cds, s, e, location, stored in annotations:
            origin = {"caller": CALLERS[caller], "gene": cds.get_name(), "record": doc,
                      "annotation": {"protein_start": s, "protein_end": e, "location": str(location), "translation": stored},
                      "translation_agrees": translation_agrees(record, cds, s, e, location, stored)}
            cases.append((2, (stored_parts(cds), False, False, s, e), gene_obj(cds, spec), origin, [0] + enc_pyloc(location)))
        for caller, cds, pre, ll, tl in ripps:
            origin = {"caller": CALLERS[caller], "gene": cds.get_name(), "record": doc,
                      "annotation": {"leader": pre.leader, "core": pre.core, "tail": pre.tail}}

            def sections(pre=pre):
                feats = pre.to_biopython()
                out = [len(feats)]
                for feat in feats:
                    out += enc_pyloc(feat.location)
                return out
            # the gene's location holds the stop codon beyond the translation the sections are cut from: slack 1
            slack = len(cds.location) // 3 - len(pre.leader + pre.core + pre.tail)
            origin["annotation"]["codons_of_the_location_beyond_the_sections"] = slack
            fn, args = section_args(4, stored_parts(cds), len(cds.location) // 3, ll, tl, slack)
            cases.append((fn, args, gene_obj(cds, spec), origin, result(sections)))
            cases.append((fn + 5, args, gene_obj(cds, spec), dict(origin), impl_reread(pre)))
        for cds, offset, location in markers:
            origin = {"caller": CALLERS["tta_detect"], "gene": cds.get_name(), "record": doc,
                      "annotation": {"offset": offset, "location": str(location)}}
            cases.append((5, (stored_parts(cds), offset), gene_obj(cds, spec), origin, [0] + enc_pyloc(location)))
    return cases


def impl_reread(pre):
    """ Prepeptide.to_biopython -> Prepeptide.from_biopython (what reusing results from a GenBank file does), then
        the sections of the re-read prepeptide """
    from antismash.common.secmet.features import Prepeptide
    try:
        core = [feat for feat in pre.to_biopython() if feat.qualifiers["prepeptide"] == ["core"]][0]
        again = Prepeptide.from_biopython(core)
    except Exception as exc:  # pylint: disable=broad-except
        return [1, err_code(exc)]
    if (again.leader, again.core, again.tail) != (pre.leader, pre.core, pre.tail):
        return [1, 98]

    def sections():
        feats = again.to_biopython()
        out = [len(feats)]
        for feat in feats:
            out += enc_pyloc(feat.location)
        return out
    return [0] + enc_pyloc(again.location) + result(sections)


# ---------------------------------------------------------------- the run

RULE = ("genes of 1-4 exons (introns 0-5 bases, exons cut anywhere incl. inside codons), either strand (10%: strand 0/None), "
        "records of 12-120 bases, 22% spanning the origin (also with an exon cut by the origin), 15% with 1-2 surplus bases, "
        "4% malformed (shuffled / overlapping / mixed-strand exons), partial (<, >) ends; protein ranges drawn with weight on "
        "exon borders, whole gene, first/last residue and on the rejection paths; codon_start 0-4; leader/tail lengths 0..total+1; "
        "TTA offsets at every codon; CDS loading: the same genes as Bio SeqFeatures with /codon_start 2/3 (67%), 1, absent, "
        "0/4, on a random record sequence (85% with the reading frame made stop-free), loaded by CDSFeature.from_biopython "
        "and by Record.from_biopython (Biopython location classes, circular topology for origin-spanning genes), observed: "
        "gene location, stored translation, _original_codon_start, one sub-location, the location and qualifier written out "
        "by to_biopython / Record.to_biopython, and the gene read back from the written record. Functions: convert_protein_position_to_dna, Feature.get_sub_location_from_protein_coordinates, "
        "from_biopython(codon_start)+sub-location+to_biopython, Prepeptide.to_biopython, TTAResults.new_feature_from_other, "
        "CDSFeature.from_biopython / Record.from_biopython load path, "
        "location.extract (the model's extraction assumption). Every implementation output is also judged by the decidable "
        "specification in Gallina (inside the gene, 3 bases per residue, reads exactly coordinates 3s..3e of the gene's reading "
        "order) and, for sub-locations, by extract+translate on a random sequence with Biopython. "
        "Prepeptide round trip (fn 9): Prepeptide.to_biopython -> Prepeptide.from_biopython (build_location_from_others) -> "
        "to_biopython on the same genes, section boundaries inside exons and (30%) on exon borders; build_location_from_others "
        "alone on 1-4 adjoining / separate, simple / compound locations in either order (fn 20). "
        "Prepeptide sections (fn 4 / 9 and, with slack, fn 24 / 29): the slack = codons of the location beyond leader + core + "
        "tail is drawn from {0, 1, 1, 2} (1 = the location ends with the stop codon, as the RiPP modules build prepeptides), "
        "core of at least one residue; judged by the relaxed specification (every section exact, the last one may hold the "
        "trailing codons: a failure is a counterexample) and the strict one (a failure with slack > 0 is the finding class "
        "prepeptide_last_section_holds_stop_codon); in the records driven through the callers half of the genes end with a "
        "stop codon, so that the RiPP converters hand Prepeptide a location one codon longer than the sections. "
        "CALLERS: 450 (quick) / 6000 (thorough) generated records of 2-5 neighbouring genes (both strands, 1-4 exons, introns 0-5, "
        "/codon_start 1-3 or absent, 25% circular with the last gene over the origin, frames stop-free), hits drawn from a pool of "
        "protein ranges shared by the genes of a record (identical [s,e) in different genes, also for different profiles), 10% of "
        "the hits below the score / above the evalue threshold; driven: hmmer.build_hits + HmmerResults.add_to_record (PFAMDomain), "
        "hmmer.run_hmmer with injected hmmscan results + TIGRFamResults.add_to_record, run_hmmer + rrefinder.extract_rre_hits / "
        "filter_hits / RREFinderResults (RREDomain), nrps_pks_domains.generate_domain_features / generate_motif_features, the four "
        "RiPP converters (lanthi/thio/lasso result_vec_to_*, sacti determine_precursor_peptide_candidate with run_rodeo stubbed) + "
        "Prepeptide.to_biopython + the round trip, tta.detect on records with planted TTA codons (30% of the records); every "
        "annotation produced is one case (its gene, its protein range, the location the caller handed out, the stored translation). "
        "non-trivial = compound gene or reverse strand; distinct by flat encoding")


def known_classes():
    return {f.get("class"): f for f in common.load_known_findings("C09") if f.get("status") == "known"}


def gen_case(rng, table):
    """ -> (fn, args, gene) """
    r = rng.random()
    if r < 0.07:
        return gen_load_case(rng, 7, table)
    if r < 0.14:
        return gen_load_case(rng, 8, table)
    if r < 0.24:
        gene = gen_gene(rng)
        s, e = gen_range(rng, gene)
        return 1, (s, e, gene.parts), gene
    if 0.55 <= r < 0.61:
        while True:
            gene = gen_gene(rng)
            if feature_ok(gene.parts):
                break
        return section_args(9, gene.parts, gene.codons, *gen_sections(rng, gene)) + (gene,)
    if 0.61 <= r < 0.62:
        return gen_blo_case(rng)
    if r < 0.55:
        while True:
            gene = gen_gene(rng)
            if feature_ok(gene.parts):
                break
        s, e = gen_range(rng, gene)
        end_after = start_before = False
        if rng.random() < 0.08:
            end_after, start_before = rng.choice([(True, False), (False, True), (True, True)])
            if rng.random() < 0.7:
                s, e = rng.randint(0, max(0, gene.codons - 1)), gene.codons + rng.randint(1, 2)
        return 2, (gene.parts, end_after, start_before, s, e), gene
    if r < 0.72:
        while True:
            gene = gen_gene(rng)
            if feature_ok(gene.parts):
                break
        cs = rng.choice([1, 2, 3, 1, 2, 3, 2, 3, 0, 4])
        # ranges are drawn for the gene as it is; the shortened gene may reject the last residue
        s, e = gen_range(rng, gene)
        return 3, (gene.parts, cs, s, e), gene
    if r < 0.82:
        while True:
            gene = gen_gene(rng)
            if feature_ok(gene.parts):
                break
        return section_args(4, gene.parts, gene.codons, *gen_sections(rng, gene)) + (gene,)
    if r < 0.92:
        while True:
            gene = gen_gene(rng)
            if feature_ok(gene.parts):
                break
        if gene.codons and rng.random() < 0.9:
            off = 3 * rng.randrange(gene.codons)
        else:
            off = rng.randint(-1, gene.length + 3)
        return 5, (gene.parts, off), gene
    gene = gen_gene(rng)
    bases = [rng.randrange(4) for _ in range(gene.n)]
    return 6, (gene.parts, bases), gene


def gen_sections(rng, gene):
    """ leader and tail lengths and the slack (codons of the location beyond leader + core + tail; 1 = the location ends
        with the stop codon, as the RiPP modules build prepeptides): mostly valid, with weight on section boundaries that
        fall on exon borders (with slack the core | tail boundary is drawn on a border as often as the end of the tail) """
    total = gene.codons
    slack = rng.choice([0, 1, 1, 2])
    ll = rng.choice([0, 0, 1, rng.randint(0, total + 1)])
    tl = rng.choice([0, 0, 1, rng.randint(0, total + 1)])
    borders = exon_border_residues(gene)
    if borders and rng.random() < 0.3:
        ll = rng.choice(borders)
        if rng.random() < 0.5:
            tl = total - rng.choice(borders) - rng.choice([0, slack])
    if rng.random() < 0.8 and total >= 1:
        slack = min(slack, total - 1)
        ll = min(ll, total - 1 - slack)
        tl = max(0, min(tl, total - 1 - slack - ll))
    return ll, max(0, tl), slack


def gen_blo_case(rng):
    """ build_location_from_others on 1-4 locations: adjoining or apart, simple or compound, either order """
    strand = rng.choice([1, -1, 1, -1, 0, 2])
    locs = []
    pos = rng.randint(0, 10)
    for _ in range(rng.choice([1, 2, 2, 3, 3, 4])):
        parts = []
        for _ in range(rng.choice([1, 1, 2, 3])):
            size = rng.randint(1, 9)
            parts.append((pos, pos + size, strand if rng.random() < 0.95 else -strand if strand in (1, -1) else 1))
            pos += size + rng.choice([0, 1, 2, 5])
        if rng.random() < 0.5:
            pos = parts[-1][1]      # the next location adjoins
        if rng.random() < 0.4:
            parts.reverse()
        locs.append(parts)
    if rng.random() < 0.4:
        locs.reverse()
    flat = [p for parts in locs for p in parts]
    return 20, (locs,), Gene(flat, pos + 1, "locations", sum(e - s for s, e, _ in flat))


def shifted_gene(gene, off):
    """ the gene as it is stored after the codon_start adjustment (first listed exon shortened at its 5' end) """
    if off == 0:
        return gene
    s, e, st = gene.parts[0]
    first = (s, e - off, st) if st == -1 else (s + off, e, st)
    if first[0] >= first[1]:
        return gene
    return Gene([first] + gene.parts[1:], gene.n, gene.kind, gene.length - off)


def remove_stops(gene, off, bases, table):
    """ rewrites the record so that the reading frame starting at base `off` of the gene has no stop codon """
    coords = []
    for s, e, st in gene.parts:
        coords += [(i, st) for i in (range(e - 1, s - 1, -1) if st == -1 else range(s, e))]
    coords = coords[off:]
    for k in range(0, len(coords) - 2, 3):
        read = [3 - bases[i] if st == -1 else bases[i] for i, st in coords[k:k + 3]]
        if table[16 * read[0] + 4 * read[1] + read[2]] == ord("*"):
            i, st = coords[k]
            bases[i] = 2 if st == -1 else 1     # read as C: CAA, CAG, CGA are not stop codons


def gen_load_case(rng, fn, table):
    """ a CDS as it appears in an input record: location, /codon_start (mostly 2 or 3), record sequence """
    while True:
        gene = gen_gene(rng, allow_malformed=(fn == 7))
        if fn == 8 and (gene.strand not in (1, -1) or gene.length < 3):
            continue
        if feature_ok(gene.parts):
            break
    cs = rng.choice([2, 3, 2, 3, 2, 3, 1, -1, rng.choice([0, 4, 1, -1])])
    off = cs - 1 if 1 <= cs <= 3 else 0
    bases = [rng.randrange(4) for _ in range(gene.n)]
    if gene.kind != "malformed" and rng.random() < 0.85:
        remove_stops(gene, off, bases, table)
    s, e = gen_range(rng, shifted_gene(gene, off))
    return fn, (gene.parts, cs, bases, table, s, e, gene.kind == "spanning"), gene


def describe(flat):
    return {"function": FN_NAMES.get(flat[1], flat[1] if flat[1] < 10 else f"specification of fn {flat[1] - 10}"),
            "flat_payload": flat[2:]}


def fmt_parts(parts):
    sign = {1: "+", -1: "-", 0: "?", 2: ""}
    body = ", ".join(f"[{s}:{e}]({sign[st]})" for s, e, st in parts)
    return body if len(parts) == 1 else "join{" + body + "}"


def corpus():
    """ witnesses of the recorded findings (known ones, and as regression cases the repaired ones) and of the
        boundary the property text names """
    span_fwd = [(90, 102, 1), (0, 21, 1)]
    span_rev = [(0, 21, -1), (90, 102, -1)]
    multi = [(0, 4, 1), (10, 15, 1)]
    multi_rev = [(10, 15, -1), (0, 4, -1)]
    slip = [(32, 43, 1), (42, 45, 1)]
    stop = [(0, 33, 1)]     # 11 codons: LEAD + CORE + TL and the stop codon
    return [
        # regression, finding prepeptide_tail_boundary_shifted_by_stop_codon (fixed): the core was [12:27] (15 bases for 4
        # residues), the tail [27:33]; what is left (known, prepeptide_last_section_holds_stop_codon): the tail [24:33]
        # holds the stop codon; without a tail the core does
        (24, (stop, 4, 2, 1), Gene(stop, 40, "plain", 33)),
        (29, (stop, 4, 2, 1), Gene(stop, 40, "plain", 33)),
        (24, (stop, 4, 0, 1), Gene(stop, 40, "plain", 33)),
        (24, ([(40, 52, -1), (20, 32, -1)], 0, 3, 1), Gene([(40, 52, -1), (20, 32, -1)], 60, "plain", 24)),
        (2, (span_fwd, False, False, 0, 2), Gene(span_fwd, 102, "spanning", 33)),
        (2, (span_rev, False, False, 0, 2), Gene(span_rev, 102, "spanning", 33)),
        (2, (span_fwd, False, False, 3, 8), Gene(span_fwd, 102, "spanning", 33)),
        # regression, finding tta_multi_exon (fixed): offset 6 was marked at [6:9], in the intron
        (5, (multi, 6), Gene(multi, 30, "plain", 9)),
        (5, (multi_rev, 0), Gene(multi_rev, 30, "plain", 9)),
        (5, (multi_rev, 6), Gene(multi_rev, 30, "plain", 9)),
        # finding tta_codon_split_by_intron (known): offset 3 = coordinates 3, 10, 11
        (5, (multi, 3), Gene(multi, 30, "plain", 9)),
        # regression, finding origin_spanning_codon_start (fixed): AssertionError before the repair
        (3, (span_fwd, 2, 0, 2), Gene(span_fwd, 102, "spanning", 33)),
        (3, (span_rev, 3, 0, 2), Gene(span_rev, 102, "spanning", 33)),
        (4, (span_fwd, 2, 2), Gene(span_fwd, 102, "spanning", 33)),
        (2, (slip, False, False, 3, 4), Gene(slip, 60, "malformed", 14)),
    ] + load_corpus()


def load_corpus():
    """ 5'-partial genes (codon_start 2 / 3): forward single exon, forward two exons split inside a codon, reverse
        single exon, reverse two exons; and an origin-spanning gene with codon_start 1 and 2 (the latter: regression
        case of the repaired finding origin_spanning_codon_start), also on the reverse strand with codon_start 3 """
    import random
    rng = random.Random(99)
    table = codon_table()
    genes = [([(0, 35, 1)], 3), ([(45, 59, 1), (71, 91, 1)], 2), ([(101, 135, -1)], 2),
             ([(30, 50, -1), (4, 20, -1)], 3), ([(130, 140, 1), (0, 21, 1)], 1), ([(130, 140, 1), (0, 21, 1)], 2),
             ([(0, 21, -1), (130, 140, -1)], 3)]
    out = []
    for fn in (7, 8):
        for parts, cs in genes:
            length = sum(e - s for s, e, _ in parts)
            spanning = 130 in (parts[0][0], parts[-1][0])
            gene = Gene(parts, 140, "spanning" if spanning else "plain", length)
            bases = [rng.randrange(4) for _ in range(140)]
            remove_stops(gene, cs - 1, bases, table)
            out.append((fn, (parts, cs, bases, table, 1, 4, spanning), gene))
    return out


def judge_load(chk, i, fn, args, gene, verdict, out, report):
    """ verdict of the Gallina specification on a loaded CDS: [0, location, translation, sub-location, written,
        range applicable, gene class] or [1, error, gene class] """
    parts, cs, _bases, _table, s, e, _circular = args
    shown = [cs, s, e]
    if len(verdict) not in (3, 7):
        chk.violation("broken-correspondence", "specification function did not decode its input",
                      {"theorem_or_correspondence": "spec encoding", "function": FN_NAMES[fn], "implementation": out})
        return
    cls = verdict[-1]
    if cls in (2, 3) or cs not in (-1, 1, 2, 3):
        chk.count("spec_no_verdict(out of range or malformed gene)")
        return
    off = max(0, cs - 1)
    first_len = parts[0][1] - parts[0][0]
    guard = cls == 0
    if verdict[0] == 1:
        if cls == 1 and off and len(parts) > 1 and verdict[1] == common.ERR["AssertionError"]:
            chk.count(f"spec_fn{fn}_outside_guard_adjustment_FAILS")
            report(i, fn, parts, shown, False, CLASS_CODON, "C09_codon_start_origin",
                   ": the CDS cannot be loaded (AssertionError in the codon_start adjustment)")
        elif first_len > off and gene.length - off >= 3 and gene.strand in (1, -1):
            chk.count(f"spec_fn{fn}_{'guard' if guard else 'outside_guard'}_load_FAILS")
            report(i, fn, parts, shown, guard, None, "C09_cds_load",
                   f": the CDS cannot be loaded ({common.ERR_NAME.get(verdict[1], verdict[1])})")
        else:
            chk.count("spec_no_verdict(first exon not longer than the codon_start offset, or gene shorter than a codon)")
        return
    if first_len <= off:
        chk.count("spec_no_verdict(first exon not longer than the codon_start offset, or gene shorter than a codon)")
        return
    _zero, ok_loc, ok_tr, ok_sub, ok_out, in_range, _cls = verdict
    where = "guard" if guard else "outside_guard"
    clauses = [(ok_loc, ": the gene's location does not read the annotated location from base codon_start-1 on"),
               (ok_tr, ": the stored translation is not the translation of the gene's location"),
               (ok_out, ": the location / codon_start written out differ from the annotated ones "
                        "(or the gene read back differs)")]
    good = all(ok for ok, _ in clauses)
    chk.count(f"spec_fn{fn}_{where}_load_{'ok' if good else 'FAILS'}")
    for ok, text in clauses:
        if not ok:
            report(i, fn, parts, shown, guard, None, "C09_cds_load", text)
            return
    if not in_range:
        chk.count("spec_no_verdict(residue range outside the stored translation)")
        return
    chk.count(f"spec_fn{fn}_{where}_sub_{'ok' if ok_sub else 'FAILS'}")
    if not ok_sub:
        report(i, fn, parts, shown, guard, CLASS_SPANNING if cls == 1 else None, "C09_codon_start",
               ": the sub-location does not cover the nucleotides that encode the residues of the stored translation")


def judge_reread(chk, i, args, gene, verdict, report):
    """ verdict of the Gallina specification on a re-read prepeptide: [0, location reads the gene's coding bases,
        sections of the re-read prepeptide satisfy the specification, location identical, gene class] or [1, error, class] """
    parts, ll, tl = args
    shown = [ll, tl]
    if len(verdict) not in (3, 5):
        chk.violation("broken-correspondence", "specification function did not decode its input",
                      {"theorem_or_correspondence": "spec encoding", "function": FN_NAMES[9]})
        return
    cls = verdict[-1]
    if cls == 2 or not (0 <= ll and 0 <= tl and ll + tl < gene.codons):
        chk.count("spec_no_verdict(out of range or malformed gene)")
        return
    guard = cls == 0
    finding = CLASS_SPANNING if cls == 1 else (CLASS_OVERLAP if cls == 3 else None)
    where = "guard" if guard else "outside_guard"
    theorem = "C09_prepeptide_reread"
    if verdict[0] == 1:
        chk.count(f"spec_fn9_{where}_FAILS")
        report(i, 9, parts, shown, guard, finding, theorem,
               f": the prepeptide cannot be written and read back ({common.ERR_NAME.get(verdict[1], verdict[1])})")
        return
    _zero, ok_loc, ok_again, same, _cls = verdict
    chk.count(f"spec_fn9_{where}_{'ok' if ok_loc and ok_again else 'FAILS'}")
    if ok_loc:
        chk.count("reread_location_identical" if same else "reread_location_equivalent(same bases in the same order, other parts)")
    if not ok_loc:
        report(i, 9, parts, shown, guard, finding, theorem,
               ": the location of the re-read prepeptide does not read the gene's coding bases in order")
    elif not ok_again:
        report(i, 9, parts, shown, guard, finding, theorem,
               ": leader/core/tail computed from the re-read prepeptide do not cover the nucleotides that encode them")


def judge_slack(chk, i, fn, args, gene, verdict, report):
    """ verdicts of the Gallina specifications on a prepeptide whose location holds `slack` codons beyond its sections.
        fn 24: [strict, relaxed, gene class]; fn 29: [0, re-read location reads the gene's coding bases, strict and relaxed
        specification of the sections of the re-read prepeptide, location identical, gene class] or [1, error, class].
        The RELAXED specification (every section exact, the last one may also hold the trailing codons) failing is a
        failure of the property; only the STRICT one failing with slack > 0 is the finding class CLASS_LAST """
    parts, ll, tl, slack = args
    shown = [ll, tl, slack]
    if len(verdict) != (3 if fn == 24 else (3 if verdict[:1] == [1] else 6)):
        chk.violation("broken-correspondence", "specification function did not decode its input",
                      {"theorem_or_correspondence": "spec encoding", "function": FN_NAMES[fn]})
        return
    cls = verdict[-1]
    if cls == 2 or not (0 <= ll and 0 <= tl and 0 <= slack and ll + tl + slack < gene.codons):
        chk.count("spec_no_verdict(out of range or malformed gene)")
        return
    guard = cls == 0
    finding = CLASS_SPANNING if cls == 1 else (CLASS_OVERLAP if cls == 3 else None)
    where = "guard" if guard else "outside_guard"
    theorem = "C09_prepeptide_slack" if fn == 24 else "C09_prepeptide_reread (with slack)"
    if fn == 29:
        if verdict[0] == 1:
            chk.count(f"spec_fn29_{where}_FAILS")
            report(i, fn, parts, shown, guard, finding, theorem,
                   f": the prepeptide cannot be written and read back ({common.ERR_NAME.get(verdict[1], verdict[1])})")
            return
        _zero, ok_loc, strict, relaxed, same, _cls = verdict
        if ok_loc:
            chk.count("reread_location_identical" if same else "reread_location_equivalent(same bases in the same order, other parts)")
        else:
            chk.count(f"spec_fn29_{where}_FAILS")
            report(i, fn, parts, shown, guard, finding, theorem,
                   ": the location of the re-read prepeptide does not read the gene's coding bases in order")
            return
    else:
        strict, relaxed, _cls = verdict
    chk.count(f"spec_fn{fn}_{where}_{'ok' if relaxed else 'FAILS'}")
    if not relaxed:
        report(i, fn, parts, shown, guard, finding, theorem,
               ": leader/core/tail do not cover the nucleotides that encode them (a section other than the last one is "
               "not exact, or the last one does not start at its first residue)")
    elif not strict:
        chk.count(f"spec_fn{fn}_strict_FAILS(last section holds the trailing codons)")
        # never inside a proved guard of the STRICT statement: C09_prepeptide_last_section_refuted
        report(i, fn, parts, shown, False, CLASS_LAST if slack > 0 else None, "C09_prepeptide_last_section_refuted",
               ": the last section also holds the codons of the location beyond leader + core + tail")
    else:
        chk.count(f"spec_fn{fn}_strict_ok")


def run(chk):
    if not chk.build_and_audit():
        return chk.finish(RULE)
    # antismash asserts on a warning while it is imported: import first, silence Biopython afterwards
    import antismash.common.secmet.features  # noqa: F401  pylint: disable=unused-import,import-outside-toplevel
    import antismash.modules.tta.tta  # noqa: F401  pylint: disable=unused-import,import-outside-toplevel
    warnings.simplefilter("ignore")
    total = 60000 if chk.tier == "quick" else 900000
    known = known_classes()
    cases, impl_outs, meta = [], [], []
    fixed = corpus()
    table = codon_table()
    n_records = 450 if chk.tier == "quick" else 6000
    from_callers = []
    for item in caller_cases(__import__("random").Random(chk.seed + 11), table, n_records):
        if item[0] == 0:    # a caller raised, or did not produce the annotations it was asked for
            chk.count("caller_fault")
            if chk.histogram["caller_fault"] <= 3:
                chk.violation(item[3]["kind"], "a caller of get_sub_location_from_protein_coordinates did not produce the "
                              "annotations asked for on a generated record: " + item[3]["fault"],
                              {"theorem_or_correspondence": "callers driven on generated records", "input": item[3]})
            continue
        from_callers.append(item)
    chk.extra["records_driven_through_the_callers"] = n_records
    for i in range(total + len(from_callers)):
        origin = None
        if i >= total:
            fn, args, gene, origin, out = from_callers[i - total]
        else:
            fn, args, gene = fixed[i] if i < len(fixed) else gen_case(chk.rng, table)
            out = impl(fn, args)
        flat = [PROP, fn] + encode(fn, args)
        cases.append(flat)
        impl_outs.append(out)
        meta.append((fn, args, gene, origin))
        if origin:
            chk.count("caller: " + origin["caller"])
        chk.count(FN_NAMES[fn])
        chk.count(f"gene_{gene.kind}")
        chk.count(f"exons_{len(gene.parts)}")
        chk.count(f"strand_{gene.strand}")
        if out[:1] == [1] and fn != 6:
            chk.count("error_" + common.ERR_NAME.get(out[1], str(out[1])))
        if fn == 2 and (args[1] or args[2]):
            chk.count("partial_end_flags")
        if fn in (7, 8):
            chk.count(f"load_codon_start_{args[1] if args[1] >= 0 else 'absent'}")
        if fn in (24, 29):
            chk.count(f"prepeptide_slack_{args[3] if -1 <= args[3] <= 2 else 'other'}" + ("_from_a_caller" if origin else ""))
        chk.note_case(flat, len(gene.parts) > 1 or gene.strand == -1,
                      {"function": FN_NAMES[fn], "gene": fmt_parts(gene.parts), "record_length": gene.n,
                       "args": [a for a in args if not isinstance(a, list)],
                       "implementation": out if fn != 6 else "..."})
    model_outs = common.correspondence(chk, cases, impl_outs, spec_fn_offset=None, describe=describe)

    # ---- the specification evaluated on every implementation output (fn 2, 3, 4, 5)
    judged = [i for i, (fn, _a, _g, _o) in enumerate(meta) if fn in (2, 4, 5, 7, 8, 9, 24, 29)]
    spec_cases = [[PROP, cases[i][1] + SPEC_OFFSET] + cases[i][2:] + impl_outs[i] for i in judged]
    # fn 3: class of the original gene, and the sub-location judged against the ADJUSTED gene
    cs_cases = []
    for i, (fn, args, gene, _origin) in enumerate(meta):
        if fn != 3:
            continue
        parts, cs, s, e = args
        out = impl_outs[i]
        judged.append(i)
        spec_cases.append([PROP, 12] + enc_parts(parts) + [0, 0, 0, 1, 1, 1])     # only the class is read
        if out[0] == 0:
            k = out[1]
            adjusted = out[1:2 + 3 * k]
            sub_res = out[2 + 3 * k:]
            sub_len = 2 if sub_res[0] == 1 else 2 + 3 * sub_res[1]
            cs_cases.append((i, adjusted, sub_res[:sub_len], sub_res[sub_len:]))
    cs_spec = [[PROP, 12] + adj + [0, 0, meta[i][1][2], meta[i][1][3]] + sub for i, adj, sub, _r in cs_cases]
    verdicts = common.run_driver(spec_cases)
    cs_verdicts = {c[0]: (v, c) for c, v in zip(cs_cases, common.run_driver(cs_spec))}
    seq_rng = __import__("random").Random(chk.seed + 7)
    reported = set()
    pending = []     # counterexamples; those inside the proved guard and the smallest first

    def report(i, fn, parts, shown_args, guard, finding, theorem, clause=""):
        origin = meta[i][3]
        name = FN_NAMES[fn] if not origin else f"{origin['caller']} (judged as {FN_NAMES[fn]})"
        replay = {"theorem_or_correspondence": theorem, "function": name, "flat": cases[i],
                  "input": {"gene": fmt_parts(parts), "args": shown_args, "record_length": meta[i][2].n},
                  "implementation": impl_outs[i], "model": model_outs[i], "spec_ok": False, "guard": guard,
                  "finding_class": finding, "failed_clause": clause}
        if origin:
            replay["input"].update({k: origin[k] for k in ("caller", "gene", "record", "annotation")})
            replay["input"]["gene_location"] = fmt_parts(parts)
        if guard or finding is None:
            where = "inside the proved guard" if guard else "outside every recorded finding class"
            pending.append((0, len(cases[i]), f"{name}: output violates the property {where}{clause} "
                            f"({fmt_parts(parts)}, args {shown_args})", replay))
        elif finding in known and impl_outs[i] == model_outs[i]:
            if finding not in reported:
                reported.add(finding)
                chk.known(f"class={finding} {WHAT[finding]}; e.g. {fmt_parts(parts)} args {shown_args}")
        else:
            why = ("not recorded as known in known_findings.json" if finding not in known else
                   "recorded as known, but the implementation no longer behaves like the faithful model there")
            pending.append((1, len(cases[i]), f"{name}: output violates the property (class {finding}, {why})",
                            replay))

    for i, verdict in zip(judged, verdicts):
        fn, args, gene, origin = meta[i]
        if fn in (7, 8):
            judge_load(chk, i, fn, args, gene, verdict, impl_outs[i], report)
            continue
        if fn == 9:
            judge_reread(chk, i, args, gene, verdict, report)
            continue
        if fn in (24, 29):
            judge_slack(chk, i, fn, args, gene, verdict, report)
            continue
        if len(verdict) != (3 if fn == 5 else 2):
            chk.violation("broken-correspondence", "specification function did not decode its input",
                          {"theorem_or_correspondence": "spec encoding", "flat": cases[i]})
            break
        ok, cls = verdict[:2]
        if cls == 3 and fn not in (2, 4):
            cls = 2     # overlapping exons: verdicts only for the sub-location functions
        total_res = gene.codons
        shown_args = [a for a in args if not isinstance(a, list)]
        if fn == 3:
            parts, cs, s, e = args
            out = impl_outs[i]
            if cls in (2, 3) or not 1 <= cs <= 3:
                chk.count("spec_no_verdict(out of range or malformed gene)")
                continue
            if out[0] == 1:
                if cls == 1 and out[1] == common.ERR["AssertionError"]:
                    # the repaired finding origin_spanning_codon_start: no longer suppressed
                    chk.count("spec_fn3_outside_guard_adjustment_FAILS")
                    report(i, fn, parts, shown_args, False, CLASS_CODON, "C09_codon_start_origin",
                           ": the codon_start adjustment raises AssertionError")
                else:
                    chk.count("spec_no_verdict(first exon shorter than the codon_start offset)")
                continue
            (sub_verdict, (_i, adjusted, sub_res, restored)) = cs_verdicts[i]
            # either class: to_biopython restores the annotated location, and (first exon longer than the offset) the
            # adjusted location is the annotated one with its first listed exon shortened at the 5' end
            good = restored == [0] + enc_parts(parts)
            if parts[0][1] - parts[0][0] > cs - 1 and gene.strand in (1, -1):
                good = good and adjusted == enc_parts(shifted_gene(gene, cs - 1).parts)
            chk.count(f"spec_fn3_{'guard' if cls == 0 else 'outside_guard'}_restore_{'ok' if good else 'FAILS'}")
            if not good:
                report(i, fn, parts, shown_args, cls == 0, None if cls == 0 else CLASS_CODON,
                       "C09_codon_start_restored" if cls == 0 else "C09_codon_start_origin",
                       ": the adjusted location is not the annotated one read from base codon_start-1 on, or "
                       "to_biopython does not restore the annotated location")
                continue
            adj_len = sum(adjusted[2 + 3 * j] - adjusted[1 + 3 * j] for j in range(adjusted[0]))
            if len(sub_verdict) == 2 and sub_verdict[1] in (0, 1) and 0 <= s < e <= adj_len // 3:
                sub_ok, sub_cls = sub_verdict
                chk.count(f"spec_fn3_sub_{'guard' if sub_cls == 0 else 'outside_guard'}_{'ok' if sub_ok else 'FAILS'}")
                if not sub_ok:
                    report(i, fn, parts, shown_args, sub_cls == 0, CLASS_SPANNING if sub_cls == 1 else None, "C09_subloc")
            continue
        if fn == 2:
            parts, end_after, start_before, s, e = args
            in_range = 0 <= s < e <= total_res
            finding = CLASS_SPANNING if cls == 1 else (CLASS_OVERLAP if cls == 3 else None)
            theorem = "C09_subloc"
        elif fn == 4:
            parts, ll, tl = args
            in_range = ll + tl < total_res
            finding = CLASS_SPANNING if cls == 1 else (CLASS_OVERLAP if cls == 3 else None)
            theorem = "C09_prepeptide_partition"
        else:
            parts, off = args
            split = bool(verdict[2])
            # TTA markers are only made for CDS features, whose strand is 1 or -1 (CDSFeature refuses others); on a gene
            # of several exons the offset is a codon's (tta.detect passes multiples of 3; others are floored to one)
            in_range = (0 <= off and off + 3 <= gene.length and gene.strand in (1, -1)
                        and (len(parts) == 1 or off % 3 == 0))
            # an origin-spanning gene: the offset goes through convert_protein_position_to_dna (finding of that class);
            # a codon that an intron splits: no marker of one part covers it
            finding = CLASS_SPANNING if cls == 1 else (CLASS_TTA_SPLIT if split else None)
            theorem = "C09_tta" if len(parts) == 1 else "C09_tta_multi_exon"
        if cls == 2 or not in_range:
            chk.count("spec_no_verdict(out of range or malformed gene)")
            continue
        guard = (cls == 0) if fn != 5 else (cls == 0 and not split)
        if fn == 5 and not guard:
            chk.count(f"spec_fn5_class_{finding}")
        chk.count(f"spec_fn{fn}_{'guard' if guard else 'outside_guard'}_{'ok' if ok else 'FAILS'}")
        if fn == 2:
            py_ok = python_property(parts, s, e, impl_outs[i], gene.n, seq_rng)
            if ok and not py_ok:
                chk.violation("broken-correspondence", "Gallina specification accepts an output that Biopython "
                              "extract/translate rejects (extraction model wrong)",
                              {"theorem_or_correspondence": "C09 extraction assumption", "flat": cases[i],
                               "implementation": impl_outs[i], "input": describe(cases[i])})
                break
            if py_ok and not ok:
                chk.count("coincidental_sequence_match")
            if origin and ok and not origin["translation_agrees"]:
                chk.count("caller_translation_FAILS")
                report(i, fn, parts, shown_args, guard, finding, theorem,
                       ": the location is right but extract+translate on the record, or the translation stored with "
                       "the annotation, is not that stretch of the gene's translation")
                continue
        if not ok:
            report(i, fn, parts, shown_args, guard, finding, theorem)
    pending.sort(key=lambda item: item[:2])
    chk.extra["spec_failures_outside_recorded_findings"] = len(pending)
    for _prio, _size, what, replay_doc in pending[:20]:
        chk.violation("counterexample", what, replay_doc)
    chk.crosscheck_vm(cases, model_outs)
    return chk.finish(RULE, trusted_extra=[
        "Biopython location semantics (start=min, end=max, strand=common or None, int membership half-open, "
        "extract = parts in listed order, reverse-complemented per part on strand -1) are assumptions of the model, "
        "re-checked on every run (fn 6 and the extract+translate evaluation of every sub-location)",
        "Biopython Seq.translate (table 11, to_stop) is modelled as codon-by-codon lookup in the 64-entry table read from "
        "Bio.Data.CodonTable on every run, over unambiguous ungapped bases; compared with the real translation of every "
        "loaded CDS (fn 7, 8)"])


def replay(chk, path):
    doc = json.load(open(path))
    flat = doc["flat"]
    model = common.run_driver([flat])[0]
    print("model:", model, "recorded implementation:", doc.get("implementation"))
    if flat[1] in (7, 8) and doc.get("implementation"):
        print("specification verdict [0, location, translation, sub-location, written, range applicable, class] "
              "(or [1, error, class]) on the recorded implementation output:",
              common.run_driver([[flat[0], flat[1] + SPEC_OFFSET] + flat[2:] + doc["implementation"]])[0])
    if flat[1] in (2, 4, 5) and doc.get("implementation"):
        print("specification verdict [ok, class] on the recorded implementation output:",
              common.run_driver([[flat[0], flat[1] + SPEC_OFFSET] + flat[2:] + doc["implementation"]])[0])
    if flat[1] == 24 and doc.get("implementation"):
        print("specification verdict [strict (every section exact), relaxed (the last section may hold the trailing codons), "
              "class] on the recorded implementation output:",
              common.run_driver([[flat[0], 34] + flat[2:] + doc["implementation"]])[0])
    if flat[1] == 29 and doc.get("implementation"):
        print("specification verdict [0, re-read location reads the gene's coding bases, strict / relaxed specification of "
              "the sections of the re-read prepeptide, location identical, class] (or [1, error, class]) on the recorded "
              "implementation output:", common.run_driver([[flat[0], 39] + flat[2:] + doc["implementation"]])[0])
    if flat[1] == 9 and doc.get("implementation"):
        print("specification verdict [0, re-read location reads the gene's coding bases, sections of the re-read prepeptide ok, "
              "location identical, class] (or [1, error, class]) on the recorded implementation output:",
              common.run_driver([[flat[0], 19] + flat[2:] + doc["implementation"]])[0])
    if (doc.get("input") or {}).get("caller"):
        print("produced by:", doc["input"]["caller"], "for", doc["input"]["gene"], "of the record in the replay file "
              "(input.record: sequence, genes); annotation:", doc["input"]["annotation"])
    return 0
