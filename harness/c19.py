"""C19: correspondence for the region overview layout data (area_packing.pack, build_area_rows,
js.convert_regions) and evaluation of the decidable specification on every implementation output."""
import json
import re

import common
from common import err_code

PROP = 19
KIND_CODE = {"protocluster": 0, "candidatecluster": 1, "subregion": 2}
FN_NAME = {1: "pack", 2: "build_area_rows", 3: "js.convert_regions"}

# finding classes of this property: none is open.  candidate_end_unshifted (F34), core_side_heuristic (F44),
# area_assert_cross_origin (F34b), gene_across_region_gap (F45) and gene_long_way_round (C19-K3) were repaired in
# the code: nothing is suppressed, a failing case of these classes is a VIOLATION, their witnesses are in the
# regression corpus (corpus_scenes).


# ---------------------------------------------------------------- encoding

def strand_code(strand):
    return 2 if strand is None else int(strand)


def enc_loc(location):
    out = [len(location.parts)]
    for part in location.parts:
        out += [int(part.start), int(part.end), strand_code(part.strand)]
    return out


def enc_feat(fid, kind, location, core, single, prod):
    out = [fid, kind] + enc_loc(location)
    out += [0] if core is None else [1] + enc_loc(core)
    out += [int(single), prod]
    return out


def product_number(area):
    product = area.get("product", "")
    if not product:
        return 0
    if area["kind"] == "candidatecluster":
        return int(re.match(r"CC (-?\d+):", product).group(1))
    return int(product[1:])


def tool_number(tool):
    """ every protocluster and sub-region of a scene has its own tool string t<identity> """
    return int(tool[1:]) if tool else 0


AREA_WIDTH = 9    # integers per encoded area


def enc_areas(areas):
    """ canonical form of the JSON list: missing neighbouring_* filled in from start/end, group ids
        numbered by first appearance """
    groups = {}
    out = [len(areas)]
    for area in areas:
        group = area.get("group", 0)
        if group:
            group = groups.setdefault(group, len(groups) + 1)
        out += [KIND_CODE[area["kind"]], int(area["start"]), int(area["end"]),
                int(area.get("neighbouring_start", area["start"])), int(area.get("neighbouring_end", area["end"])),
                int(area["height"]), group, product_number(area), tool_number(area.get("tool", ""))]
    return out


def enc_orfs(orfs):
    groups = {}
    out = [len(orfs)]
    for orf in orfs:
        group = orf.get("group", 0)
        if group:
            group = groups.setdefault(group, len(groups) + 1)
        out += [int(orf["start"]), int(orf["end"]), int(orf["strand"]), group]
    return out


# ---------------------------------------------------------------- building real objects

class Scene:
    """ secmet objects of one generated layout """
    def __init__(self, length, circular):
        self.length = length
        self.circular = circular
        self.protos = []
        self.subs = []
        self.genes = []
        self.dense = False
        self.twins = []          # kinds of coinciding features generated for this scene
        self.proto_coords = []   # (core, extent, product) in unrolled coordinates, one per protocluster
        self.sub_extents = []
        self._next_identity = 0

    def tool(self):
        """ a fresh tool string: the identity of the object, carried by Area.tool into the output """
        self._next_identity += 1
        return f"t{self._next_identity}"


def secmet():
    from antismash.common.secmet.locations import FeatureLocation, CompoundLocation
    return FeatureLocation, CompoundLocation


def mkloc(start, end, length, strand=1):
    """ unrolled [start, end) -> location on a ring of the given length (end - start <= length) """
    FL, CL = secmet()
    s = start % length
    e = (end - 1) % length + 1
    if start // length == (end - 1) // length:
        return FL(s, e, strand)
    parts = [FL(s, length, strand), FL(0, e, strand)]
    if strand == -1:
        parts.reverse()
    return CL(parts)


def make_candidate_class():
    from antismash.common.secmet.features import CandidateCluster

    class Cand(CandidateCluster):
        """ numbering without a parent record """
        number = -1

        def get_candidate_cluster_number(self):
            try:
                return super().get_candidate_cluster_number()
            except ValueError:
                return self.number
    return Cand


class Gen:
    def __init__(self, rng):
        self.rng = rng
        self.Cand = make_candidate_class()
        self.order = "as_generated"

    def extent(self, base, width, min_len=1, max_len=None):
        rng = self.rng
        max_len = max(min_len, min(max_len or width, width))
        size = rng.randint(min_len, max_len)
        start = base + rng.randint(0, width - size)
        return start, start + size

    def scene(self):
        from antismash.common.secmet.features import Protocluster, SubRegion
        from antismash.common.secmet.test.helpers import DummyCDS
        rng = self.rng
        length = rng.choice([30, 60, 100, 100, 300, 1000])
        circular = rng.random() < 0.8
        scene = Scene(length, circular)
        shape = rng.random()
        if not circular:
            base, width = 0, length
            if rng.random() < 0.6:
                width = rng.randint(max(4, length // 4), length)
                base = rng.randint(0, length - width)
        elif shape < 0.3:     # whole record, any offset
            base, width = rng.randrange(length), length
        elif shape < 0.75:    # window over the origin
            width = rng.randint(max(4, length // 4), length - 1)
            base = rng.randint(length - width + 1, length - 1) if width > 1 else length - 1
        else:                 # window anywhere
            width = rng.randint(max(4, length // 4), length)
            base = rng.randrange(length)
        for i in range(rng.choice([1, 1, 2, 2, 3, 3, 4, 5])):
            start, end = self.extent(base, width, 2, rng.choice([width, width, max(2, width // 2), max(2, width // 3)]))
            r = rng.random()
            if r < 0.15:
                cstart, cend = start, end
            elif r < 0.3:
                cstart, cend = self.extent(start, end - start, 1, max(1, (end - start) // 4))
            else:
                cstart, cend = self.extent(start, end - start, 1)
            product = f"p{rng.randint(1, 6) if rng.random() < 0.3 else i + 10:04d}"
            self.add_proto(scene, (cstart, cend), (start, end), product)
        self.add_proto_twins(scene, base, width)
        # dense flavour: many short sub-regions, so that a row holds several occupants when an
        # origin-crossing one arrives (Row.can_fit has to look at every occupant, not at one of them)
        dense = circular and shape < 0.75 and rng.random() < 0.25
        scene.dense = dense
        n_subs = rng.choice([3, 4, 5, 6, 7]) if dense else rng.choice([0, 0, 0, 1, 1, 2, 3])
        for i in range(n_subs):
            if dense and rng.random() < 0.8:
                start, end = self.extent(base, width, 1, max(1, width // rng.choice([5, 8, 12])))
            else:
                start, end = self.extent(base, width, 1)
            label = "" if rng.random() < 0.15 else f"s{i + 1}"
            scene.subs.append(SubRegion(mkloc(start, end, length), tool=scene.tool(), label=label))
            scene.sub_extents.append((start, end))
        self.add_sub_twins(scene)
        for i in range(rng.choice([0, 1, 2, 3, 5])):
            start, end = self.extent(base, width, 1, max(1, width // 3))
            strand = rng.choice([1, 1, -1])
            location = mkloc(start, end, length, strand)
            if rng.random() < 0.2 and end - start >= 4 and len(location.parts) == 1:
                FL, CL = secmet()
                s, e = int(location.start), int(location.end)
                mid = rng.randint(s + 1, e - 2)
                parts = [FL(s, mid, strand), FL(mid + 1, e, strand)]
                if strand == -1:
                    parts.reverse()
                if rng.random() < 0.15:
                    # exons listed against the direction of the strand: location_bridges_origin is True, the gene
                    # runs the long way round the ring (repaired finding gene_long_way_round in an ordinary region,
                    # gene_across_region_gap in an origin-crossing one)
                    parts.reverse()
                location = CL(parts)
            elif rng.random() < 0.3 and len(location.parts) == 2:
                # a third exon for an origin-crossing gene, before its first or after its last exon (in the
                # direction of the strand); it may land on the far side of the gap that an origin-crossing
                # region leaves on the ring (repaired finding gene_across_region_gap)
                FL, CL = secmet()
                parts = sorted(location.parts, key=lambda part: -int(part.start))   # [s, N) then [0, e)
                tail_end, head_start = int(parts[1].end), int(parts[0].start)
                if head_start - tail_end >= 3:
                    a = rng.randint(tail_end + 1, head_start - 2)
                    b = rng.randint(a + 1, head_start - 1)
                    extra = FL(a, b, strand)
                    parts = [extra] + parts if rng.random() < 0.5 else parts + [extra]
                    if strand == -1:
                        parts.reverse()
                    location = CL(parts)
            scene.genes.append(DummyCDS(location=location, locus_tag=f"g{i}"))
        return scene

    def add_proto(self, scene, core, extent, product, sideloaded=False):
        """ a protocluster with its own identity (tool string); unrolled coordinates are remembered for the twins """
        from antismash.common.secmet.features import Protocluster
        from antismash.common.secmet.features.protocluster import SideloadedProtocluster
        length = scene.length
        tool = scene.tool()
        try:
            if sideloaded:
                proto = SideloadedProtocluster(mkloc(core[0], core[1], length), mkloc(extent[0], extent[1], length),
                                               tool, product, neighbourhood_range=1)
            else:
                proto = Protocluster(mkloc(core[0], core[1], length), mkloc(extent[0], extent[1], length), tool=tool,
                                     product=product, cutoff=1, neighbourhood_range=1, detection_rule="r")
        except Exception:  # pylint: disable=broad-except
            return None
        scene.protos.append(proto)
        scene.proto_coords.append((core, extent, product))
        return proto

    def add_proto_twins(self, scene, base, width):
        """ protoclusters that coincide with an existing one in some attributes and differ in others: the layout
            code must tell OBJECTS apart, not (extent, product) pairs or the like """
        rng = self.rng
        if not scene.proto_coords or rng.random() >= 0.4:
            return
        flavours = ["same_extent_product_other_core", "same_extent_other_product", "same_core_other_extent",
                    "identical_but_identity", "same_extent_product_other_core", "clipped_to_window",
                    "same_start_other_end"]
        for _ in range(rng.choice([1, 1, 1, 2, 3])):
            core, extent, product = rng.choice(scene.proto_coords)
            flavour = rng.choice(flavours)
            other_product = f"p{rng.randint(1, 30):04d}"
            sideloaded = rng.random() < 0.2
            if flavour == "same_extent_product_other_core":
                new_core = self.extent(extent[0], extent[1] - extent[0], 1)
                done = self.add_proto(scene, new_core, extent, product, sideloaded)
            elif flavour == "same_extent_other_product":
                new_core = core if rng.random() < 0.5 else self.extent(extent[0], extent[1] - extent[0], 1)
                done = self.add_proto(scene, new_core, extent, other_product, sideloaded)
            elif flavour == "same_core_other_extent":
                # the extent grows or shrinks around the core, inside the window of the scene
                start = rng.randint(base, core[0])
                end = rng.randint(core[1], base + width)
                done = self.add_proto(scene, core, (start, end), product if rng.random() < 0.5 else other_product,
                                      sideloaded)
            elif flavour == "identical_but_identity":
                done = self.add_proto(scene, core, extent, product, sideloaded)
            elif flavour == "same_start_other_end":
                end = rng.randint(core[1], base + width)
                done = self.add_proto(scene, core, (extent[0], end), product, sideloaded)
            else:
                # both neighbourhoods clipped to the ends of the window (a short contig, or a whole ring):
                # two protoclusters of one product far apart share the extent
                extent = (base, base + width)    # also the whole ring at an offset, [s,N)+[0,s)
                span = extent[1] - extent[0]
                first = self.extent(extent[0], max(1, span // 3), 1)
                second = self.extent(extent[1] - max(1, span // 3), max(1, span // 3), 1)
                done = self.add_proto(scene, first, extent, product, False)
                done = self.add_proto(scene, second, extent, product, sideloaded) and done
            if done:
                scene.twins.append(flavour)

    def add_sub_twins(self, scene):
        """ sub-regions over the stretch of another sub-region or of a protocluster """
        from antismash.common.secmet.features import SubRegion
        rng = self.rng
        if rng.random() >= 0.25:
            return
        pool = list(scene.sub_extents) + [extent for _, extent, _ in scene.proto_coords]
        if not pool:
            return
        for _ in range(rng.choice([1, 1, 2])):
            start, end = rng.choice(pool)
            labels = [sub.label for sub in scene.subs if sub.label]
            label = rng.choice(labels) if labels and rng.random() < 0.5 else f"s{len(scene.subs) + 1}"
            scene.subs.append(SubRegion(mkloc(start, end, scene.length), tool=scene.tool(), label=label))
            scene.sub_extents.append((start, end))
            scene.twins.append("sub_same_extent")

    def direct_regions(self, scene):
        """ candidate clusters from arbitrary groups of the protoclusters, one region over everything """
        from antismash.common.secmet.features import Region
        from antismash.common.secmet.features.candidate_cluster import CandidateClusterKind
        rng = self.rng
        cands = []
        if scene.protos:
            wrap = scene.length if scene.circular else None
            for number in range(1, rng.choice([1, 1, 2, 2, 3]) + 1):
                group = [p for p in scene.protos if rng.random() < 0.6] or [rng.choice(scene.protos)]
                if rng.random() < 0.2:
                    rng.shuffle(group)
                kind = CandidateClusterKind.SINGLE if len(group) == 1 else \
                    rng.choice([CandidateClusterKind.INTERLEAVED, CandidateClusterKind.NEIGHBOURING,
                                CandidateClusterKind.CHEMICAL_HYBRID])
                cand = self.Cand(kind, group, circular_wrap_point=wrap)
                cand.number = number
                cands.append(cand)
            if rng.random() < 0.25:
                # a second candidate cluster over the protoclusters of an existing one (same extent, same or
                # different kind): two candidate OBJECTS that agree in everything the layout looks at
                twin = rng.choice(cands)
                group = list(twin.protoclusters)
                kind = twin.kind if rng.random() < 0.5 or len(group) == 1 else \
                    rng.choice([CandidateClusterKind.INTERLEAVED, CandidateClusterKind.NEIGHBOURING,
                                CandidateClusterKind.CHEMICAL_HYBRID])
                cand = self.Cand(kind, group, circular_wrap_point=wrap)
                cand.number = len(cands) + 1
                cands.append(cand)
                scene.twins.append("candidate_same_protoclusters")
        subs = list(scene.subs)
        # the Region constructor keeps the order of its children, and pack() places them in that order:
        # as generated, shuffled, in plain start order (an origin-crossing area then comes AFTER the areas
        # that lie behind the origin, which is the only way Row.can_fit meets an origin-crossing area with
        # several occupants already in the row - seed C19-seed3), or in the order of Feature.__lt__
        order = rng.random()
        if order < 0.25:
            self.order = "as_generated"
        elif order < 0.45:
            self.order = "shuffled"
            rng.shuffle(subs)
            rng.shuffle(cands)
        elif order < 0.8:
            self.order = "plain_start"
            subs.sort(key=lambda f: int(f.start))
            cands.sort(key=lambda f: int(f.start))
        else:
            self.order = "feature_lt"
            subs.sort()
            cands.sort()
        return [Region(cands, subs)]


def corpus_scenes(gen):
    """ regression corpus for fn2/fn3: the witnesses of the repaired defects core_side_heuristic (F44:
        origin-crossing protocluster whose core lies before / after the origin, in an origin-crossing and in
        a whole-record region) and candidate_end_unshifted (F34: origin-crossing candidate cluster whose core
        does not cross the origin, unsplit and split), gene_long_way_round (C19-K3), gene_across_region_gap (F45, both
        shapes) and area_assert_cross_origin (F34b: areas covering the whole ring at an offset, in the origin-crossing
        and in the whole-record region).  Returns [(scene, [region])] """
    from antismash.common.secmet.features import Protocluster, SubRegion, Region
    from antismash.common.secmet.features.candidate_cluster import CandidateClusterKind

    def proto(scene, core, extent, length, product):
        return Protocluster(mkloc(core[0], core[1], length), mkloc(extent[0], extent[1], length), tool=scene.tool(),
                            product=product, cutoff=1, neighbourhood_range=1, detection_rule="r")

    layouts = [
        # F44: core before the origin with core_start + core_end <= N (was shifted by N)
        (1000, [((200, 300), (100, 1050))], False),
        # F44 mirror: core after the origin with core_start + core_end > N (was left unshifted)
        (1000, [((1600, 1700), (900, 1800))], False),
        # F44 in a whole-record region (split): the core must stay on its own half
        (1000, [((200, 300), (100, 1050))], True),
        (1000, [((1600, 1700), (900, 1800))], True),
        # F34 (known_findings.json witness): interleaved candidate [160,300)+[0,56) with core [197,292)
        (300, [((197, 261), (160, 356)), ((207, 221), (201, 281)), ((268, 280), (255, 292))], False),
        # F34 in a whole-record region (split: was a half with start = end = 0)
        (300, [((197, 261), (160, 356)), ((207, 221), (201, 281)), ((268, 280), (255, 292))], True),
        (1000, [((400, 700), (100, 1050)), ((450, 600), (420, 800))], False),
    ]
    out = []
    # gene_long_way_round (C19-K3): region [69,75) on a ring of 100, gene join{[72:73](+), [69:71](+)}
    from antismash.common.secmet.test.helpers import DummyCDS
    FL, CL = secmet()
    scene = Scene(100, True)
    scene.subs = [SubRegion(FL(69, 75, 1), tool=scene.tool(), label="s1")]
    scene.genes = [DummyCDS(location=CL([FL(72, 73, 1), FL(69, 71, 1)]), locus_tag="g0")]
    out.append((scene, [Region([], list(scene.subs))]))
    # gene_across_region_gap (F45): region [10,30)+[0,9) on a ring of 30, gene join{[7:9](+), [10:11](+)}
    scene = Scene(30, True)
    scene.subs = [SubRegion(mkloc(10, 39, 30), tool=scene.tool(), label="s1")]
    scene.genes = [DummyCDS(location=CL([FL(7, 9, 1), FL(10, 11, 1)]), locus_tag="g0")]
    out.append((scene, [Region([], list(scene.subs))]))
    # gene_across_region_gap, second shape: an origin-crossing gene with a further exon on the far side of the gap
    # (region [900,1000)+[0,30) on a ring of 1000), next to ordinary genes on both sides of the origin
    scene = Scene(1000, True)
    scene.subs = [SubRegion(mkloc(900, 1030, 1000), tool=scene.tool(), label="s1")]
    scene.genes = [DummyCDS(location=CL([FL(10, 20, 1), FL(950, 1000, 1), FL(0, 5, 1)]), locus_tag="g0"),
                   DummyCDS(location=CL([FL(990, 1000, 1), FL(0, 5, 1)]), locus_tag="g1"),
                   DummyCDS(location=FL(3, 9, -1), locus_tag="g2"), DummyCDS(location=FL(905, 909, 1), locus_tag="g3"),
                   DummyCDS(location=CL([FL(5, 6, 1), FL(2, 4, 1)]), locus_tag="g4")]
    out.append((scene, [Region([], list(scene.subs))]))
    # area_assert_cross_origin (F34b): sub-region [40,100)+[0,40) on a ring of 100 (start == end), as the whole of an
    # origin-crossing region, and inside the whole-record region [0,100)
    scene = Scene(100, True)
    scene.subs = [SubRegion(mkloc(40, 140, 100), tool=scene.tool(), label="s1")]
    scene.genes = [DummyCDS(location=FL(3, 9, -1), locus_tag="g0")]
    out.append((scene, [Region([], list(scene.subs))]))
    scene = Scene(100, True)
    scene.subs = [SubRegion(mkloc(40, 140, 100), tool=scene.tool(), label="s1"),
                  SubRegion(mkloc(0, 100, 100), tool=scene.tool(), label="s2")]
    out.append((scene, [Region([], list(scene.subs))]))
    # F34b: protoclusters over the whole ring at an offset - core before the origin, core after it, core crossing it,
    # and a core that is itself the whole ring (core_start == core_end) - in a candidate cluster of the same extent
    scene = Scene(100, True)
    scene.protos = [proto(scene, core, (40, 140), 100, f"p{i + 10:04d}")
                    for i, core in enumerate([(50, 60), (110, 120), (90, 115), (40, 140)])]
    cand = gen.Cand(CandidateClusterKind.INTERLEAVED, list(scene.protos), circular_wrap_point=100)
    cand.number = 1
    out.append((scene, [Region([cand], [])]))
    for length, protos, whole in layouts:
        scene = Scene(length, True)
        scene.protos = [proto(scene, core, extent, length, f"p{i + 10:04d}") for i, (core, extent) in enumerate(protos)]
        if whole:
            scene.subs = [SubRegion(mkloc(0, length, length), tool=scene.tool(), label="s1")]
        kind = CandidateClusterKind.SINGLE if len(scene.protos) == 1 else CandidateClusterKind.INTERLEAVED
        cand = gen.Cand(kind, list(scene.protos), circular_wrap_point=length)
        cand.number = 1
        out.append((scene, [Region([cand], list(scene.subs))]))

    # coinciding objects (seeds C19-seed5 / C19-seed6): (length, circular, [(core, extent, product)], sub-region extents)
    twins = [
        # a short linear contig: two protoclusters of one product, both neighbourhoods clipped to the contig ends
        (12000, False, [((1000, 2000), (0, 12000), "p0005"), ((9000, 10000), (0, 12000), "p0005"),
                        ((4000, 7000), (3000, 8000), "p0009")], []),
        # an origin-spanning pair over the same stretch, same product, different cores (origin-crossing region)
        (1000, True, [((950, 1020), (900, 1100), "p0003"), ((1030, 1060), (900, 1100), "p0003")], []),
        # a whole-record region: two origin-spanning protoclusters of different products with the same extent,
        # a third one with its own extent, one that stays clear of the origin; sub-regions bridging the rest
        (1000, True, [((920, 960), (900, 1100), "p0003"), ((980, 1040), (900, 1100), "p0004"),
                      ((1120, 1170), (850, 1200), "p0005"), ((400, 600), (300, 700), "p0006")],
         [(150, 350), (650, 1050)]),
        # the same with two sub-regions over one origin-spanning stretch and identical twins
        (1000, True, [((920, 960), (900, 1100), "p0003"), ((920, 960), (900, 1100), "p0003")],
         [(0, 1000), (650, 1050), (650, 1050)]),
    ]
    for length, circular, protos, subs in twins:
        scene = Scene(length, circular)
        scene.protos = [proto(scene, core, extent, length, product) for core, extent, product in protos]
        scene.subs = [SubRegion(mkloc(start, end, length), tool=scene.tool(), label=f"s{i + 1}")
                      for i, (start, end) in enumerate(subs)]
        wrap = length if circular else None
        cands = []
        for single in scene.protos:
            cands.append(gen.Cand(CandidateClusterKind.SINGLE, [single], circular_wrap_point=wrap))
        cands.append(gen.Cand(CandidateClusterKind.NEIGHBOURING, list(scene.protos), circular_wrap_point=wrap))
        for number, cand in enumerate(cands):
            cand.number = number + 1
        scene.twins.append("corpus")
        out.append((scene, [Region(cands, list(scene.subs))]))
    return out


def crossing_meets_occupied_row(region):
    """ True if, while packing the sub-regions or the drawn candidate clusters in the order of the region, an
        origin-crossing area is offered to a row that already holds at least two areas (the situation in which
        Row.can_fit has to test the newcomer against every occupant) """
    from antismash.outputs.html.area_packing import Row
    groups = [list(region.subregions),
              [c for c in region.candidate_clusters if region.subregions or str(c.kind) != "single"]]
    for areas in groups:
        rows = [Row()]
        for area in areas:
            for row in rows:
                if area.crosses_origin() and len(row.contents) >= 2 and row.end == -1:
                    return True
                try:
                    if row.can_fit(area):
                        row.add(area)
                        break
                except Exception:  # pylint: disable=broad-except
                    return False
            else:
                rows.append(Row())
                try:
                    rows[-1].add(area)
                except Exception:  # pylint: disable=broad-except
                    return False
    return False


def count_coincidences(chk, region, shape):
    """ distribution of the coinciding objects that reach build_area_rows through the accessors of the Region """
    protos = protocluster_set_order(region)
    members = [proto for cand in region.candidate_clusters for proto in cand.protoclusters]
    if len(members) > len(protos):
        chk.count("region_with_protocluster_shared_by_candidates")
    seen = {"extent_product": set(), "extent": set(), "core": set(), "all": set()}
    found = set()
    for proto in protos:
        keys = {"extent_product": (str(proto.location), proto.product), "extent": str(proto.location),
                "core": str(proto.core_location),
                "all": (str(proto.location), str(proto.core_location), proto.product)}
        for name, key in keys.items():
            if key in seen[name]:
                found.add(name)
            seen[name].add(key)
    for name in found:
        chk.count(f"region_with_distinct_protoclusters_same_{name}")
        if name == "extent" and any(p.crosses_origin() for p in protos):
            chk.count(f"region_{shape}_with_distinct_protoclusters_same_extent_some_origin_crossing")
    for name, features in (("subregions", region.subregions), ("candidates", region.candidate_clusters)):
        extents = [str(f.location) for f in features]
        if len(set(extents)) < len(extents):
            chk.count(f"region_with_distinct_{name}_same_extent")


def protocluster_set_order(region):
    """ the iteration order of the set built by Region.get_unique_protoclusters """
    clusters = set()
    for candidate in region.candidate_clusters:
        clusters.update(candidate.protoclusters)
    return list(clusters)


def is_strict_weak_order(items):
    """ Python's sort result is determined by the comparison only if it is a strict weak order """
    n = len(items)
    lt = [[items[i] < items[j] for j in range(n)] for i in range(n)]
    for i in range(n):
        if lt[i][i]:
            return False
        for j in range(n):
            if lt[i][j] and lt[j][i]:
                return False
            for k in range(n):
                if lt[i][j] and lt[j][k] and not lt[i][k]:
                    return False
                if not lt[i][j] and not lt[j][i] and not lt[j][k] and not lt[k][j] and (lt[i][k] or lt[k][i]):
                    return False
    return True


def well_formed(location):
    """ one part, or two forward parts [s, N) + [0, e) with e <= s """
    if len(location.parts) == 1:
        return True
    first, second = location.parts
    return len(location.parts) == 2 and second.start == 0 and second.end <= first.start


def enc_region_payload(region, length, circular, chk=None):
    """ N circular region_loc subs cands members order; None if the case lies outside the modelled domain.
        Everything is read from the Region through its public accessors: subregions, candidate_clusters and
        candidate.protoclusters (members: the protoclusters of every candidate cluster, a shared one several times;
        the model de-duplicates by identity = number of the tool string); order: the identities in the iteration
        order of the set that get_unique_protoclusters builds """
    protos = protocluster_set_order(region)
    for feature in list(protos) + list(region.subregions) + list(region.candidate_clusters) + [region]:
        if not well_formed(feature.location):
            return None, "feature_overlapping_wrap"
    if not region.crosses_origin() and not is_strict_weak_order(protos):
        return None, "sort_not_weak_order"
    out = [length, int(circular)] + enc_loc(region.location)
    out.append(len(region.subregions))
    identities = [tool_number(feature.tool) for feature in list(region.subregions) + protos]
    if len(set(identities)) != len(identities) or 0 in identities:
        raise AssertionError("harness: tool strings do not identify the objects")
    for sub in region.subregions:
        out += enc_feat(tool_number(sub.tool), 2, sub.location, None, False, int(sub.label[1:]) if sub.label else 0)
    out.append(len(region.candidate_clusters))
    for i, cand in enumerate(region.candidate_clusters):
        try:
            core = cand.core_location
        except Exception:  # pylint: disable=broad-except
            return None, "candidate_core_raises"
        out += enc_feat(i, 1, cand.location, core, str(cand.kind) == "single", cand.get_candidate_cluster_number())
    members = [proto for cand in region.candidate_clusters for proto in cand.protoclusters]
    out.append(len(members))
    for proto in members:
        out += enc_feat(tool_number(proto.tool), 0, proto.location, proto.core_location, False, int(proto.product[1:]))
    out.append(len(protos))
    out += [tool_number(proto.tool) for proto in protos]
    return out, None


def describe_region(region, length, circular, genes=None):
    doc = {"record_length": length, "circular": circular, "region": str(region.location),
           "subregions": [{"identity": s.tool, "location": str(s.location)} for s in region.subregions],
           "candidates": [{"number": c.get_candidate_cluster_number(), "location": str(c.location), "kind": str(c.kind),
                           "protoclusters": [p.tool for p in c.protoclusters]} for c in region.candidate_clusters],
           "protoclusters": [{"identity": p.tool, "product": p.product, "location": str(p.location),
                              "core": str(p.core_location)} for p in protocluster_set_order(region)]}
    if genes is not None:
        doc["genes"] = [str(g.location) for g in genes]
    return doc


# ---------------------------------------------------------------- implementation adapters

def impl_pack(features, length):
    from antismash.outputs.html.area_packing import pack
    ids = {id(f): i for i, f in enumerate(features)}
    try:
        rows = pack(features, length) if length is not None else pack(features)
        out = [0, len(rows)]
        for row in rows:
            out += [int(row.start), int(row.end), len(row.contents)] + [ids[id(f)] for f in row.contents]
        return out
    except Exception as exc:  # pylint: disable=broad-except
        return [1, err_code(exc)]


def impl_build(region, length, circular):
    from antismash.outputs.html.area_packing import build_area_rows
    try:
        return [0] + enc_areas(build_area_rows(region, length, circular=circular))
    except Exception as exc:  # pylint: disable=broad-except
        return [1, err_code(exc)]


def impl_convert(record):
    """ js.convert_regions with the description rendering stubbed (needs templates, not coordinates) """
    from antismash.outputs.html import js
    js.get_description = lambda *args, **kwargs: ""
    try:
        regions = js.convert_regions(record, None, {})
        return [[0, int(r["start"]), int(r["end"])] + enc_orfs(r["orfs"]) + enc_areas(r["clusters"]) for r in regions]
    except Exception as exc:  # pylint: disable=broad-except
        return [[1, err_code(exc)]] * len(record.get_regions())


def make_record(scene, regions=None, pipeline=False):
    from antismash.common.secmet import Record
    record = Record("A" * scene.length)
    record.add_annotation("topology", "circular" if scene.circular else "linear")
    record.record_index = 1
    for gene in scene.genes:
        record.add_cds_feature(gene)
    for proto in scene.protos:
        record.add_protocluster(proto)
    for sub in scene.subs:
        record.add_subregion(sub)
    if pipeline:
        record.create_candidate_clusters()
        record.create_regions()
    else:
        for region in regions:
            for cand in region.candidate_clusters:
                record.add_candidate_cluster(cand)
            record.add_region(region)
    return record


# ---------------------------------------------------------------- pack cases

def pack_case(gen, rng):
    from antismash.common.secmet.features import SubRegion
    length = rng.choice([30, 60, 100, 1000])
    feats = []
    n = rng.choice([0, 1, 2, 3, 4, 5, 6, 8])
    cursor = 0
    for _ in range(n):
        r = rng.random()
        if r < 0.5 and cursor < length - 2:
            # walk along the record with gaps on the boundary of the fit test (end, end+1, end+2)
            start = min(length - 1, cursor + rng.choice([0, 1, 2, 2, 3, 5]))
            end = min(length, start + rng.randint(1, max(1, length // 6)))
            cursor = end
            location = mkloc(start, end, length)
        elif r < 0.75:
            start = rng.randrange(length)
            end = rng.randint(start + 1, length)
            location = mkloc(start, end, length)
        else:
            start = rng.randint(1, length - 1)
            size = rng.randint(length - start + 1, length)
            location = mkloc(start, start + size, length)
        feats.append(SubRegion(location, tool="t", label="s1"))
    mode = rng.random()
    if mode < 0.45:
        feats.sort()
    elif mode < 0.6:
        feats.sort(key=lambda f: (f.start, -len(f.location)))
    plen = rng.choice([None, None, None, -1, length, length // 2, 0])
    return feats, plen


# ---------------------------------------------------------------- the run

RULE = ("fn1 pack: 0-8 sub-regions on rings of 30..1000 (walks with gaps end+0/+1/+2, random extents, origin-crossing "
        "extents [s,N)+[0,e) with e<=s), sorted by the collection order, by start, or unsorted, with length None/-1/N/N//2/0; "
        "fn2 build_area_rows and fn3 js.convert_regions (description rendering stubbed): scenes of 1-5 protoclusters (core "
        "anywhere inside the extent, also equal to it), 0-3 sub-regions (3-7 mostly short ones in a quarter of the circular "
        "scenes) and 0-5 genes (either strand, two exons, origin-spanning, origin-spanning with a third exon before or after, "
        "possibly on the far side of the gap of the region); in 40% of the scenes 1-3 further protoclusters that COINCIDE with an "
        "existing one in some attributes and differ in others (same extent and product / other core; same extent / other "
        "product; same core / other extent; same start / other end; identical but for identity; two of one product clipped to "
        "both ends of the window; a fifth of them sideloaded), in 25% sub-regions over the stretch of another sub-region or of a "
        "protocluster, in 25% of the direct regions a second candidate cluster over the protoclusters of an existing one; every "
        "protocluster and sub-region has its own tool string, which Area.tool carries into the output (identity) "
        "in a window of a linear or circular record (window anywhere, over the origin, or the whole record), regions built "
        "(a) directly from arbitrary groups of the protoclusters as 1-3 candidate clusters of any kind plus the sub-regions, the "
        "children handed to Region in the order generated, shuffled, in plain start order (35%: the order in which Row.can_fit "
        "meets an origin-crossing area with several occupants in the row) or in Feature.__lt__ order, "
        "and (b) by Record.create_candidate_clusters/create_regions; origin-crossing features only on "
        "circular records; excluded (counted): features whose wrapped tail overlaps the head, protocluster sets on which "
        "CDSCollection.__lt__ is not a strict weak order (Python's sort result then depends on Timsort internals), scenes the "
        "secmet constructors refuse.  The decidable specification (extents in range, rows disjoint, every feature drawn once or as "
        "two linked halves - by count per kind AND by identity: each object of region.subregions, of the drawn "
        "region.candidate_clusters and of the candidate.protoclusters de-duplicated by identity has exactly one ungrouped area or "
        "exactly two linked halves, no area belongs to anything else -, every non-zero group value on exactly two areas, "
        "start/end chain) is evaluated in Gallina on every implementation output.  non-trivial = at least two "
        "areas in the output (fn2/fn3) or at least two areas packed (fn1); distinct by flat encoding")


def known_classes():
    return {f["class"]: f for f in common.load_known_findings("C19") if f.get("status") == "known"}


def judge_spec(chk, flat, impl_out, verdict, known, describe):
    """ verdict of spec_areas (+ spec_orfs): [all e d c ch chc identity pairwise (orfs)] """
    if verdict == [-999]:
        chk.violation("broken-correspondence", "specification could not decode the implementation output",
                      {"theorem_or_correspondence": "spec decoding", "flat": flat, "implementation": impl_out})
        return
    fn = flat[1]
    if fn == 1:
        if verdict[0] != 1:
            chk.violation("counterexample", "pack: rows overlap or an area is not placed exactly once",
                          {"theorem_or_correspondence": "C19_pack_no_overlap / C19_pack_complete", "function": "pack",
                           "flat": flat, "implementation": impl_out, "spec_verdict": verdict, "input": describe})
        return
    ok_all, ext, dis, comp, chain, chain_cand, identity, pairwise = verdict[:8]
    orfs_ok = verdict[8] if len(verdict) > 8 else 1
    failures = []
    if not ext:
        failures.append("an extent lies outside the announced range")
    if not dis:
        failures.append("two areas of one row overlap")
    if not comp:
        failures.append("a feature is not drawn exactly once (or as two linked halves)")
    if not identity:
        failures.append("by identity: some protocluster, candidate cluster or sub-region of the region is drawn zero times "
                        "or more than once (or its two halves are not a linked pair), or an area belongs to none of them")
    if not pairwise:
        failures.append("halves are not linked pairwise: a group value occurs on other than exactly two areas")
    if not orfs_ok:
        failures.append("a gene lies outside the announced range")
    if not chain:
        failures.append("a protocluster core (or sub-region start/end) lies outside its extent")
    if not chain_cand:
        failures.append("a candidate cluster area has start/end outside its extent or reversed")
    if failures:
        chk.violation("counterexample", f"{FN_NAME[fn]}: " + "; ".join(failures),
                      {"theorem_or_correspondence": "C19_build_chain_in_range / C19_in_range_core / C19_pack_no_overlap / "
                                                    "C19_pack_complete / C19_region_drawn_exactly_once / "
                                                    "C19_groups_linked_pairwise / C19_genes_in_range",
                       "function": FN_NAME[fn], "flat": flat, "implementation": impl_out, "spec_verdict": verdict,
                       "input": describe})


def run(chk):
    if not chk.build_and_audit():
        return chk.finish(RULE)
    rng = chk.rng
    gen = Gen(rng)
    known = known_classes()
    quick = chk.tier == "quick"
    n_pack = 10000 if quick else 130000
    n_scene = 10000 if quick else 130000
    cases, impl_outs, descs = [], [], []

    def add(flat, out, nontrivial, desc):
        cases.append(flat)
        impl_outs.append(out)
        descs.append(desc)
        chk.count(FN_NAME[flat[1]])
        if out[0] == 1:
            chk.count(f"{FN_NAME[flat[1]]}_error_" + common.ERR_NAME.get(out[1], str(out[1])))
        chk.note_case(flat, nontrivial, {"function": FN_NAME[flat[1]], "input": desc, "implementation": out})

    # regression corpus: the witness of the repaired row_first_only defect (known_findings.json F27)
    from antismash.common.secmet.features import SubRegion
    corpus = [([SubRegion(mkloc(10, 20, 100), "t", "s1"), SubRegion(mkloc(80, 90, 100), "t", "s1"),
                SubRegion(mkloc(85, 105, 100), "t", "s1")], None),
              ([SubRegion(mkloc(800, 900, 1000), "t", "s1"), SubRegion(mkloc(910, 960, 1000), "t", "s1"),
                SubRegion(mkloc(950, 1050, 1000), "t", "s1")], None)]
    for i in range(n_pack):
        feats, plen = corpus[i] if i < len(corpus) else pack_case(gen, rng)
        flat = [PROP, 1, -1 if plen is None else plen, len(feats)]
        for j, feat in enumerate(feats):
            flat += enc_feat(j, 2, feat.location, None, False, 1)
        out = impl_pack(feats, plen)
        chk.count(f"pack_n={min(len(feats), 6)}{'+' if len(feats) > 6 else ''}")
        if any(f.crosses_origin() for f in feats):
            chk.count("pack_with_origin_crossing_area")
        add(flat, out, len(feats) >= 2, {"length": plen, "areas": [str(f.location) for f in feats]})

    scene_corpus = corpus_scenes(gen)
    for i in range(n_scene):
        if i < len(scene_corpus):
            scene, corpus_regions = scene_corpus[i]
            pipeline = False
            chk.count("corpus_scene")
        else:
            scene, corpus_regions = gen.scene(), None
            pipeline = rng.random() < 0.3
        try:
            if pipeline:
                record = make_record(scene, pipeline=True)
                regions = list(record.get_regions())
            else:
                regions = corpus_regions if corpus_regions is not None else gen.direct_regions(scene)
                record = None
        except Exception as exc:  # pylint: disable=broad-except
            chk.count("scene_refused_" + type(exc).__name__)
            continue
        if not pipeline:
            try:
                record = make_record(scene, regions=regions)
            except Exception as exc:  # pylint: disable=broad-except
                chk.count("record_refused_" + type(exc).__name__)
                record = None
        converted = impl_convert(record) if record is not None else None
        for index, region in enumerate(regions):
            payload, why = enc_region_payload(region, scene.length, scene.circular)
            if payload is None:
                chk.count("excluded_" + why)
                continue
            shape = "wrapped" if region.crosses_origin() else (
                "whole_record" if scene.circular and region.location.start == 0 and region.location.end == scene.length
                else ("circular" if scene.circular else "linear"))
            chk.count(f"region_{shape}_{'pipeline' if pipeline else 'direct'}")
            if not pipeline and corpus_regions is None:
                chk.count("children_order_" + gen.order)
            if crossing_meets_occupied_row(region):
                chk.count("origin_crossing_area_meets_row_with_2+_occupants")
            if any(len(f.location.parts) == 2 and f.location.parts[0].start == f.location.parts[1].end
                   for f in list(region.subregions) + list(region.candidate_clusters) + protocluster_set_order(region)):
                chk.count("region_with_area_covering_the_whole_ring_at_an_offset")   # repaired class F34b
            desc = describe_region(region, scene.length, scene.circular)
            out = impl_build(region, scene.length, scene.circular)
            add([PROP, 2] + payload, out, out[0] == 0 and out[1] >= 2, desc)
            if any(a != 0 for a in out[2 + 6::AREA_WIDTH]) if out[0] == 0 else False:
                chk.count("areas_split_in_halves")
            count_coincidences(chk, region, shape)
            if converted is not None:
                genes = list(region.cds_children)
                gflat = [len(genes)]
                for gene in genes:
                    gflat += enc_loc(gene.location)
                if any(g.crosses_origin() for g in genes):
                    chk.count("region_with_origin_spanning_gene")
                if any(g.crosses_origin() and len(g.location.parts) == 3 for g in genes):
                    chk.count("region_with_three_exon_origin_spanning_gene")
                if converted[index][0] == 0 and any(converted[index][7:4 + 4 * converted[index][3]:4]):
                    # a gene drawn as two linked halves: expected in whole-record regions; in an origin-crossing region
                    # it is the repaired class F45, in any other region the repaired class C19-K3
                    chk.count(f"region_{shape}_with_gene_in_two_halves")
                desc3 = describe_region(region, scene.length, scene.circular, genes)
                add([PROP, 3] + payload + gflat, converted[index], converted[index][0] == 0 and len(genes) >= 1, desc3)

    decoded = {id(flat): desc for flat, desc in zip(cases, descs)}
    model_outs = common.correspondence(chk, cases, impl_outs, spec_fn_offset=10,
                                       describe=lambda flat: {"function": FN_NAME.get(flat[1]),
                                                              "decoded": decoded.get(id(flat)), "payload": flat[2:]})
    # the property itself, evaluated on every implementation output
    spec_cases = [[c[0], c[1] + 10] + c[2:] + o for c, o in zip(cases, impl_outs)]
    verdicts = common.run_driver(spec_cases)
    for flat, out, verdict, desc in zip(cases, impl_outs, verdicts, descs):
        if out[0] == 1 and flat[1] in (2, 3):
            # the layout data of the region is not produced at all
            chk.violation("counterexample", f"{FN_NAME[flat[1]]} raises {common.ERR_NAME.get(out[1], out[1])}: "
                          "the areas of the region are not drawn",
                          {"theorem_or_correspondence": "C19_pack_complete", "function": FN_NAME[flat[1]], "flat": flat,
                           "implementation": out, "input": desc})
            continue
        if verdict and verdict[0] == 1 and (len(verdict) < 9 or verdict[8] == 1):
            continue
        chk.count("spec_not_ok_" + FN_NAME[flat[1]])
        judge_spec(chk, flat, out, verdict, known, desc)
    chk.crosscheck_vm(cases, model_outs)
    return chk.finish(RULE)


def replay(chk, path):
    doc = json.load(open(path))
    flat = doc["flat"]
    model = common.run_driver([flat])[0]
    print("model:", model, "recorded implementation:", doc.get("implementation"))
    if doc.get("implementation"):
        print("spec verdict on recorded implementation output:",
              common.run_driver([[flat[0], flat[1] + 10] + flat[2:] + doc["implementation"]])[0])
    return 0
