"""Source drift: which of the functions a property is anchored in differ from the snapshot the models were validated on.

The Gallina models are hand transcriptions; what ties them to /repo is the correspondence run of every check.  This
module adds a second, syntactic, tie: `anchors.lock.json` holds a fingerprint (hash of the AST without docstrings) of
every function and method of every file named in the property's anchors, taken at the commit of /repo on which all
checks were last run silent.  On every run the check fingerprints the files as they are NOW:

 * no difference: the code the model transcribes is literally the code that was validated;
 * a difference is not a violation (a harmless rewrite changes the fingerprint too), but it means the model may be
   stale, so the check (a) names the changed functions in its output and evidence and (b) when the first pass finds
   nothing, runs a second pass of the whole correspondence with another seed - more search exactly where and when the
   code moved.
"""
import ast
import hashlib
import json
import os
import subprocess

VERIF = os.path.dirname(os.path.dirname(os.path.abspath(__file__)))
LOCK = os.path.join(VERIF, "anchors.lock.json")


def _strip_docstrings(node):
    for sub in ast.walk(node):
        if isinstance(sub, (ast.FunctionDef, ast.AsyncFunctionDef, ast.ClassDef, ast.Module)):
            body = sub.body
            if body and isinstance(body[0], ast.Expr) and isinstance(getattr(body[0], "value", None), ast.Constant) \
                    and isinstance(body[0].value.value, str):
                sub.body = body[1:] or [ast.Pass()]
    return node


def _digest(text):
    return hashlib.sha1(text.encode("utf-8")).hexdigest()[:16]


def fingerprint_file(path):
    """ {qualified name: digest} for a python file (functions, methods, and the remaining module/class level code),
        {"<content>": digest} for any other file """
    with open(path, encoding="utf-8") as handle:
        text = handle.read()
    if not path.endswith(".py"):
        return {"<content>": _digest(text)}
    tree = _strip_docstrings(ast.parse(text))
    out = {}

    def visit(node, prefix):
        rest = []
        for child in node.body:
            if isinstance(child, (ast.FunctionDef, ast.AsyncFunctionDef)):
                name = prefix + child.name
                while name in out:   # overloads / redefinitions (property setters)
                    name += "'"
                out[name] = _digest(ast.dump(child, include_attributes=False))
            elif isinstance(child, ast.ClassDef):
                visit(child, prefix + child.name + ".")
                rest.append("class " + child.name + "(" + ",".join(ast.dump(b) for b in child.bases) + ")")
            else:
                rest.append(ast.dump(child, include_attributes=False))
        out[prefix + "<level>"] = _digest("\n".join(rest))
    visit(tree, "")
    return out


def anchor_files(prop):
    with open(os.path.join(VERIF, "properties.jsonl"), encoding="utf-8") as handle:
        for line in handle:
            doc = json.loads(line)
            if doc["id"] == prop:
                return list(doc["anchors"].get("files", []))
    return []


def fingerprint(prop, repo):
    result = {}
    for rel in anchor_files(prop):
        path = os.path.join(repo, rel)
        result[rel] = fingerprint_file(path) if os.path.exists(path) else {"<missing>": "-"}
    return result


def diff(prop, repo):
    """ list of "file::name (changed|added|removed)" against the lock; None when there is no lock for the property """
    if not os.path.exists(LOCK):
        return None
    with open(LOCK, encoding="utf-8") as handle:
        lock = json.load(handle)
    base = lock.get("properties", {}).get(prop)
    if base is None:
        return None
    try:
        now = fingerprint(prop, repo)
    except SyntaxError as exc:   # the tree does not even parse: the check's own imports will say so
        return [f"{exc.filename}::<syntax error>"]
    changes = []
    for rel in sorted(set(base) | set(now)):
        old, new = base.get(rel, {}), now.get(rel, {})
        for name in sorted(set(old) | set(new)):
            if name not in new:
                changes.append(f"{rel}::{name} (removed)")
            elif name not in old:
                changes.append(f"{rel}::{name} (added)")
            elif old[name] != new[name]:
                changes.append(f"{rel}::{name} (changed)")
    return changes


def write_lock(repo="/repo"):
    props = []
    with open(os.path.join(VERIF, "properties.jsonl"), encoding="utf-8") as handle:
        for line in handle:
            props.append(json.loads(line)["id"])
    commit = subprocess.run(["git", "-C", repo, "rev-parse", "HEAD"], stdout=subprocess.PIPE, text=True).stdout.strip()
    doc = {"repo_commit": commit,
           "note": "fingerprints (AST without docstrings) of every function of the anchored files at the commit on which "
                   "all checks were last run silent; harness/drift.py compares the working tree with it on every run",
           "properties": {prop: fingerprint(prop, repo) for prop in props}}
    with open(LOCK, "w", encoding="utf-8") as handle:
        json.dump(doc, handle, indent=1, sort_keys=True)
    return doc
