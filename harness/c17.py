"""C17: same input, same output, whatever the hash seed / memory layout.

   Every case is executed by the REAL code in several child processes, each started with its own
   PYTHONHASHSEED and its own "layout" (objects that end up in identity-hashed sets are created in a
   permuted order between random allocations, so that their addresses - hence their set order - differ).
   Each child reports, per case, the enumeration order it observed for the sets involved (obtained from the
   public functions/attributes that build them) and the canonical output of the public function.

     fn 1/2  hmmscan_refinement.refine_hmmscan_results (neighbour / default); order = gather_by_query sets
     fn 3    hmm_detection.run_on_record -> detect_protoclusters_and_signatures (find_protoclusters' sorted
             anchors + sweep) on linear records with tied anchoring genes; the same child run continues
             end to end: add_protocluster, create_candidate_clusters, create_regions, hmm_detection JSON,
             serialiser.gather_record_areas JSON, GenBank text (SeqIO.write of Record.to_biopython)
     fn 4    formation.create_candidates_from_protoclusters on real (identity-hashed) Protoclusters
     fn 5    Region.get_unique_protoclusters (both branches); order = the set the function builds
     fn 6    CDSResults.to_json definition_domains / HMMDetectionResults.enabled_types (sorted sets of str)
     fn 7    Feature.to_biopython: sorted notes, sorted qualifier keys
     fn 8    CDSResults.annotate: CORE gene functions added in the order of sorted(Set[str] of definition domains)
     fn 9    cluster_prediction.filter_results on real identity-hashed hit objects (no observable order: every child's
             result must be THE result of C13.Model.filter_results, which is evaluated over all rank assignments and
             must be the same for all of them - the best hit of a group is searched in hit-list order)
     fn 10   terpene_analysis.filter_incomplete (gather_by_query sets sorted by the total key of refine_hmmscan_results)
     fn 11   terpene_analysis.analyse_cluster end to end on the shipped profile properties (only run_terpene_hmmscan,
             an external binary, is replaced): prediction JSON as written and in canonical forms
     fn 12   detect_protoclusters_and_signatures on CIRCULAR records with several origin-crossing genes (nested, overlapping,
             multi-exon, both strands) satisfying the same rule, SUPERIORS rules, extenders, short cutoffs; order = the sets
             of gene names apply_cluster_rules builds (string hashes); model = C03's pipeline with the enumeration of
             find_protoclusters' set made explicit (Model.v module DO, run function 16); the same child run continues
             end to end (numbering, candidates, regions, detection JSON, areas JSON, GenBank text)
     fn 13   Record.create_candidate_clusters + create_regions on circular records with an origin-crossing first section, an
             unconnected region elsewhere, later pre-origin sections merged into the first, and areas with IDENTICAL
             coordinates (twin subregions, twin protoclusters = twin candidates); every child builds the record under
             several allocation layouts and with forced hashes (ascending / descending / scrambled) of the subregions
             and protoclusters: region children order, GenBank qualifiers and areas JSON must all be identical

   Checks: (a) per case, the outputs of all children are identical (the property itself; a difference is a
   counterexample with the input and the two seeds, unless the input lies in a recorded finding class);
   (b) for every child, model(observed order) == implementation output (correspondence, extracted model);
   (c) fn 105: Region.get_unique_protoclusters output is in the documented order (start, -size, product).
"""
import hashlib
import itertools
import json
import os
import random
import subprocess
import sys
import tempfile
import types

import common
from common import err_code

PROP = 17
EV_UNIT = 1e-10
FN_NAME = {1: "refine_hmmscan_results(neighbour_mode=True)", 2: "refine_hmmscan_results(neighbour_mode=False)",
           3: "run_on_record/detect_protoclusters_and_signatures (linear) + end-to-end dumps",
           4: "create_candidates_from_protoclusters", 5: "Region.get_unique_protoclusters",
           6: "sorted set of str (CDSResults.to_json / enabled_types)", 7: "Feature.to_biopython (notes, qualifier keys)",
           8: "CDSResults.annotate (CORE gene functions)", 9: "cluster_prediction.filter_results (identity-hashed hits)",
           10: "terpene filter_incomplete", 11: "terpene analyse_cluster (prediction JSON)",
           12: "detect_protoclusters_and_signatures (circular, origin-crossing genes) + end-to-end dumps",
           13: "Record.create_regions (circular, origin-crossing first section, twin areas)"}
FN_NAME[16] = FN_NAME[12]
FN_NAME[20] = "hmm_detection.get_ruleset limited to rule names (order of the rules handed out)"
FN_NAME[21] = "SecMetQualifier.add_domains over several calls (order of the stored domains)"

# texts of the finding classes of this check.  All ten are REPAIRED in the code (known_findings.json: status fixed), so none
# is tolerated: a difference between children inside a class is reported as a counterexample "(class X, not recorded as
# known)"; a text is only printed as KNOWN-FINDING if its class is recorded with status "known" again.
KNOWN_TEXT = {
    "unique_protoclusters_set_order":
        "Region.get_unique_protoclusters of a region that does not cross the origin returns protoclusters with identical "
        "coordinates in set-iteration (identity hash = memory layout) order, not by product as documented; the order is "
        "serialised by serialiser.gather_record_areas, so the JSON output differs between runs",
    "single_candidates_set_order":
        "create_candidates_from_protoclusters appends SINGLE candidates in the iteration order of set(unassigned) "
        "(identity hashes); SINGLE candidates of protoclusters with identical coordinates tie in the final sort, so candidate "
        "cluster numbering (and the GenBank/JSON output) differs between runs",
    "same_product_equal_coordinates_member_order":
        "_ordered (formation.py) breaks location ties between protoclusters by product only: two protoclusters of the SAME "
        "product with identical coordinates (neighbourhoods clipped at both ends of a short record) but different cores are "
        "listed inside a candidate cluster in set-iteration order, so the 'protoclusters' qualifier of the candidate and the "
        "areas JSON differ between runs",
    "annotate_definition_domains_set_order":
        "CDSResults.annotate adds the CORE gene functions of a gene in the iteration order of the Set[str] of definition "
        "domains (string hashes): for a gene with two or more definition domains of one rule the gene_functions qualifier "
        "of the CDS - hence the GenBank output - differs between runs with different PYTHONHASHSEED",
    "filter_results_score_tie_set_order":
        "cluster_prediction.filter_results starts the search for the best hit of a group of overlapping hits of competing "
        "profiles from list(group)[0] of a set of identity-hashed HSP objects and replaces it only by a strictly better "
        "bitscore: with tied bitscores the hit that is kept (so possibly the detected rule) depends on the memory layout",
    "html_product_categories_set_order":
        "outputs/html/js.py convert_regions emits list(region.product_categories) of a Set[str] in hash order: the regions "
        "JSON of the HTML page differs between runs for a region with two or more product categories",
    "unique_crossing_same_product_set_order":
        "Region.get_unique_protoclusters, origin-crossing branch: the sort key ends with the product, so two protoclusters "
        "with identical coordinates and product but different cores come out in set-iteration (memory layout) order; "
        "serialiser.gather_record_areas numbers them in that order",
    "terpene_start_tie_set_order":
        "terpene_analysis.filter_incomplete sorts the gather_by_query sets by query_start only: hits of one gene with "
        "equal query_start are handed to remove_incomplete (and on to the terpene predictions) in set-iteration order",
    "terpene_subtypes_set_order":
        "terpene_analysis.get_domain_prediction builds subtypes=tuple(subtypes) from a set[str]: the subtypes of a domain "
        "prediction (terpene results JSON, HTML side panel) come out in PYTHONHASHSEED order when a group of overlapping hits "
        "has two or more subtype profiles",
    "terpene_reaction_intersection_set_order":
        "terpene data_loader.Reaction.build_intersection returns tuple(set & set) over CompoundGroup objects (hashed by name): "
        "substrates and products of merged reactions, and with them the products list of the cluster prediction, come out "
        "in PYTHONHASHSEED order",
    "crossing_anchor_key_tie_set_order":
        "find_protoclusters sorts the genes of a rule (a set of gene names) with Feature.__lt__, whose key (start, length) "
        "does not separate two origin-crossing genes with the same start and length but different exons (so different ends): "
        "they become the first cores in set-iteration (PYTHONHASHSEED) order, the next gene is only compared with the newest "
        "core, and with a superior rule the surviving protocluster differs between runs",
}
# where a difference between children may show for each class (dump names of the end-to-end stage)
E2E_CLASS_DUMPS = {"annotate_definition_domains_set_order": {"gene_functions", "genbank", "js_regions",
                                                             "js_regions_categories_sorted"},
                   "html_product_categories_set_order": {"js_regions", "js_regions_descriptions_sorted"}}
# the dump whose difference shows that the class (and not the other one) is at work
E2E_CLASS_MARK = {"annotate_definition_domains_set_order": "gene_functions",
                  "html_product_categories_set_order": "js_regions_descriptions_sorted"}


def known_classes():
    return {f["class"] for f in common.load_known_findings("C17") if f.get("status") == "known"}


# ====================================================================== generation (parent)

def gen_refine(rng):
    import c13
    table, hits, split = c13.gen_refine(rng)
    if rng.random() < 0.4 and hits:
        # several hits with equal start (and often equal score / end) on one gene: the tie the sort key must break
        base = rng.choice(hits)
        for _ in range(rng.choice([1, 2, 3])):
            prof = rng.randrange(len(table))
            end = base[3] if rng.random() < 0.5 else base[2] + rng.randint(1, max(2, table[prof][1]))
            score = base[5] if rng.random() < 0.6 else rng.choice([20, 40, 60])
            ev = base[4] if rng.random() < 0.6 else rng.choice([1, 2, 3])
            hits.append((base[0], prof, base[2], max(end, base[2] + 1), ev, score))
            split.append(rng.randrange(max(split) + 1))
    return {"table": table, "hits": hits, "split": split}


def gen_pipeline(rng):
    """ linear record, 1-4 single-profile rules, genes on both strands incl. pairs with identical coordinates """
    n_rules = rng.choice([1, 2, 2, 3, 4])
    rule_names = rng.sample(["r1", "r10", "r2", "ra", "rab", "rb", "T1", "t1"], n_rules)
    rules = [(rng.choice([1, 1, 2, 5]) * 1000, rng.choice([0, 1, 3, 10]) * 1000) for _ in range(n_rules)]
    cutoffs = [c for c, _ in rules]
    n_genes = rng.choice([2, 3, 4, 5, 6, 8, 10])
    genes, seen = [], set()
    pos = rng.choice([0, 0, 50, 300])
    for _ in range(n_genes):
        length = rng.choice([30, 90, 300, 900, 3000])
        r = rng.random()
        strand = rng.choice([1, -1])
        if r < 0.3 and genes:
            # identical coordinates on the other strand
            _, (start, end), other = rng.choice(genes)
            strand = -other
        elif r < 0.45 and genes:
            ps, pe = genes[-1][1]
            start = rng.choice([ps, ps, rng.randint(ps, max(ps, pe - 1))])    # equal start, nested / overlapping
            end = start + length
        else:
            start = pos
            end = start + length
        if (start, end, strand) in seen:
            continue
        seen.add((start, end, strand))
        genes.append((f"g{len(genes)}", (start, end), strand))
        cutoff = rng.choice(cutoffs)
        gap = rng.choice([0, 1, cutoff - 1, cutoff, cutoff + 1, cutoff + 500, 3 * cutoff, 12000])
        pos = max(pos, end) + gap
    order = list(range(len(genes)))
    rng.shuffle(order)                       # gene names do not follow positions
    genes = [(f"g{order[i]}", iv, st) for i, (_n, iv, st) in enumerate(genes)]
    length = max(e for _, (_, e), _ in genes) + rng.choice([0, 0, 1, 50, 1000, 6000])
    hits = {}
    for name, _, _ in genes:
        profs = sorted(r for r in range(n_rules) if rng.random() < 0.7)
        if profs:
            hits[name] = profs
    # a second profile for some rules (CONDITIONS p or q): a gene hit by both has TWO definition domains for the rule;
    # categories per rule (regions with several product categories)
    second = [rng.random() < 0.45 for _ in range(n_rules)]
    hits2 = {}
    for name, profs in hits.items():
        extra = sorted(r for r in range(n_rules) if second[r] and rng.random() < (0.8 if r in profs else 0.15))
        if extra:
            hits2[name] = extra
    for name, _, _ in genes:
        if name not in hits and rng.random() < 0.1:
            extra = sorted(r for r in range(n_rules) if second[r])
            if extra:
                hits2[name] = extra
    categories = [rng.choice(["c", "c", "NRPS", "PKS", "terpene", "RiPP"]) for _ in range(n_rules)]
    return {"length": length, "rules": rules, "rule_names": rule_names, "genes": genes, "hits": hits,
            "second": second, "hits2": hits2, "categories": categories}


def gen_formation(rng):
    import c05
    config = c05.Gen(rng).config(circular=rng.random() < 0.25, wrapping=False)
    if rng.random() < 0.5 and len(config["protos"]) >= 2:
        # more identical coordinates with different products
        protos = list(config["protos"])
        for _ in range(rng.choice([1, 1, 2])):
            a, b = rng.sample(range(len(protos)), 2)
            pid, _e, core, prod = protos[b]
            protos[b] = (pid, protos[a][1], core if rng.random() < 0.5 else protos[a][2], prod)
            if rng.random() < 0.4 and [x[:2] for x in protos[b][2]] != [x[:2] for x in protos[a][2]]:
                # ... and with the SAME product but another core (class same_product_equal_coordinates_member_order,
                # repaired: _ordered separates them by the core)
                protos[b] = protos[b][:3] + (protos[a][3],)
        # the core must lie inside the extent
        ok = all(len(e) == 1 and len(c) == 1 and e[0][0] <= c[0][0] and c[0][1] <= e[0][1] for _p, e, c, _q in protos)
        # indistinguishable protoclusters (same coordinates, product and core) do not come out of one detection run
        keys = [([x[:2] for x in e], [x[:2] for x in c], q) for _p, e, c, q in protos]
        ok = ok and all(keys[i] != keys[j] for i in range(len(keys)) for j in range(i))
        if ok:
            config["protos"] = protos
    order = list(range(len(config["protos"])))
    rng.shuffle(order)
    return {"config": config, "order": order}


def gen_unique(rng):
    """ protoclusters of one region: [(start, end)] single parts, or bridging (start > end) on a ring of length n """
    crossing = rng.random() < 0.35
    grid = rng.choice([1, 10, 100])
    units = rng.randint(10, 30)
    n = units * grid
    count = rng.choice([1, 2, 2, 3, 3, 4, 5, 6])
    protos = []
    n_products = rng.choice([1, 2, 3, count])
    for i in range(count):
        r = rng.random()
        if protos and r < 0.2:
            start, end = rng.choice(protos)[:2]         # identical coordinates
        elif protos and r < 0.4:
            start = rng.choice(protos)[0]                # equal start
            end = (start + rng.randint(1, units // 2) * grid)
            if not crossing:
                end = min(n, end)
            elif end > n:
                end -= n
        elif crossing and (i == 0 or r < 0.7):
            start = rng.randint(units // 2 + 1, units - 1) * grid
            end = rng.randint(1, units // 2 - 1) * grid
        else:
            a = rng.randint(0, units - 1)
            b = rng.randint(a + 1, units)
            start, end = a * grid, b * grid
        if end == start:
            end = min(n, start + grid) if not crossing else start + grid
        if not crossing and end < start:
            start, end = end, start
        if crossing and end > n:
            end = n
        product = rng.randrange(n_products)
        core = None
        if (start, end, product) in [tuple(p[:3]) for p in protos]:
            used = [tuple(p[3]) if p[3] else (p[0], p[1]) for p in protos if tuple(p[:3]) == (start, end, product)]
            free_cores = [(a, b) for a in range(start, end, grid) for b in range(a + grid, end + 1, grid)
                          if (a, b) not in used] if start < end else []
            if free_cores and rng.random() < 0.6:
                # same coordinates and product, another core (two protoclusters of one rule whose neighbourhoods are
                # clipped at both ends of a short record): separated by (core_start, core_end) since the repair in
                # regions that do not cross the origin; the key of the origin-crossing branch ends with the product
                # (guard of C17_unique_crossing_perm; finding unique_crossing_same_product_set_order)
                core = rng.choice(free_cores)
            else:
                # indistinguishable protoclusters (same coordinates, product and core) do not come out of one detection run
                free = [q for q in range(count) if (start, end, q) not in [tuple(p[:3]) for p in protos]]
                product = rng.choice(free)
        protos.append((start, end, product, core))
    if crossing and not any(p[1] < p[0] for p in protos):
        protos[0] = ((units - 2) * grid, 2 * grid, protos[0][2], None)
    # candidate clusters: every protocluster in at least one; first candidate holds them all when crossing
    ids = list(range(count))
    groups = [ids] if crossing or rng.random() < 0.5 else []
    for _ in range(rng.choice([0, 1, 2])):
        groups.append(sorted(rng.sample(ids, rng.randint(1, count))))
    covered = {i for g in groups for i in g}
    rest = [i for i in ids if i not in covered]
    if rest:
        groups.append(rest)
    rng.shuffle(groups)
    return {"n": n, "crossing": crossing, "protos": protos, "groups": groups}


WORDS = ["a", "ab", "abc", "b", "B", "p1", "p10", "p2", "PKS_KS", "PKS_AT", "T1", "t1", "", "a-b", "a_b", "z", "Z", "rule", "rule2"]


def gen_strings(rng):
    words = [rng.choice(WORDS) for _ in range(rng.choice([0, 1, 2, 3, 4, 5, 6, 8]))]
    return {"words": words}


def gen_notes(rng):
    notes = [rng.choice(WORDS) for _ in range(rng.choice([0, 1, 2, 3, 4, 6]))]
    keys = rng.sample(["gene", "product", "label", "Label", "aa", "a", "zz", "core", "score", "evalue"], rng.choice([0, 1, 2, 3, 5]))
    return {"notes": notes, "keys": keys}


DOMAINS = ["PKS_KS", "PKS_AT", "ACP", "a", "b", "ab", "p1", "p10", "p2", "Z", "z", "t1", "T1"]


def gen_annotate(rng):
    """ definition domains of one gene: 1-3 cluster types with 0-4 domains each """
    types_ = rng.sample(["r1", "r10", "r2", "T1", "t1", "rab"], rng.choice([1, 1, 2, 3]))
    return {"defs": [(t, rng.sample(DOMAINS, rng.choice([0, 1, 1, 2, 2, 3, 4]))) for t in types_]}


def gen_filter(rng):
    """ c13's generator of filter_results inputs, at most 5 hits per gene, with more score ties """
    import c13
    while True:
        eqgs, order, cds = c13.gen_fr(rng)
        if all(len(hits) <= 5 for hits in cds) and sum(len(hits) for hits in cds) <= 7 \
                and all(h[2] < h[3] for hits in cds for h in hits):
            break
    if rng.random() < 0.5:
        cds = [[(h[0], h[1], h[2], h[3], rng.choice([40, 40, 60]), h[5]) if rng.random() < 0.6 else h for h in hits]
               for hits in cds]
    return {"eqgs": eqgs, "order": order, "cds": cds}


def gen_terpene(rng):
    args = gen_refine(rng)
    if rng.random() < 0.5 and args["hits"]:
        # hits of OTHER profiles at the same start (complete ones too): the tie the start-only key does not break
        base = rng.choice(args["hits"])
        for _ in range(rng.choice([1, 2])):
            prof = rng.randrange(len(args["table"]))
            length = args["table"][prof][1]
            end = base[2] + rng.choice([length, max(1, length // 2 + 1), max(1, length // 3), base[3] - base[2]])
            args["hits"].append((base[0], prof, base[2], max(end, base[2] + 1), rng.choice([1, 2]), rng.choice([20, 40])))
            args["split"].append(rng.randrange(max(args["split"]) + 1))
    return args


TERPENE_FAMILIES = [["PT_FPPS_like", "PT_noFPP_bact", "PT_FPP_bact", "PT_GFPP", "PT_GGPP", "TS_UbiA"],
                    ["PT_phytoene_like", "phytoene_synt", "PT_PSPP", "PT_squalene", "PT_diapophytoene"],
                    ["T1TS", "T1TS_III-IV_a", "T1TS_III-IV_b", "T1TS_III-IV_c", "T1TS_IV-V_b", "T1TS_GERAS"],
                    ["T2TS", "T2TS_C15_a", "T2TS_C20", "Lycopene_cycl"]]


def gen_terpene_e2e(rng):
    """ 1-2 genes with 1-4 hits of related real terpene profiles: equal / close starts (one overlap group), complete and
        fragmentary lengths, scores above and below the cutoffs """
    hits = []
    for gene in range(rng.choice([1, 1, 2])):
        family = rng.choice(TERPENE_FAMILIES)
        base = rng.choice([5, 10, 40])
        for prof in rng.sample(family, rng.choice([1, 2, 2, 3, 3, 4])):
            start = base + rng.choice([0, 0, 2, 4, 30])
            end = start + rng.choice([120, 120, 250, 290, 320, 420])
            hits.append([f"g{gene}", prof, start, end, 1e-50, rng.choice([400.0, 400.0, 400.0, 150.0, 30.0])])
    return {"hits": hits}


GENE_NAMES = ["xa", "xb", "c1", "cn", "orf1", "orf10", "orf2", "A", "B", "a", "b", "ctg1_1", "ctg1_2", "ctg1_10", "geneA", "geneB",
              "pksA", "nrpS", "z", "Z9", "SCO1", "SCO2", "SCO10", "lt_0001", "lt_0002", "lt_0010"]


def gen_crossing(rng):
    """ circular record; 2-3 genes over the origin (nested / overlapping / multi-exon / either strand, sometimes tied on
        the key of Feature.__lt__) that mostly satisfy the same rule; genes after the origin at distances around the
        cutoff from every reach, genes before the origin likewise, a far gene; an inferior rule with SUPERIORS, extenders
        -> rules [(cutoff_kb, nb_kb, condition, extender or None, [superiors])], genes [(name, parts)], hits {name: [profiles]} """
    length = rng.choice([30000, 40000, 60000, 100000])
    cut_kb = rng.choice([1, 1, 2])
    cut = cut_kb * 1000
    sup_cond = rng.choice(["p1", "p1", "p1 or p3"])
    inf_cond = rng.choice(["p0", "p0", "p0", "p0 or p2"])
    rules = [(rng.choice([1, 2]), rng.choice([0, 1]), sup_cond, None, []),
             (cut_kb, rng.choice([0, 1, 1, 3]), inf_cond, rng.choice([None, None, None, "p2", "p3"]),
              [0] if rng.random() < 0.8 else [])]
    if rng.random() < 0.3:
        rules.append((rng.choice([1, 2, 5]), rng.choice([0, 1]), rng.choice(["p0", "p2", "p0 or p1"]), None,
                      rng.choice([[], [0], [1]])))
    genes, seen = [], set()

    def add(kind, parts):
        key = tuple(sorted((s, e) for s, e, _ in parts))
        if key in seen or any(not 0 <= s < e <= length for s, e, _ in parts):
            return
        seen.add(key)
        genes.append((kind, parts))

    def crossing_parts(start, reach, strand, split):
        parts = [(start, length, strand), (0, reach, strand)]
        if split:
            head = length - start
            x = rng.randint(1, max(1, head // 3))
            y = rng.randint(1, max(1, head // 3))
            if x + y < head:
                parts = [(start, start + x, strand), (length - y, length, strand), (0, reach, strand)]
        return parts[::-1] if strand == -1 else parts
    backs = rng.sample([300, 600, 999, 1500, 3000], 3)
    reaches = rng.sample([200, 700, 1000, 3000, 3800], 3)
    n_cross = rng.choice([2, 2, 2, 3])
    tie = rng.random() < 0.2
    for i in range(n_cross):
        strand = rng.choice([1, 1, -1])
        if tie and i == 1:
            # same start and length as the first one, a further reach: two exons before the origin
            start0, reach0 = length - backs[0], reaches[0]
            reach = reach0 + rng.choice([300, 800, 1500])
            head = (length - start0) - (reach - reach0)
            if head >= 2 and (length - start0) - head >= 1:
                x = rng.randint(1, head - 1)
                parts = [(start0, start0 + x, strand), (length - (head - x), length, strand), (0, reach, strand)]
                add("x", parts[::-1] if strand == -1 else parts)
                reaches[1] = reach
                continue
        add("x", crossing_parts(length - backs[i], reaches[i], strand, rng.random() < 0.25))
    near = [cut - 300, cut - 1, cut, cut + 1, cut + 400]
    for reach in rng.sample(reaches[:n_cross], rng.choice([1, 2, min(3, n_cross)])):
        start = reach + rng.choice(near)
        add("c", [(start, start + rng.choice([100, 300, 600]), rng.choice([1, -1]))])
    for back in rng.sample(backs[:n_cross], rng.choice([0, 1, 1, 2])):
        end = length - back - rng.choice(near)
        add("b", [(end - rng.choice([100, 300]), end, rng.choice([1, -1]))])
    for _ in range(rng.choice([0, 1, 1, 2])):
        start = length // 2 + rng.choice([0, 500, 1200, 2500])
        add("f", [(start, start + 300, 1)])
    names = rng.sample(GENE_NAMES, len(genes))
    hits = {}
    for name, (kind, _parts) in zip(names, genes):
        probs = {"x": (0.85, 0.1, 0.05, 0.05), "c": (0.8, 0.55, 0.2, 0.1), "b": (0.8, 0.4, 0.2, 0.1),
                 "f": (0.7, 0.3, 0.1, 0.1)}[kind]
        profs = [f"p{i}" for i, prob in enumerate(probs) if rng.random() < prob]
        if profs:
            hits[name] = profs
    return {"length": length, "rules": rules, "genes": [(name, parts) for name, (_k, parts) in zip(names, genes)],
            "hits": hits}


def gen_regions(rng):
    """ circular record: a protocluster (or subregion) over the origin, mostly an unconnected area in the middle of the
        ring, areas shortly before the origin that overlap the first one (left in a section of their own by the linear scan
        whenever another region lies between), twins: subregions with identical coordinates (anywhere), protoclusters with
        identical extents (their SINGLE candidates and the candidate holding both share the coordinates)
        -> protoclusters [(start, end, core_start, core_end, product)], subregions [(start, end, tool, label)] in the
           order they are added to the record """
    length = rng.choice([50000, 100000])
    back = rng.choice([1000, 3000])
    reach = rng.choice([1000, 3000])
    protos, subs = [], []
    first = rng.random()
    if first < 0.7:
        protos.append((length - back, reach, length - back // 2, reach // 2, "T1PKS"))
        if rng.random() < 0.3:
            # a twin over the origin: same extent, other product and core
            protos.append((length - back, reach, length - back // 4, reach // 4, "NRPS"))
    else:
        subs.append((length - back, reach, "toolX", "over"))
        if rng.random() < 0.4:
            subs.append((length - back, reach, "toolY", "over2"))
    if rng.random() < 0.8:
        mid = length // 2
        if rng.random() < 0.6:
            protos.append((mid - 5000, mid + 5000, mid, mid + 900, "terpene"))
            if rng.random() < 0.3:
                protos.append((mid - 5000, mid + 5000, mid + 1000, mid + 1900, "RiPP"))
        else:
            subs.append((mid - 3000, mid + 3000, "toolA", "mid"))
        if rng.random() < 0.3:
            subs.append((mid - 3000, mid + 3000, "toolB", "mid2"))
            if rng.random() < 0.5:
                subs.append((mid - 3000, mid + 3000, "toolA", "mid3"))
    # shortly before the origin, overlapping the first area
    pre_start = length - back - rng.choice([500, 2000])
    pre_end = length - back + rng.choice([200, back // 2])
    n_pre = rng.choice([0, 1, 2, 2, 2, 3])
    tools = rng.sample(["toolA", "toolB", "toolC", "sideload", "cassis"], 3)
    for i in range(n_pre):
        if i and rng.random() < 0.3:
            subs.append((pre_start + 100 * i, pre_end, tools[i], f"island{i}"))
        else:
            subs.append((pre_start, pre_end, tools[i], f"island{i}"))
    if rng.random() < 0.3:
        # a protocluster before the origin overlapping the first area (and twins of it)
        protos.append((pre_start, pre_end, pre_start + 100, pre_start + 400, "lanthipeptide"))
        if rng.random() < 0.5:
            protos.append((pre_start, pre_end, pre_start + 150, pre_start + 300, "sactipeptide"))
    if rng.random() < 0.25:
        post = reach - rng.choice([100, 500])
        subs.append((post, post + 2000, "toolA", "post"))
        if rng.random() < 0.5:
            subs.append((post, post + 2000, "toolB", "post2"))
    rng.shuffle(subs)
    return {"length": length, "protos": protos, "subs": subs}


SELECTABLE = ["T1PKS", "NRPS", "NRPS-like", "terpene", "terpene-precursor", "T2PKS", "arylpolyene", "HR-T2PKS", "PKS-like",
              "lanthipeptide-class-i", "lanthipeptide-class-ii", "RiPP-like", "bottromycin", "siderophore", "ectoine",
              "betalactone", "hglE-KS", "transAT-PKS", "T3PKS", "phosphonate", "NAPAA", "CDPS", "indole", "butyrolactone"]


def gen_selection(rng):
    """ two to eight rule names for --hmmdetection-limit-to-rule-names, in a random order, sometimes one twice """
    names = rng.sample(SELECTABLE, rng.choice([2, 2, 3, 4, 5, 8]))
    if rng.random() < 0.2:
        names.append(rng.choice(names))
    return {"names": names, "taxon": rng.choice(["bacteria", "bacteria", "fungi"])}


def gen_domain_batches(rng):
    """ two to four add_domains calls on one qualifier: names recur inside a call and between calls, a later call brings
        several new names """
    pool = rng.sample(DOMAINS + ["PF00109", "PF02801", "AMP-binding", "Condensation", "p11", "p3", "PP-binding", "KR"], rng.choice([4, 6, 9]))
    return {"batches": [[rng.choice(pool) for _ in range(rng.choice([1, 2, 3, 4, 6]))] for _ in range(rng.choice([2, 2, 3, 4]))]}


GENERATORS = {21: gen_domain_batches, 20: gen_selection, 1: gen_refine, 2: gen_refine, 3: gen_pipeline, 4: gen_formation, 5: gen_unique, 6: gen_strings, 7: gen_notes,
              8: gen_annotate, 9: gen_filter, 10: gen_terpene, 11: gen_terpene_e2e, 12: gen_crossing, 13: gen_regions}


# ====================================================================== child: the real code

def perturb(rng, keep):
    """ shifts the allocator state so that objects created afterwards get other addresses """
    for _ in range(rng.randrange(0, 40)):
        keep.append([object() for _ in range(rng.randrange(1, 6))])


def enc_str(text):
    return [len(text)] + [ord(c) for c in text]


def enc_strs(items):
    out = [len(items)]
    for item in items:
        out += enc_str(item)
    return out


def child_refine(fn, args, _rng, _keep):
    import c13
    from antismash.common.hmmscan_refinement import gather_by_query
    table, hits, split = args["table"], [tuple(h) for h in args["hits"]], args["split"]
    names = [c13.prof_name(i, reg) for i, (_p, _l, reg) in enumerate(table)]
    index = {n: i for i, n in enumerate(names)}
    nres = max(split) + 1 if split else 0
    results = [types.SimpleNamespace(hsps=[]) for _ in range(nres)]
    for (gene, prof, start, end, evalue, score), where in zip(hits, split):
        results[where].hsps.append(types.SimpleNamespace(query_id=f"g{gene:03d}", hit_id=names[prof], query_start=start,
                                                         query_end=end, evalue=evalue * EV_UNIT, bitscore=score / 2))
    observed = []
    for gene, members in gather_by_query(results).items():
        for hit in list(members):
            observed.append((int(gene[1:]), index[hit.hit_id], hit.query_start, hit.query_end,
                             round(hit.evalue / EV_UNIT), int(hit.bitscore * 2)))
    flat = [PROP, fn, len(table)]
    for entry in table:
        flat += [int(entry[0]), entry[1], int(entry[2])]
    flat.append(len(observed))
    for hit in observed:
        flat += list(hit)
    out = c13.impl_refine(fn, table, hits, split)
    return [(flat, out)], {}


def loc_text(location):
    return str(location)


def child_pipeline(_fn, args, _rng, _keep):
    """ fn 3 + the end-to-end dumps; also yields a fn 6 case for enabled_types """
    import io
    import detect_util
    from Bio import SeqIO
    from antismash.common import serialiser
    from antismash.common import json as asjson
    from antismash.detection import hmm_detection
    length, rules, names, genes, hits = args["length"], args["rules"], args["rule_names"], args["genes"], args["hits"]
    second = args.get("second") or [False] * len(rules)
    hits2 = args.get("hits2") or {}
    categories = args.get("categories") or ["c"] * len(rules)
    text = "\n".join(f"RULE {names[i]} CATEGORY {categories[i]} CUTOFF {c // 1000} NEIGHBOURHOOD {nb // 1000} CONDITIONS "
                     + (f"p{i} or q{i}" if second[i] else f"p{i}") for i, (c, nb) in enumerate(rules))
    profiles = [f"p{i}" for i in range(len(rules))] + [f"q{i}" for i in range(len(rules)) if second[i]]
    gene_profiles = {}
    for name, _iv, _st in genes:
        found = {f"p{i}" for i in hits.get(name, ())} | {f"q{i}" for i in hits2.get(name, ()) if second[i]}
        if found:
            gene_profiles[name] = found
    flat = [PROP, 3, length, len(rules)]
    for i, (c, nb) in enumerate(rules):
        anchors = [(int(name[1:]), iv) for name, iv, _ in genes
                   if i in hits.get(name, ()) or (second[i] and i in hits2.get(name, ()))]
        flat += [c, nb, len(anchors)] + [x for gid, iv in anchors for x in (gid, iv[0], iv[1])]
    dumps = {}
    pairs = []
    try:
        record = detect_util.make_record(length, False, [(n, [(s, e, st)]) for n, (s, e), st in genes])
        record.id = "rec"
        record.name = "rec"
        record.record_index = 1
        ruleset = detect_util.make_ruleset(text, profiles, gene_profiles, categories=tuple(sorted(set(categories))))
        original = hmm_detection.get_ruleset
        hmm_detection.get_ruleset = lambda _options: ruleset
        try:
            options = types.SimpleNamespace(hmmdetection_strictness="strict", hmmdetection_limit_to_rules=[],
                                            hmmdetection_limit_to_categories=[], taxon="bacteria")
            observed_names = list(ruleset.get_rule_names())
            hres = hmm_detection.run_on_record(record, None, options)
        finally:
            hmm_detection.get_ruleset = original
        result = hres.rule_results
        per_rule = [[] for _ in rules]
        for proto in result.protoclusters:
            idx = names.index(proto.product)
            core, full = detect_util.loc_parts(proto.core_location), detect_util.loc_parts(proto.location)
            if len(core) != 1 or len(full) != 1:
                per_rule[idx].append((-7, -7, -7, -7))
                continue
            per_rule[idx].append(core[0] + full[0])
        out = [len(rules)]
        for protos in per_rule:
            protos.sort()
            out += [len(protos)] + [x for p in protos for x in p]
        pairs.append((flat, out))
        pairs.append(([PROP, 6] + enc_strs(observed_names), enc_strs(list(hres.enabled_types))))
        # definition_domains of every gene result
        all_cds_results = [r for rs in result.cds_by_cluster.values() for r in rs] + list(result.cdses_outside_clusters)
        for cds_result in all_cds_results:
            as_json = cds_result.to_json()
            for key, members in cds_result.definition_domains.items():
                pairs.append(([PROP, 6] + enc_strs(list(members)), enc_strs(as_json["definition_domains"][key])))
        # ---- end to end
        for proto in result.protoclusters:
            record.add_protocluster(proto)
        record.create_candidate_clusters()
        record.create_regions()
        dumps["protoclusters"] = [(record.get_protocluster_number(p), p.product, loc_text(p.location), loc_text(p.core_location))
                                  for p in record.get_protoclusters()]
        dumps["candidates"] = [(record.get_candidate_cluster_number(c), str(c.kind),
                                [(record.get_protocluster_number(p), p.product) for p in c.protoclusters],
                                loc_text(c.location)) for c in record.get_candidate_clusters()]
        dumps["regions"] = [(r.get_region_number(), r.products, loc_text(r.location),
                             [record.get_candidate_cluster_number(c) for c in r.candidate_clusters])
                            for r in record.get_regions()]
        dumps["hmm_json"] = asjson.dumps(hres.to_json())
        dumps["areas_json"] = asjson.dumps(serialiser.gather_record_areas(record))
        buf = io.StringIO()
        SeqIO.write([record.to_biopython()], buf, "genbank")
        dumps["genbank"] = buf.getvalue()
        # gene functions (run_on_record has annotated the CDS features): the qualifier as written, and the GenBank text
        # with every gene_functions qualifier sorted (must be identical across children whatever the findings)
        dumps["gene_functions"] = [(cds.get_name(), cds.to_biopython()[0].qualifiers.get("gene_functions"))
                                   for cds in record.get_cds_features()]
        bio = record.to_biopython()
        for feature in bio.features:
            if "gene_functions" in feature.qualifiers:
                feature.qualifiers["gene_functions"] = sorted(feature.qualifiers["gene_functions"])
        buf = io.StringIO()
        SeqIO.write([bio], buf, "genbank")
        dumps["genbank_gene_functions_sorted"] = buf.getvalue()
        # the regions JSON of the HTML page
        # (the gene functions also appear, in qualifier order, in the description of every gene): as written, with the
        # product categories sorted, with the <br>-separated pieces of the gene descriptions sorted, and with both -
        # the last one must be identical across children whatever the findings
        dumps["_class_multi_domain"] = any(len(members) >= 2 for cds_result in all_cds_results
                                           for members in cds_result.definition_domains.values())
        dumps["_class_multi_category"] = any(len(region.product_categories) >= 2 for region in record.get_regions())
        # (convert_regions compiles a jinja template per gene, 50 ms each: run on a third of the records - a deterministic
        # function of the input, the same in every child)
        if (length + len(genes)) % 3 == 0:
            regions_js = js_regions(record)
            dumps["js_regions"] = json.dumps(regions_js)
            sorted_categories = json.loads(dumps["js_regions"])
            for region in sorted_categories:
                region["product_categories"] = sorted(region["product_categories"])
            dumps["js_regions_categories_sorted"] = json.dumps(sorted_categories)
            for variant, key in ((regions_js, "js_regions_descriptions_sorted"), (sorted_categories, "js_regions_both_sorted")):
                for region in variant:
                    for orf in region.get("orfs", []):
                        orf["description"] = "<br>".join(sorted(str(orf.get("description", "")).split("<br>")))
                dumps[key] = json.dumps(variant)
        # class tests for the recorded findings
        tied_unique = False
        for region in record.get_regions():
            keys = [(int(p.location.start), len(p.location)) for p in region.get_unique_protoclusters()]
            tied_unique = tied_unique or len(set(keys)) != len(keys)
        singles = [(loc_text(c.location)) for c in record.get_candidate_clusters() if c.kind.name == "SINGLE"]
        dumps["_class_unique_tied"] = tied_unique
        same = [(loc_text(p.location), p.product) for p in record.get_protoclusters()]
        dumps["_class_same_product_tied"] = len(set(same)) != len(same)
        dumps["_class_singles_tied"] = len(set(singles)) != len(singles)
    except Exception as exc:  # pylint: disable=broad-except
        if not pairs:
            pairs.append((flat, [-1, err_code(exc)]))
        dumps["error"] = type(exc).__name__ + ": " + str(exc)[:200]
    return pairs, dumps


_JS_OPTIONS = []


def js_regions(record):
    """ outputs/html/js.py convert_regions on the record (no module results) """
    from antismash.outputs.html import js
    if not _JS_OPTIONS:
        from antismash.config import build_config, update_config
        from antismash.outputs import html
        _JS_OPTIONS.append(build_config([], isolated=True, modules=[html]))
        update_config({"all_enabled_modules": []})
    return js.convert_regions(record, _JS_OPTIONS[0], {})


def child_annotate(_fn, args, _rng, _keep):
    from antismash.common.hmm_rule_parser.cluster_prediction import CDSResults
    from antismash.common.secmet.qualifiers import SecMetQualifier, GeneFunction
    from antismash.common.secmet.test.helpers import DummyCDS
    defs = {}
    for ctype, domains in args["defs"]:
        members = set()
        for domain in domains:
            members.add(domain)
        defs[ctype] = members
    observed = [(ctype, list(members)) for ctype, members in defs.items()]
    cds = DummyCDS(locus_tag="x")
    result = CDSResults(cds, [SecMetQualifier.Domain("zz_other", 1e-10, 50., 10, "tool")], defs)
    result.annotate("tool")
    core = [(f.description, f.product) for f in cds.gene_functions if f.function == GeneFunction.CORE]
    flat = [PROP, 8, len(observed)]
    for ctype, members in observed:
        flat += enc_str(ctype) + enc_strs(members)
    out = [len(core)]
    for domain, ctype in core:
        out += enc_str(domain) + enc_str(ctype)
    return [(flat, out)], {"qualifier": cds.to_biopython()[0].qualifiers.get("gene_functions")}


class LaidOutHit:  # pylint: disable=too-few-public-methods
    """ stand-in for Bio's HSP as filter_results uses it: identity equality AND identity hash """
    def __init__(self, hid, prof, start, end, score):
        self.hid = hid
        self.query_id = f"prof{prof:02d}"
        self.hit_start = start
        self.hit_end = end
        self.bitscore = score / 2


def child_filter(_fn, args, rng, keep):
    from antismash.common.hmm_rule_parser import cluster_prediction as cp
    eqgs, order, cds = args["eqgs"], args["order"], args["cds"]
    specs = {hit[0]: hit for hits in cds for hit in hits}
    creation = list(specs)
    rng.shuffle(creation)
    objs = {}
    for hid in creation:
        perturb(rng, keep)
        _h, prof, start, end, score, _rank = specs[hid]
        objs[hid] = LaidOutHit(hid, prof, start, end, score)
    by_id = {f"c{i:03d}": [objs[hit[0]] for hit in hits] for i, hits in enumerate(cds)}
    results = [objs[h] for h in order]
    groups = [set(f"prof{p:02d}" for p in group) for group in eqgs]
    try:
        results, by_id = cp.filter_results(results, by_id, groups)
        out = [0, len(results)] + [h.hid for h in results] + [len(by_id)]
        for key in sorted(by_id):
            out += [len(by_id[key])] + [h.hid for h in by_id[key]]
    except Exception as exc:  # pylint: disable=broad-except
        out = [1, err_code(exc)]
    return [], {"kept": out}


def child_terpene(_fn, args, _rng, _keep):
    import c13
    from antismash.common.hmmscan_refinement import gather_by_query
    from antismash.modules.terpene import terpene_analysis
    table, hits, split = args["table"], [tuple(h) for h in args["hits"]], args["split"]
    names = [c13.prof_name(i, reg) for i, (_p, _l, reg) in enumerate(table)]
    index = {n: i for i, n in enumerate(names)}
    lengths = {names[i]: length for i, (present, length, _r) in enumerate(table) if present}

    def scan():
        nres = max(split) + 1 if split else 0
        results = [types.SimpleNamespace(hsps=[]) for _ in range(nres)]
        for (gene, prof, start, end, evalue, score), where in zip(hits, split):
            results[where].hsps.append(types.SimpleNamespace(query_id=f"g{gene:03d}", hit_id=names[prof], query_start=start,
                                                             query_end=end, evalue=evalue * EV_UNIT, bitscore=score / 2))
        return results
    observed = []
    for gene, members in gather_by_query(scan()).items():
        for hit in list(members):
            observed.append((int(gene[1:]), index[hit.hit_id], hit.query_start, hit.query_end,
                             round(hit.evalue / EV_UNIT), int(hit.bitscore * 2)))
    flat = [PROP, 10, len(table)]
    for entry in table:
        flat += [int(entry[0]), entry[1], int(entry[2])]
    flat.append(len(observed))
    for hit in observed:
        flat += list(hit)
    try:
        refined = terpene_analysis.filter_incomplete(scan(), lengths)
        out = [0, len(refined)]
        for gene in sorted(refined):
            out += [int(gene[1:]), len(refined[gene])]
            for hit in refined[gene]:
                out += [index[hit.hit_id], hit.query_start, hit.query_end, round(hit.evalue / EV_UNIT), int(hit.bitscore * 2)]
    except Exception as exc:  # pylint: disable=broad-except
        out = [1, err_code(exc)]
    return [(flat, out)], {}


def terpene_canonical(as_json):
    """ the prediction JSON with exactly the order effects of the (repaired) terpene findings undone: subtypes sorted
        (terpene_subtypes_set_order); substrates / products of every reaction and the top level products list sorted
        (terpene_reaction_intersection_set_order; the data-file order of unmerged reactions is fixed, sorting hides
        nothing else); the reactions list of a domain and the domain list of a gene sorted (their order follows the order of
        the group's hits = the tie order of filter_incomplete, terpene_start_tie_set_order) """
    out = {"cds_predictions": {}, "products": sorted(as_json.get("products", []))}
    for cds, domains in as_json["cds_predictions"].items():
        new_domains = []
        for domain in domains:
            new = dict(domain)
            new["subtypes"] = sorted(domain["subtypes"])
            if "reactions" in domain:
                reactions = [{"substrates": sorted(r["substrates"]), "products": sorted(r["products"])}
                             for r in domain["reactions"]]
                new["reactions"] = sorted(reactions, key=lambda r: (r["substrates"], r["products"]))
            new_domains.append(new)
        new_domains.sort(key=lambda d: (d["start"], d["end"], d["domain_type"], d["subtypes"],
                                        json.dumps(d.get("reactions", []))))
        out["cds_predictions"][cds] = new_domains
    return out


def child_terpene_e2e(_fn, args, _rng, _keep):
    from antismash.common.secmet.test.helpers import DummyProtocluster
    from antismash.modules.terpene import terpene_analysis
    from antismash.modules.terpene.data_loader import load_hmm_properties, load_hmm_lengths
    hits = args["hits"]
    by_gene = {}
    for gene, prof, start, end, evalue, score in hits:
        by_gene.setdefault(gene, []).append(types.SimpleNamespace(query_id=gene, hit_id=prof, query_start=start,
                                                                  query_end=end, evalue=evalue, bitscore=score))
    scan = [types.SimpleNamespace(id=gene, hsps=hsps) for gene, hsps in by_gene.items()]
    cluster = DummyProtocluster(start=0, end=3000, core_start=100, core_end=200, product="terpene",
                                product_category="terpene")
    original = terpene_analysis.run_terpene_hmmscan
    terpene_analysis.run_terpene_hmmscan = lambda _cds_features: scan
    try:
        as_json = terpene_analysis.analyse_cluster(cluster).to_json()
    except Exception as exc:  # pylint: disable=broad-except
        return [], {"error": type(exc).__name__ + ": " + str(exc)[:200]}
    finally:
        terpene_analysis.run_terpene_hmmscan = original
    dumps = {"terpene_raw": json.dumps(as_json, sort_keys=True),
             "terpene_canon": json.dumps(terpene_canonical(as_json), sort_keys=True),
             "terpene_subtypes": [[d["subtypes"] for d in ds] for _cds, ds in sorted(as_json["cds_predictions"].items())],
             # tuples as written, the LIST of reactions sorted (its order belongs to the filter_incomplete class)
             "terpene_reaction_tuples": [[sorted((r["substrates"], r["products"]) for r in d.get("reactions", [])) for d in ds]
                                         for _cds, ds in sorted(as_json["cds_predictions"].items())]
                                        + [as_json.get("products", [])]}
    starts = {}
    tie = False
    for gene, _prof, start, *_rest in hits:
        seen = starts.setdefault(gene, set())
        tie = tie or start in seen
        seen.add(start)
    dumps["_f5"] = tie
    dumps["_f6"] = any(len(d["subtypes"]) >= 2 for ds in as_json["cds_predictions"].values() for d in ds)
    props = load_hmm_properties()
    refined = terpene_analysis.filter_by_score(terpene_analysis.filter_incomplete(scan, load_hmm_lengths(props)), props)
    merged = False
    for results in refined.values():
        for group in terpene_analysis.group_hmm_results(results):
            profiles = [props[h.hit_id] for h in group]
            if sum(1 for prof in profiles if prof.reactions) >= 2:
                for reaction in terpene_analysis.merge_reactions_by_substrate(profiles):
                    merged = merged or len(reaction.substrates) >= 2 or len(reaction.products) >= 2
    dumps["_f7"] = merged
    return [], dumps


def child_formation(_fn, args, rng, keep):
    """ (a) real identity-hashed Protoclusters created in a permuted order between allocations: compared with the model at
        the ascending-id enumeration (fn 4) - whatever order the sets really had;
        (b) the same configuration with Protoclusters whose hash is ((id + 1) * a) mod 7 (all ids <= 6: distinct values
        below the smallest set table size, so CPython iterates every set in ascending hash): the enumeration
        FO.en_hash a 0 7 of the model, compared with fn 15 - ties the model to the code at enumerations OTHER than
        ascending id, at every site where the model says a set is iterated """
    import c05
    from antismash.common.secmet.features import Protocluster
    from antismash.common.secmet.features.candidate_cluster import formation
    cls = c05.classes()
    config, order = args["config"], args["order"]
    config = {"n": config["n"], "circular": config["circular"],
              "genes": [(g, [tuple(p) for p in parts], prods) for g, parts, prods in config["genes"]],
              "protos": [(p, [tuple(x) for x in e], [tuple(x) for x in c], q) for p, e, c, q in config["protos"]]}

    class LaidOutProtocluster(Protocluster):  # pylint: disable=too-few-public-methods
        """ a real Protocluster (identity hash) that remembers its number in the configuration """
        __slots__ = ["vid"]

    class ScrambledProtocluster(Protocluster):  # pylint: disable=too-few-public-methods
        """ a Protocluster whose hash is chosen (identity equality as ever) """
        __slots__ = ["vid", "chosen_hash"]

        def __hash__(self):
            return self.chosen_hash

    def run(proto_class, chosen_hash):
        record = cls["Record"](seq="A" * config["n"], circular=config["circular"])
        genes = {}
        for gid, parts, products in config["genes"]:
            cds = cls["CDS"](location=c05.mk_loc(parts), locus_tag=f"g{gid}")
            for prod in products:
                cds.gene_functions.add(cls["GF"].CORE, "tool", "desc", c05.product_name(prod))
            record.add_cds_feature(cds)
            genes[gid] = cds
        creation = list(range(len(config["protos"])))
        rng.shuffle(creation)
        made = {}
        for i in creation:
            perturb(rng, keep)
            pid, extent, core, prod = config["protos"][i]
            proto = proto_class(c05.mk_loc(core), c05.mk_loc(extent), tool="t", product=c05.product_name(prod),
                                cutoff=1, neighbourhood_range=0, detection_rule="r")
            proto.vid = pid
            if chosen_hash is not None:
                proto.chosen_hash = chosen_hash(pid)
            made[i] = proto
        protos = [made[i] for i in range(len(config["protos"]))]
        for proto in protos:
            record.add_protocluster(proto)
        gid_of = {id(cds): gid for gid, cds in genes.items()}
        defs = [sorted(gid_of[id(cds)] for cds in proto.definition_cdses) for proto in protos]
        wrap = config["n"] if config["circular"] else None
        flat = c05.flat_direct(config, order, defs)
        flat[0], flat[1] = PROP, 4
        try:
            cands = common.call_with_timeout(
                lambda: formation.create_candidates_from_protoclusters([protos[i] for i in order], circular_wrap_point=wrap), 10)
            out = c05.enc_cands(cands)
        except Exception as exc:  # pylint: disable=broad-except
            out = [1, err_code(exc)]
        return flat, out
    flat, out = run(LaidOutProtocluster, None)
    pairs = [(flat, out)]
    if all(0 <= pid <= 6 for pid, _e, _c, _q in config["protos"]):
        for mult in (3, 5):
            flat_h, out_h = run(ScrambledProtocluster, lambda pid, mult=mult: ((pid + 1) * mult) % 7)
            pairs.append(([PROP, 15, mult, 0, 7] + flat_h[2:], out_h))
    return pairs, {}


def child_unique(_fn, args, rng, keep):
    from antismash.common.secmet.features import Protocluster, CandidateCluster, Region
    from antismash.common.secmet.features.candidate_cluster import CandidateClusterKind
    from antismash.common.secmet.locations import FeatureLocation, CompoundLocation
    n, crossing, specs, groups = args["n"], args["crossing"], args["protos"], args["groups"]
    specs = [tuple(spec) + (None,) * (4 - len(spec)) for spec in specs]
    products = sorted({spec[2] for spec in specs})

    class LaidOutProtocluster(Protocluster):  # pylint: disable=too-few-public-methods
        __slots__ = ["vid"]

    def mk(start, end):
        if end < start:
            return CompoundLocation([FeatureLocation(start, n, 1), FeatureLocation(0, end, 1)])
        return FeatureLocation(start, end, 1)
    creation = list(range(len(specs)))
    rng.shuffle(creation)
    made = {}
    try:
        for i in creation:
            perturb(rng, keep)
            start, end, prod, core = specs[i]
            core_loc = mk(start, end) if not core else mk(core[0], core[1])
            proto = LaidOutProtocluster(core_loc, mk(start, end), tool="t", product=f"p{products.index(prod):02d}",
                                        cutoff=1, neighbourhood_range=0, detection_rule="r")
            proto.vid = i
            made[i] = proto
        wrap = n if crossing else None
        cands = []
        for group in groups:
            kind = CandidateClusterKind.SINGLE if len(group) == 1 else CandidateClusterKind.NEIGHBOURING
            cands.append(CandidateCluster(kind, [made[i] for i in group], circular_wrap_point=wrap))
        region = Region(candidate_clusters=cands)
    except Exception as exc:  # pylint: disable=broad-except
        return [], {"construction_failed": type(exc).__name__}
    # the set the function builds, built the same way: its enumeration order
    clusters = set()
    for cand in region.candidate_clusters:
        clusters.update(cand.protoclusters)
    observed = list(clusters)
    is_crossing = bool(region.crosses_origin())
    if not is_crossing and any(spec[1] < spec[0] for spec in specs):
        # a region covering the whole record holding origin-crossing protoclusters: the branch for regions that do
        # not cross the origin then compares bridging locations, which the model of that branch does not cover
        return [], {"skipped": "whole_record_region_with_bridging_protoclusters"}
    length = int(region.location.parts[0].end) if is_crossing else n
    flat = [PROP, 5, int(is_crossing), length, len(observed)]
    for proto in observed:
        flat += [proto.vid, int(proto.start), int(proto.end), len(proto.location), int(proto.product[1:]),
                 int(proto.core_start), int(proto.core_end)]
    try:
        out_list = region.get_unique_protoclusters()
        ids = [p.vid for p in out_list]
        out = [len(ids)] + ids
    except Exception as exc:  # pylint: disable=broad-except
        return [], {"call_failed": type(exc).__name__}
    return [(flat, out)], {"crossing": is_crossing}


def child_strings(_fn, args, _rng, _keep):
    from antismash.common.hmm_rule_parser.cluster_prediction import CDSResults
    from antismash.common.secmet.test.helpers import DummyCDS
    words = args["words"]
    members = set()
    for word in words:
        members.add(word)
    result = CDSResults(DummyCDS(locus_tag="x"), [types.SimpleNamespace(to_json=dict)], {"rule": members})
    observed = list(result.definition_domains["rule"])
    out = result.to_json()["definition_domains"]["rule"]
    return [([PROP, 6] + enc_strs(observed), enc_strs(list(out)))], {}


def child_notes(_fn, args, rng, _keep):
    from antismash.common.secmet.features import Feature
    from antismash.common.secmet.locations import FeatureLocation
    notes, keys = list(args["notes"]), list(args["keys"])
    given_notes = list(notes)
    rng.shuffle(given_notes)          # the order in which annotations arrive is not part of the input
    given_keys = list(keys)
    rng.shuffle(given_keys)
    feature = Feature(FeatureLocation(1, 10, 1), feature_type="misc_feature")
    for note in given_notes:
        feature.notes.append(note)
    bio = feature.to_biopython({key: ["v"] for key in given_keys})[0]
    out_notes = list(bio.qualifiers.get("note", []))
    out_keys = [key for key in bio.qualifiers if key != "note"]
    return [([PROP, 7] + enc_strs(given_notes), enc_strs(out_notes)),
            ([PROP, 7] + enc_strs(given_keys), enc_strs(out_keys))], {}


def child_crossing(_fn, args, _rng, _keep):
    """ fn 12: the whole rule-based detection on a circular record; the enumeration of every set of gene names that
        find_protoclusters iterates is observed through apply_cluster_rules (same process, same insertion history = same
        order); flat = run function 16 of the model (C03's pipeline at that enumeration) """
    import io
    import c03
    import detect_util
    from Bio import SeqIO
    from antismash.common import serialiser
    from antismash.common import json as asjson
    from antismash.common.hmm_rule_parser import cluster_prediction
    length, hits = args["length"], args["hits"]
    rules = [(c, nb, cond, ext, list(sups)) for c, nb, cond, ext, sups in args["rules"]]
    genes = [(name, [tuple(part) for part in parts]) for name, parts in args["genes"]]
    text = c03.rules_text(rules)
    profiles = [f"p{x}" for x in range(c03.NPROF)]
    try:
        record = detect_util.make_record(length, True, genes)
        record.id = "rec"
        record.name = "rec"
        record.record_index = 1
        ruleset = detect_util.make_ruleset(text, profiles, {name: set(profs) for name, profs in hits.items()})
    except Exception as exc:  # pylint: disable=broad-except
        return [], {"construction_failed": type(exc).__name__}
    index = {name: i for i, (name, _) in enumerate(genes)}
    ordered = [(index[cds.get_name()], c03.loc_triples(cds.location)) for cds in record.get_cds_features()]
    dyn = cluster_prediction.find_dynamic_hits(record, list(ruleset.dynamic_profiles.values()), {})
    payload = [length, 1, len(ordered)]
    for gid, parts in ordered:
        payload += [gid] + c03.enc_loc_parts(parts)
    payload.append(len(dyn))
    for name, dhits in dyn.items():
        payload += [index[name], len(dhits)]
        for hit in dhits:
            payload += [int(hit.query_id[1:]), int(2 * hit.bitscore)]
    payload.append(len(ruleset.rules))
    for rule in ruleset.rules:
        payload += [rule.cutoff, rule.neighbourhood] + c03.enc_cond(rule.conditions)
        payload += ([1] + c03.enc_cond(rule.extenders)) if rule.extenders else [0]
        payload += [len(rule.superiors)] + [int(sup[1:]) for sup in rule.superiors]
    dumps = {}
    observed = []
    tie = False
    try:
        _domains, type_hits = cluster_prediction.apply_cluster_rules(record, {name: list(found) for name, found in dyn.items()},
                                                                    ruleset.rules)
        rule_names = [rule.name for rule in ruleset.rules]
        for name, members in type_hits.items():
            listed = list(members)
            observed.append((rule_names.index(name), [index[gene] for gene in listed]))
            feats = [record.get_cds_by_name(gene) for gene in listed]
            for i, one in enumerate(feats):
                for other in feats[:i]:
                    if not one < other and not other < one \
                            and sorted(detect_util.loc_parts(one.location)) != sorted(detect_util.loc_parts(other.location)):
                        # same (start, length) key, other exons: the class crossing_anchor_key_tie_set_order when the
                        # two cross the origin (ties between other genes are harmless: proved for single parts, and such
                        # genes end up in the same core)
                        if one.location.crosses_origin() and other.location.crosses_origin():
                            tie = True
    except Exception as exc:  # pylint: disable=broad-except
        dumps["observation_error"] = type(exc).__name__ + ": " + str(exc)[:200]
    dumps["_class_crossing_key_tie"] = tie
    flat = [PROP, 16, len(observed)]
    for rule_index, ids in observed:
        flat += [rule_index, len(ids)] + ids
    flat += payload
    pairs = []
    try:
        result = detect_util.detect(record, ruleset)
        protos = []
        for proto in result.protoclusters:
            protos.append([int(proto.product[1:])] + c03.enc_loc_parts(c03.loc_triples(proto.core_location))
                          + c03.enc_loc_parts(c03.loc_triples(proto.location)))
        protos.sort()
        pairs.append((flat, [0, len(protos)] + [x for p in protos for x in p]))
    except Exception as exc:  # pylint: disable=broad-except
        pairs.append((flat, [1, err_code(exc)]))
        dumps["error"] = type(exc).__name__ + ": " + str(exc)[:200]
        return pairs, dumps
    try:
        dumps["returned"] = [(p.product, loc_text(p.core_location), loc_text(p.location)) for p in result.protoclusters]
        dumps["hmm_json"] = asjson.dumps(result.to_json())
        for proto in result.protoclusters:
            record.add_protocluster(proto)
        dumps["protoclusters"] = [(record.get_protocluster_number(p), p.product, loc_text(p.location), loc_text(p.core_location))
                                  for p in record.get_protoclusters()]
        record.create_candidate_clusters()
        record.create_regions()
        dumps["candidates"] = [(record.get_candidate_cluster_number(c), str(c.kind),
                                [(record.get_protocluster_number(p), p.product) for p in c.protoclusters],
                                loc_text(c.location)) for c in record.get_candidate_clusters()]
        dumps["regions"] = [(r.get_region_number(), r.products, loc_text(r.location),
                             [record.get_candidate_cluster_number(c) for c in r.candidate_clusters])
                            for r in record.get_regions()]
        dumps["areas_json"] = asjson.dumps(serialiser.gather_record_areas(record))
        buf = io.StringIO()
        SeqIO.write([record.to_biopython()], buf, "genbank")
        dumps["genbank"] = buf.getvalue()
    except Exception as exc:  # pylint: disable=broad-except
        dumps["error"] = type(exc).__name__ + ": " + str(exc)[:200]
    return pairs, dumps


def child_regions(_fn, args, rng, keep):
    """ fn 13: candidate clusters and regions of a circular record, built under several allocation layouts and with forced
        hashes of the subregions / protoclusters (a set of areas iterated anywhere then comes out in another order) """
    import io
    from Bio import SeqIO
    from antismash.common import serialiser
    from antismash.common import json as asjson
    from antismash.common.secmet.features import Protocluster, SubRegion
    from antismash.common.secmet.locations import CompoundLocation, FeatureLocation
    from antismash.common.secmet.test.helpers import DummyCDS, DummyRecord
    length = args["length"]
    protos = [tuple(p) for p in args["protos"]]
    subs = [tuple(sub) for sub in args["subs"]]

    class HashedSubRegion(SubRegion):  # pylint: disable=too-few-public-methods
        """ a SubRegion whose hash is chosen (identity equality as ever) """
        __slots__ = ["chosen_hash"]

        def __hash__(self):
            return self.chosen_hash

    class HashedProtocluster(Protocluster):  # pylint: disable=too-few-public-methods
        __slots__ = ["chosen_hash"]

        def __hash__(self):
            return self.chosen_hash

    def mk(start, end):
        if end < start:
            return CompoundLocation([FeatureLocation(start, length, 1), FeatureLocation(0, end, 1)])
        return FeatureLocation(start, end, 1)

    def build(chosen_hash):
        record = DummyRecord(seq="A" * length, circular=True)
        record.id = "rec"
        record.name = "rec"
        record.record_index = 1
        marks = sorted({p[2] for p in protos} | {p[3] for p in protos} | {s[0] for s in subs})
        for i, pos in enumerate(marks):
            if pos + 90 <= length:
                record.add_cds_feature(DummyCDS(pos, pos + 90, locus_tag=f"g{i}"))
        made_protos, made_subs = [], []
        for i, (start, end, core_start, core_end, product) in enumerate(protos):
            perturb(rng, keep)
            cls = Protocluster if chosen_hash is None else HashedProtocluster
            proto = cls(mk(core_start, core_end), mk(start, end), tool="t", product=product, cutoff=1,
                        neighbourhood_range=0, detection_rule="r", product_category=product)
            if chosen_hash is not None:
                proto.chosen_hash = chosen_hash(i)
            made_protos.append(proto)
        for i, (start, end, tool, label) in enumerate(subs):
            perturb(rng, keep)
            if chosen_hash is None:
                sub = SubRegion(mk(start, end), tool=tool, label=label)
            else:
                sub = HashedSubRegion(mk(start, end), tool=tool, label=label)
                sub.chosen_hash = chosen_hash(len(protos) + i)
            made_subs.append(sub)
        for proto in made_protos:
            record.add_protocluster(proto)
        for sub in made_subs:
            record.add_subregion(sub)
        record.create_candidate_clusters()
        record.create_regions()
        regions = []
        for region in record.get_regions():
            regions.append({
                "number": region.get_region_number(), "location": loc_text(region.location), "products": region.products,
                "candidates": [(cand.get_candidate_cluster_number(), str(cand.kind),
                                [(p.get_protocluster_number(), p.product) for p in cand.protoclusters])
                               for cand in region.candidate_clusters],
                "subregions": [(sub.get_subregion_number(), sub.tool, sub.label) for sub in region.subregions],
                "unique_protoclusters": [(p.get_protocluster_number(), p.product) for p in region.get_unique_protoclusters()],
                "qualifiers": sorted(region.to_biopython()[0].qualifiers.items())})
        buf = io.StringIO()
        SeqIO.write([record.to_biopython()], buf, "genbank")
        return {"regions": regions, "areas_json": asjson.dumps(serialiser.gather_record_areas(record)),
                "genbank": buf.getvalue()}
    total = len(protos) + len(subs)
    variants = [("layout 0", None), ("layout 1", None), ("layout 2", None),
                ("ascending hashes", lambda i: i + 1), ("descending hashes", lambda i: total - i),
                ("scrambled hashes", lambda i: ((i + 1) * 5) % 7 if total <= 6 else ((i + 1) * 7) % 11)]
    dumps = {}
    try:
        first = None
        for name, chosen in variants:
            made = build(chosen)
            if first is None:
                first = made
                dumps.update(made)
            elif made != first:
                differing = [key for key in made if made[key] != first[key]]
                dumps["differs_within_process"] = {"variant": name, "differing": differing,
                                                   "layout 0": {key: first[key] for key in differing[:1]},
                                                   name: {key: made[key] for key in differing[:1]}}
                break
    except Exception as exc:  # pylint: disable=broad-except
        dumps["error"] = type(exc).__name__ + ": " + str(exc)[:200]
    return [], dumps


_ALL_RULE_NAMES = {}


def child_selection(_fn, args, _rng, _keep):
    """ get_ruleset with the selection; the rules of the files are numbered in the order of the UNRESTRICTED ruleset """
    from antismash.config import build_config, destroy_config
    from antismash.detection import hmm_detection

    def ruleset_for(names):
        opts = ["--hmmdetection-strictness", "loose", "--taxon", args["taxon"]]
        if names:
            opts += ["--hmmdetection-limit-to-rule-names", ",".join(names)]
        destroy_config()
        options = build_config(opts, isolated=True, modules=[hmm_detection])
        hmm_detection._RULESETS.clear()  # pylint: disable=protected-access
        try:
            return hmm_detection.get_ruleset(options)
        finally:
            destroy_config()
    if args["taxon"] not in _ALL_RULE_NAMES:
        _ALL_RULE_NAMES[args["taxon"]] = [rule.name for rule in ruleset_for([]).rules]
    every = _ALL_RULE_NAMES[args["taxon"]]
    ident = {name: i for i, name in enumerate(every)}
    names = [name for name in args["names"] if name in ident]
    if len(names) < 2:
        return [], {"skipped": "fewer than two of the names are rules of this tree"}
    observed = list(set(names))          # an enumeration of the selection as a set of str in THIS process
    handed = [rule.name for rule in ruleset_for(names).rules]
    return [([PROP, 20, len(every), len(observed)] + [ident[name] for name in observed], [len(handed)] + [ident[name] for name in handed])], {}


def child_domain_batches(_fn, args, _rng, _keep):
    from antismash.common.secmet.qualifiers.secmet import SecMetQualifier
    names = sorted({name for batch in args["batches"] for name in batch})
    ident = {name: i for i, name in enumerate(names)}
    qualifier = SecMetQualifier()
    for k, batch in enumerate(args["batches"]):
        qualifier.add_domains([SecMetQualifier.Domain(name, 1e-10, 50.0 + k, 10, f"tool{k}") for name in batch])
    stored = [domain.name for domain in qualifier.domains]
    ids = list(qualifier.domain_ids)
    flat = [PROP, 21, len(args["batches"])]
    for batch in args["batches"]:
        flat += [len(batch)] + [ident[name] for name in batch]
    extra = {} if stored == ids else {"error": f"domains {stored} and domain_ids {ids} list different orders"}
    return [(flat, [len(stored)] + [ident[name] for name in stored])], extra


CHILD = {21: child_domain_batches, 20: child_selection, 1: child_refine, 2: child_refine, 3: child_pipeline, 4: child_formation, 5: child_unique, 6: child_strings,
         7: child_notes, 8: child_annotate, 9: child_filter, 10: child_terpene, 11: child_terpene_e2e,
         12: child_crossing, 13: child_regions}


def child_main(case_path, out_path, layout):
    common.setup_repo_path()
    cases = json.load(open(case_path))
    # imports happen here, outside the per-case time limit
    import c05, c13, detect_util  # noqa: F401  pylint: disable=unused-import,multiple-imports
    from Bio import SeqIO  # noqa: F401  pylint: disable=unused-import
    from antismash.common import serialiser, json as _asjson  # noqa: F401  pylint: disable=unused-import
    from antismash.detection import hmm_detection  # noqa: F401  pylint: disable=unused-import
    from antismash.common.secmet.features import Protocluster, CandidateCluster, Region, Feature  # noqa: F401  pylint: disable=unused-import
    from antismash.modules.terpene import terpene_analysis  # noqa: F401  pylint: disable=unused-import
    from antismash.outputs.html import js  # noqa: F401  pylint: disable=unused-import
    c05.classes()
    keep = []
    results = []
    for idx, case in enumerate(cases):
        rng = random.Random(layout * 1000003 + idx)
        perturb(rng, keep)
        try:
            pairs, extra = common.call_with_timeout(lambda: CHILD[case["fn"]](case["fn"], case["args"], rng, keep), 20)
        except Exception as exc:  # pylint: disable=broad-except
            pairs, extra = [], {"harness_error": type(exc).__name__ + ": " + str(exc)[:300]}
        results.append({"pairs": pairs, "extra": extra})
    with open(out_path, "w") as handle:
        json.dump({"hashseed": os.environ.get("PYTHONHASHSEED"), "results": results}, handle)
    return 0


# ====================================================================== parent

def run_children(cases, seeds, jobs=6):
    """ runs every case under every (hash seed, layout); returns {seed: [result per case]} """
    tmp = tempfile.mkdtemp(prefix="asv_c17_")
    try:
        case_path = os.path.join(tmp, "cases.json")
        with open(case_path, "w") as handle:
            json.dump(cases, handle)
        outs = {}
        pending = list(seeds)
        running = []
        failures = []
        while pending or running:
            while pending and len(running) < jobs:
                seed = pending.pop(0)
                out_path = os.path.join(tmp, f"out_{seed}.json")
                env = dict(os.environ)
                env.update({"PYTHONHASHSEED": str(seed), "PYTHONDONTWRITEBYTECODE": "1", "VERIF_REPO": common.REPO,
                            common.GUARD: "1"})
                proc = subprocess.Popen([common.PYTHON, os.path.abspath(__file__), "child", case_path, out_path, str(seed)],
                                        env=env, stdout=subprocess.PIPE, stderr=subprocess.STDOUT, text=True,
                                        cwd=os.path.dirname(os.path.abspath(__file__)))
                running.append((seed, proc, out_path))
            seed, proc, out_path = running.pop(0)
            log = proc.communicate()[0]
            if proc.returncode != 0 or not os.path.exists(out_path):
                failures.append((seed, log[-1500:]))
                continue
            outs[seed] = json.load(open(out_path))["results"]
        return outs, failures
    finally:
        import shutil
        shutil.rmtree(tmp, ignore_errors=True)


def plan(tier):
    if tier == "quick":
        return {1: 600, 2: 600, 3: 250, 4: 600, 5: 700, 6: 400, 7: 300, 8: 300, 9: 250, 10: 400, 11: 150, 12: 260, 13: 120,
                20: 40, 21: 200}, [0, 1, 2, 3, 4, 5]
    return {1: 6000, 2: 6000, 3: 1500, 4: 4500, 5: 4500, 6: 2000, 7: 1200, 8: 1200, 9: 1500, 10: 2500, 11: 600, 12: 1500, 13: 500, 20: 200, 21: 1500}, list(range(0, 18))


# the fixed witnesses of the findings C17-K1..K3 (all three repaired in the code; regression corpus, run first, every time)
# plus the same-product / other-core variants of K1 and K2
WITNESS_UNIQUE = {"fn": 5, "args": {"n": 5000, "crossing": False,
                                    "protos": [(1000, 2000, 0), (1000, 2000, 1), (1500, 3000, 2)], "groups": [[0, 1, 2]]}}
WITNESS_SINGLES = {"fn": 4, "args": {"config": {"n": 400, "circular": False, "genes": [],
                                                "protos": [(0, [(100, 200, 1)], [(110, 120, 1)], 0),
                                                           (1, [(100, 200, 1)], [(170, 180, 1)], 1),
                                                           (2, [(150, 300, 1)], [(250, 260, 1)], 2)]},
                                     "order": [0, 1, 2]}}


WITNESS_SAME_PRODUCT = {"fn": 3, "args": {
    "length": 12692, "rules": [[1000, 10000], [1000, 10000]], "rule_names": ["r2", "t1"],
    "genes": [["g1", [300, 390], 1], ["g3", [1390, 4390], -1], ["g2", [1390, 4390], 1], ["g4", [6390, 9390], 1],
              ["g5", [9390, 12390], 1], ["g0", [12391, 12691], -1]],
    "hits": {"g1": [0, 1], "g3": [0], "g2": [0, 1], "g4": [1], "g5": [0, 1], "g0": [0, 1]}}}
WITNESS_UNIQUE_CORE = {"fn": 5, "args": {"n": 5000, "crossing": False,
                                         "protos": [(1000, 2000, 0, (1100, 1200)), (1000, 2000, 0, (1700, 1800)),
                                                    (1000, 2000, 0, (1100, 1300)), (1500, 3000, 2, None)],
                                         "groups": [[0, 1, 2, 3]]}}
WITNESS_SINGLES_SAME_PRODUCT = {"fn": 4, "args": {"config": {"n": 400, "circular": False, "genes": [],
                                                             "protos": [(0, [(100, 200, 1)], [(110, 120, 1)], 0),
                                                                        (1, [(100, 200, 1)], [(170, 180, 1)], 0),
                                                                        (2, [(150, 300, 1)], [(250, 260, 1)], 2)]},
                                                  "order": [0, 1, 2]}}
# witnesses of the findings C17-K4 .. C17-K10 (all seven repaired in the code: regression corpus, run first, every time)
WITNESS_ANNOTATE = {"fn": 8, "args": {"defs": [["r1", ["PKS_KS", "PKS_AT", "ACP"]], ["t1", ["a", "b"]]]}}
WITNESS_ANNOTATE_E2E = {"fn": 3, "args": {
    "length": 9000, "rules": [[5000, 1000], [5000, 1000]], "rule_names": ["r1", "t1"],
    "genes": [["g0", [1000, 1900], 1], ["g1", [3000, 3600], 1], ["g2", [7000, 7300], -1]],
    "hits": {"g0": [0, 1], "g1": [0]}, "second": [True, True], "hits2": {"g0": [0, 1], "g1": [0]}, "categories": ["c", "c"]}}
WITNESS_JS_CATEGORIES = {"fn": 3, "args": {
    "length": 9000, "rules": [[5000, 1000], [5000, 1000], [5000, 1000]], "rule_names": ["ra", "rb", "rc"],
    "genes": [["g0", [1000, 1900], 1], ["g1", [3000, 3600], 1], ["g2", [5000, 5600], 1]],
    "hits": {"g0": [0], "g1": [1], "g2": [2]}, "second": [False, False, False], "hits2": {},
    "categories": ["NRPS", "PKS", "terpene"]}}
WITNESS_FILTER_TIE = {"fn": 9, "args": {"eqgs": [[0, 1]], "order": [0, 1, 2],
                                        "cds": [[[0, 0, 10, 200, 100, 0], [1, 1, 10, 200, 100, 1], [2, 1, 300, 400, 80, 2]]]}}
WITNESS_UNIQUE_CROSSING = {"fn": 5, "args": {"n": 1000, "crossing": True,
                                             "protos": [(900, 100, 0, (950, 980)), (900, 100, 0, (20, 60)),
                                                        (900, 100, 0, (960, 990))],
                                             "groups": [[0, 1, 2]]}}
WITNESS_TERPENE = {"fn": 10, "args": {"table": [[1, 30, 0], [1, 50, 0], [1, 40, 0]],
                                      "hits": [[0, 0, 5, 40, 1, 20], [0, 1, 5, 60, 1, 20], [0, 2, 5, 50, 1, 20]],
                                      "split": [0, 0, 0]}}
WITNESS_TERPENE_PREDICTION = {"fn": 11, "args": {"hits": [["g1", "PT_FPPS_like", 10, 130, 1e-30, 150.0],
                                                         ["g1", "TS_UbiA", 10, 130, 1e-30, 150.0]]}}
WITNESS_TERPENE_SUBTYPES = {"fn": 11, "args": {"hits": [["g1", "T1TS_III-IV_a", 10, 330, 1e-50, 400.0],
                                                       ["g1", "T1TS_III-IV_c", 12, 330, 1e-50, 400.0],
                                                       ["g1", "T1TS_III-IV_b", 14, 330, 1e-50, 400.0]]}}
WITNESS_TERPENE_REACTIONS = {"fn": 11, "args": {"hits": [["g1", "PT_FPPS_like", 10, 290, 1e-50, 400.0],
                                                        ["g1", "PT_noFPP_bact", 12, 260, 1e-50, 400.0]]}}
# round 4: two or more origin-crossing genes satisfying one rule (a short one nested in a long one), a further gene after the
# origin within the cutoff of the long one only, and a superior rule hitting that gene: the order of the cores of the
# origin-crossing genes is observable (three namings of the genes: other string hashes, other set orders)
def crossing_witness(names, tie=False):
    xa, xb, c1, cn = names
    if tie:
        # same start and length, other exons (so another end): Feature.__lt__ does not separate the two
        genes = [[xb, [[99001, 100000, 1], [0, 3000, 1]]],
                 [xa, [[99001, 99100, 1], [99900, 100000, 1], [0, 3800, 1]]],
                 [c1, [[4400, 4700, 1]]], [cn, [[50000, 50600, 1]]]]
        rules = [[1, 1, "p1", None, []], [1, 1, "p0", None, [0]]]
    else:
        genes = [[xa, [[99700, 100000, 1], [0, 200, 1]]], [xb, [[99001, 100000, 1], [0, 3000, 1]]],
                 [c1, [[4000, 4600, 1]]], [cn, [[50000, 50600, 1]]]]
        rules = [[2, 1, "p1", None, []], [2, 1, "p0", None, [0]]]
    return {"fn": 12, "args": {"length": 100000, "rules": rules, "genes": genes,
                               "hits": {xa: ["p0"], xb: ["p0"], c1: ["p0", "p1"], cn: ["p0"]}}}


NAMINGS = [("xa", "xb", "c1", "cn"), ("orf1", "orf2", "orf3", "orf10"), ("A", "B", "C", "D"), ("SCO1", "SCO2", "lt_0001", "z")]
WITNESSES_CROSSING = [crossing_witness(names) for names in NAMINGS[:3]]
# finding C17-K11 crossing_anchor_key_tie_set_order (four namings)
WITNESSES_CROSSING_TIE = [crossing_witness(names, tie=True) for names in NAMINGS]
# round 4: twin subregions in a section that is merged into the origin-crossing first section
WITNESS_REGION_TWINS = {"fn": 13, "args": {"length": 100000,
                                           "protos": [[97000, 3000, 98500, 1400, "T1PKS"], [45000, 55000, 50000, 50900, "terpene"]],
                                           "subs": [[95000, 98000, "toolA", "islandA"], [95000, 98000, "toolB", "islandB"]]}}
WITNESSES = WITNESSES_CROSSING + WITNESSES_CROSSING_TIE + [
             WITNESS_REGION_TWINS, WITNESS_UNIQUE, WITNESS_SINGLES, WITNESS_SAME_PRODUCT, WITNESS_UNIQUE_CORE, WITNESS_SINGLES_SAME_PRODUCT,
             WITNESS_ANNOTATE, WITNESS_ANNOTATE_E2E, WITNESS_JS_CATEGORIES, WITNESS_FILTER_TIE, WITNESS_UNIQUE_CROSSING,
             WITNESS_TERPENE, WITNESS_TERPENE_PREDICTION, WITNESS_TERPENE_SUBTYPES, WITNESS_TERPENE_REACTIONS]


def filter_model_outputs(fr_cases):
    """ fr_cases: {case index: args of fn 9}; -> {case index: set of results (tuples) of C13.Model.filter_results over all
        assignments of set-iteration ranks to the hits of each gene} """
    import c13
    flats, owner = [], []
    for idx, args in fr_cases.items():
        eqgs, order, cds = args["eqgs"], args["order"], args["cds"]
        per_gene = [list(itertools.permutations(range(len(hits)))) for hits in cds]
        for choice in itertools.product(*per_gene):
            variant = [[tuple(hit[:5]) + (ranks[j],) for j, hit in enumerate(hits)] for hits, ranks in zip(cds, choice)]
            flats.append(c13.enc_fr(eqgs, order, variant))
            owner.append(idx)
    outs = common.run_driver(flats)
    table = {idx: set() for idx in fr_cases}
    for idx, out in zip(owner, outs):
        table[idx].add(tuple(out))
    return table, len(flats)


def filter_score_tie(args):
    """ class filter_results_score_tie_set_order: two hits of one gene with the same bitscore """
    return any(len({hit[4] for hit in hits}) != len(hits) for hits in args["cds"])


def formation_ties(config):
    extents = [tuple((part[0], part[1]) for part in e) for _p, e, _c, _q in config["protos"]]
    return len(set(extents)) != len(extents)


def decode_cands(out):
    """ encoded candidate list -> list of (kind, members, location) """
    if not out or out[0] != 0:
        return None
    cands, pos = [], 2
    for _ in range(out[1]):
        kind, nmem = out[pos], out[pos + 1]
        members = tuple(out[pos + 2:pos + 2 + nmem])
        pos += 2 + nmem
        nparts = out[pos]
        loc = tuple(out[pos + 1:pos + 1 + 3 * nparts])
        pos += 1 + 3 * nparts
        cands.append((kind, members, loc))
    return cands


def coords(loc):
    return [(loc[i], loc[i + 1]) for i in range(0, len(loc), 3)]


def only_tied_singles_moved(a, b):
    """ two encoded candidate lists differ only by the order of SINGLE candidates with identical locations """
    ca, cb = decode_cands(a), decode_cands(b)
    if ca is None or cb is None or len(ca) != len(cb):
        return False
    for x, y in zip(ca, cb):
        if x == y:
            continue
        if not (x[0] == 0 and y[0] == 0 and coords(x[2]) == coords(y[2])):
            return False
    return sorted(ca) == sorted(cb)


RULE = ("every case runs in child processes with PYTHONHASHSEED = 0..5 (quick) / 0..17 (thorough), each child also creating "
        "the objects that land in identity-hashed sets in its own permuted order between random allocations (other addresses "
        "= other set order); inputs rich in ties: refinement hits with equal starts / ends / scores / e-values and duplicated "
        "fragments (generator of C13 plus equal-start clones), also through terpene filter_incomplete (plus complete hits of "
        "other profiles at the same start); filter_results on identity-hashed hit objects (generator of C13, at most 5 hits "
        "per gene, many bitscore ties; C13.Model.filter_results is evaluated for ALL rank assignments, must give one result, "
        "and every child's result must be that result); CDSResults.annotate with 1-3 cluster types of 0-4 definition domains; "
        "linear records with 1-4 rules (names chosen so that string order differs from numeric and case order; 45% of the "
        "rules with a second profile `p or q` so that genes get two definition domains; categories c/NRPS/PKS/terpene/RiPP) "
        "and genes on both strands incl. pairs with identical coordinates and equal starts, gaps on the cutoff boundaries, "
        "run end to end (run_on_record incl. annotate_cds_features, add_protocluster, create_candidate_clusters, "
        "create_regions, hmm_detection JSON, areas JSON, GenBank text as written and with sorted gene_functions qualifiers, "
        "gene_functions qualifiers, regions JSON of the HTML page (js.convert_regions; on a third of the records) "
        "as written / with sorted categories / with sorted description pieces / both); candidate "
        "formation on the C05 configurations (linear and circular without origin-crossing areas) with extra "
        "identical-coordinate protoclusters of different products, real identity-hashed Protocluster objects, and again with "
        "hashes ((id+1)*a mod 7, a = 3, 5) that force a scrambled iteration order of every set, compared with the model at "
        "that enumeration; the formation model itself evaluated at descending and three scrambled enumerations of every set; "
        "regions built directly from candidate clusters (1-6 protoclusters, identical coordinates, equal starts, "
        "origin-crossing regions with bridging protoclusters, same product and coordinates with other cores in both "
        "branches); sets of rule/profile-like strings (prefixes, case, digits, empty); notes and qualifier keys in a per-child "
        "arrival order; rule-based detection on circular records (30-100 kb) with 2-3 origin-crossing genes (nested, "
        "overlapping, multi-exon, both strands, 20% with a pair tied on the key of Feature.__lt__) mostly satisfying the same "
        "rule, an inferior rule with SUPERIORS (80%), extenders (40%), cutoffs 1-2 kb, genes at cutoff-300/-1/0/+1/+400 after "
        "every reach and before every start, far genes, gene names drawn per case (other string hashes), compared with the "
        "detection model at the enumeration each child observed through apply_cluster_rules, at record order and at reversed "
        "record order, and continued end to end; regions of circular records with an origin-crossing first section "
        "(protocluster or subregion, 30% with a twin), an unconnected area in the middle (80%), 0-3 subregions shortly before "
        "the origin overlapping the first area (identical coordinates or 100 bp apart), twin protoclusters there and "
        "subregions after the origin, each built under three allocation layouts and with ascending / descending / scrambled "
        "forced hashes of subregions and protoclusters in every child (all dumps of a child must be identical).  The "
        "witnesses of the round-4 seeded defects, of the known finding C17-K11 and of the ten repaired findings "
        "(C17-K1..K10) run first on every run.  Per case: all "
        "children must agree (the property; a difference inside a finding class recorded with status known would be "
        "counted and printed as KNOWN-FINDING - only crossing_anchor_key_tie_set_order is: any other difference is a counterexample, labelled with its class), each child's output must equal the model at "
        "the order that child observed, and fn 105 checks the documented order of get_unique_protoclusters.  non-trivial = the "
        "case contains a tie (two elements that the stage's sort key has to separate, or a duplicated element) or at least "
        "two elements in a hashed set; distinct by the flat encoding of the hash-seed-0 child")


def nontrivial(case, flat):
    fn, args = case["fn"], case["args"]
    if fn in (1, 2):
        starts = [(h[0], h[2]) for h in args["hits"]]
        return len(set(starts)) != len(starts)
    if fn == 3:
        return any(len([g for g in args["genes"] if i in args["hits"].get(g[0], ())]) >= 2 for i in range(len(args["rules"])))
    if fn == 4:
        return len(args["config"]["protos"]) >= 2
    if fn == 5:
        return len(args["protos"]) >= 2
    if fn == 6:
        return len(set(args["words"])) >= 2
    if fn == 8:
        return any(len(set(domains)) >= 2 for _t, domains in args["defs"])
    if fn == 9:
        return any(len(hits) >= 2 for hits in args["cds"])
    if fn == 10:
        starts = [(h[0], h[2]) for h in args["hits"]]
        return len(set(starts)) != len(starts)
    if fn == 11:
        return len(args["hits"]) >= 2
    if fn == 12:
        # two or more origin-crossing genes with a common profile
        crossing = [set(args["hits"].get(name, ())) for name, parts in args["genes"] if len(parts) > 1]
        return any(crossing[i] & crossing[j] for i in range(len(crossing)) for j in range(i))
    if fn == 21:
        return len(args["batches"]) >= 2 and len(set(args["batches"][-1]) - set(args["batches"][0])) >= 2
    if fn == 20:
        return len(set(args["names"])) >= 2
    if fn == 13:
        spans = [tuple(p[:2]) for p in args["protos"]] + [tuple(sub[:2]) for sub in args["subs"]]
        return len(set(spans)) != len(spans)
    return len(args["notes"]) >= 2 or len(args["keys"]) >= 2


def run(chk):
    if not chk.build_and_audit():
        return chk.finish(RULE)
    rng = chk.rng
    counts, seeds = plan(chk.tier)
    known = known_classes()
    cases = list(WITNESSES)
    for fn, count in counts.items():
        for _ in range(count):
            cases.append({"fn": fn, "args": GENERATORS[fn](rng)})
    order = list(range(len(WITNESSES), len(cases)))
    rng.shuffle(order)          # spreads the expensive stages over the run
    cases = cases[:len(WITNESSES)] + [cases[i] for i in order]
    outs, failures = run_children(cases, seeds)
    for seed, log in failures:
        chk.violation("broken-correspondence", f"child process with PYTHONHASHSEED={seed} failed",
                      {"theorem_or_correspondence": "multi-seed run", "log": log})
    seeds = [s for s in seeds if s in outs]
    if len(seeds) < 2:
        chk.violation("broken-correspondence", "fewer than two child processes finished", {"theorem_or_correspondence": "multi-seed run"})
        return chk.finish(RULE)
    chk.extra["hash_seeds"] = seeds
    flat_cases, impl_outs, origin = [], [], []
    reproduced = set()
    # fn 9: what the model of filter_results returns over ALL layouts (rank assignments) of every case
    fr_models, fr_evals = filter_model_outputs({idx: case["args"] for idx, case in enumerate(cases) if case["fn"] == 9})
    chk.extra["filter_results_model_evaluations_over_all_layouts"] = fr_evals
    for idx, case in enumerate(cases):
        fn = case["fn"]
        per_seed = [outs[s][idx] for s in seeds]
        chk.count(FN_NAME[fn])
        for res in per_seed:
            for key, value in res["extra"].items():
                if key in ("harness_error", "construction_failed", "call_failed", "error", "skipped"):
                    chk.count(f"fn{fn}_{key}_{str(value)[:60]}")
        if any("harness_error" in res["extra"] for res in per_seed):
            chk.violation("broken-correspondence", f"the harness adapter failed on a case of fn {fn}",
                          {"theorem_or_correspondence": FN_NAME[fn], "input": case,
                           "errors": [res["extra"].get("harness_error") for res in per_seed]})
            continue
        # ---- (a) the property: all children agree
        base = per_seed[0]
        first_flat = base["pairs"][0][0] if base["pairs"] else [PROP, fn]
        if fn == 11:
            first_flat = [PROP, 11] + [int(hashlib.sha1(json.dumps(case["args"]).encode()).hexdigest()[:12], 16)]
        if fn == 13:
            first_flat = [PROP, 13] + [int(hashlib.sha1(json.dumps(case["args"]).encode()).hexdigest()[:12], 16)]
            for seed, res in zip(seeds, per_seed):
                inside = res["extra"].get("differs_within_process")
                if inside:
                    chk.violation("counterexample", f"{FN_NAME[13]}: within ONE process (PYTHONHASHSEED {seed}) the same record "
                                  f"gives different regions / GenBank / areas JSON under another memory layout or other hashes "
                                  f"of the same areas ({inside.get('variant')})",
                                  {"theorem_or_correspondence": "C17 same input, same output / " + FN_NAME[13], "function": 13,
                                   "input": case, "hash_seed": seed, "difference": inside, "flat": first_flat})
                    break
        if fn == 9:
            import c13
            first_flat = [PROP, 9] + c13.enc_fr(case["args"]["eqgs"], case["args"]["order"],
                                                [[tuple(h) for h in hits] for hits in case["args"]["cds"]])[2:]
            # the model itself must not depend on the layout (C17_filter_results_layout_perm, evaluated)
            if len(fr_models[idx]) != 1:
                chk.violation("counterexample", "C13.Model.filter_results gives different results for two assignments of "
                              "set-iteration ranks (memory layouts) to the same hits",
                              {"theorem_or_correspondence": "C17_filter_results_layout_perm / model over all layouts",
                               "function": 9, "input": case, "model_over_all_layouts": sorted(fr_models[idx])[:6]})
            # correspondence: every child's result is the model's result (whatever layout the child had)
            for seed, res in zip(seeds, per_seed):
                kept = tuple(res["extra"].get("kept", ()))
                chk.count("filter_results_child_results_checked_for_membership")
                if kept not in fr_models[idx]:
                    chk.violation("broken-correspondence", "filter_results on identity-hashed hits returns a result that "
                                  "C13.Model.filter_results gives for NO assignment of set-iteration ranks"
                                  + (" (class filter_results_score_tie_set_order: two hits of a gene tie on the bitscore)"
                                     if filter_score_tie(case["args"]) else ""),
                                  {"theorem_or_correspondence": "model vs implementation / " + FN_NAME[9], "function": 9,
                                   "input": case, "hash_seed": seed, "implementation": list(kept),
                                   "model_over_all_layouts": sorted(fr_models[idx])[:6]})
                    break
        chk.note_case(first_flat, nontrivial(case, first_flat),
                      {"function": FN_NAME[fn], "input": case["args"], "hash_seeds": seeds,
                       "implementation_seed0": [p[1] for p in base["pairs"]][:2]})
        for seed, res in zip(seeds[1:], per_seed[1:]):
            outputs_a = [p[1] for p in base["pairs"]]
            outputs_b = [p[1] for p in res["pairs"]]
            dumps_a = {k: v for k, v in base["extra"].items() if not k.startswith("_") and k != "crossing"}
            dumps_b = {k: v for k, v in res["extra"].items() if not k.startswith("_") and k != "crossing"}
            if outputs_a == outputs_b and dumps_a == dumps_b:
                continue
            differing = [k for k in sorted(set(dumps_a) | set(dumps_b)) if dumps_a.get(k) != dumps_b.get(k)]
            klass = None
            e2e = []
            if fn == 3 and outputs_a == outputs_b:
                if base["extra"].get("_class_multi_domain") or res["extra"].get("_class_multi_domain"):
                    e2e.append("annotate_definition_domains_set_order")
                if base["extra"].get("_class_multi_category") or res["extra"].get("_class_multi_category"):
                    e2e.append("html_product_categories_set_order")
                e2e = [k for k in e2e if E2E_CLASS_MARK[k] in differing]
                allowed = set().union(*[E2E_CLASS_DUMPS[k] for k in e2e]) if e2e else set()
                if not (e2e and set(differing) <= allowed):
                    e2e = []
            if fn == 11:
                flags = {f: bool(base["extra"].get(f) or res["extra"].get(f)) for f in ("_f5", "_f6", "_f7")}
                canon_moves = "terpene_canon" in differing
                needed, attributable = [], "error" not in differing
                if canon_moves or differing == ["terpene_raw"]:
                    # another fragment survives remove_incomplete / another order of the group's hits: only with a start tie
                    if flags["_f5"]:
                        needed.append("terpene_start_tie_set_order")
                    else:
                        attributable = False
                if "terpene_subtypes" in differing:
                    if flags["_f6"]:
                        needed.append("terpene_subtypes_set_order")
                    elif not (canon_moves and flags["_f5"]):
                        attributable = False
                if "terpene_reaction_tuples" in differing:
                    if flags["_f7"]:
                        needed.append("terpene_reaction_intersection_set_order")
                    elif not (canon_moves and flags["_f5"]):
                        attributable = False
                if attributable and needed and all(k in known for k in needed):
                    for k in needed:
                        chk.count(f"differs_across_seeds_in_known_class_{k}")
                        reproduced.add(k)
                    continue
                klass = ([k for k in needed if k not in known] or [None])[0] if attributable else None
            elif e2e:
                # differences confined to the gene_functions qualifier (the GenBank text with sorted gene_functions is
                # identical) / to the order of product_categories in the regions JSON
                if all(k in known for k in e2e):
                    for k in e2e:
                        chk.count(f"differs_across_seeds_in_known_class_{k}")
                        reproduced.add(k)
                    continue
                klass = [k for k in e2e if k not in known][0]
            elif fn == 12 and (base["extra"].get("_class_crossing_key_tie") or res["extra"].get("_class_crossing_key_tie")):
                klass = "crossing_anchor_key_tie_set_order"
            elif fn == 8 and nontrivial(case, None):
                klass = "annotate_definition_domains_set_order"
            elif fn == 9 and filter_score_tie(case["args"]):
                klass = "filter_results_score_tie_set_order"
            elif fn == 10 and nontrivial(case, None):
                klass = "terpene_start_tie_set_order"
            elif fn == 5 and base["extra"].get("crossing") \
                    and len({tuple(spec[:3]) for spec in case["args"]["protos"]}) != len(case["args"]["protos"]):
                klass = "unique_crossing_same_product_set_order"
            elif fn == 5 and not base["extra"].get("crossing") \
                    and len({(spec[0], spec[1]) for spec in case["args"]["protos"]}) != len(case["args"]["protos"]):
                klass = "unique_protoclusters_set_order"
            elif fn == 4 and formation_ties(case["args"]["config"]) and len(outputs_a) == len(outputs_b) == 1 \
                    and only_tied_singles_moved(outputs_a[0], outputs_b[0]):
                klass = "single_candidates_set_order"
            elif fn == 3 and outputs_a == outputs_b and not klass:
                tied_u = base["extra"].get("_class_unique_tied") or res["extra"].get("_class_unique_tied")
                tied_s = base["extra"].get("_class_singles_tied") or res["extra"].get("_class_singles_tied")
                if differing == ["areas_json"] and tied_u and not tied_s:
                    klass = "unique_protoclusters_set_order"
                elif tied_s and set(differing) <= {"areas_json", "candidates", "regions", "genbank"}:
                    klass = "single_candidates_set_order"
                elif (base["extra"].get("_class_same_product_tied") or res["extra"].get("_class_same_product_tied")) \
                        and set(differing) <= {"areas_json", "candidates", "regions", "genbank"}:
                    klass = "same_product_equal_coordinates_member_order"
            if klass and klass in known:
                chk.count(f"differs_across_seeds_in_known_class_{klass}")
                reproduced.add(klass)
                break
            chk.violation("counterexample",
                          f"{FN_NAME[fn]}: results differ between PYTHONHASHSEED/layout {seeds[0]} and {seed}"
                          + (f" (class {klass}, not recorded as known)" if klass else ""),
                          {"theorem_or_correspondence": "C17 same input, same output / " + FN_NAME[fn], "function": fn,
                           "input": case, "hash_seeds": [seeds[0], seed], "differing_dumps": differing,
                           "output_a": outputs_a[:3], "output_b": outputs_b[:3],
                           "dump_a": {k: dumps_a.get(k) for k in differing[:3]}, "dump_b": {k: dumps_b.get(k) for k in differing[:3]},
                           "flat": first_flat, "finding_class": klass})
            break
        # ---- (b) correspondence material: every child's (observed order, output)
        for seed, res in zip(seeds, per_seed):
            for flat, out in res["pairs"]:
                flat_cases.append(flat)
                impl_outs.append(out)
                origin.append((idx, seed))
    # ---- model vs implementation
    model_outs = common.run_driver(flat_cases)
    chk.extra["correspondence_evaluations"] = len(flat_cases)
    disagreements = 0
    membership = 0
    spec_cases, spec_origin = [], []
    for i, (flat, out, model) in enumerate(zip(flat_cases, impl_outs, model_outs)):
        idx, seed = origin[i]
        fn = flat[1]
        if fn == 5:
            spec_cases.append([PROP, 105] + flat[2:] + out)
            spec_origin.append(i)
        if fn == 3 and out and out[0] == -1:
            chk.count("fn3_pipeline_error_" + common.ERR_NAME.get(out[1], str(out[1])))
        if model == out:
            continue
        if fn == 4 and formation_ties(cases[idx]["args"]["config"]) and only_tied_singles_moved(out, model):
            # class single_candidates_set_order (repaired: the loop iterates _ordered(set(unassigned)), in the model as in
            # the code); tolerated only if the class is recorded as known again
            membership += 1
            if "single_candidates_set_order" in known:
                continue
        disagreements += 1
        if disagreements <= 3:
            chk.violation("broken-correspondence", f"model and implementation differ on {FN_NAME.get(fn, fn)} (hash seed {seed})",
                          {"theorem_or_correspondence": "model vs implementation / " + FN_NAME.get(fn, str(fn)), "function": fn,
                           "flat": flat, "implementation": out, "model": model, "input": cases[idx], "hash_seed": seed})
    chk.extra["disagreements"] = disagreements
    chk.extra["formation_runs_with_forced_hash_order_compared_with_model_at_that_enumeration"] = \
        sum(1 for flat in flat_cases if flat[1] == 15)
    # ---- (b2) the model of the formation at OTHER enumerations of every set it iterates (FO.create_candidates_o:
    # fn 14 = descending id, fn 15 = scrambled by ((id + 1) * a + site * b) mod m) against the ascending one (fn 4, the
    # order the children observe and are compared with): C17_formation_perm_partial / _linear prove them equal under
    # their guards; outside the guards (identical coordinates at the plain sorts, circular records) a difference means
    # the MODEL predicts a dependence on the set order - reported as a counterexample of the model-level property
    # (the code may or may not reach that order; the replay holds the input for a run with forced hash orders)
    f4 = [i for i, flat in enumerate(flat_cases) if flat[1] == 4 and origin[i][1] == seeds[0]]
    variants = [("descending id", [PROP, 14])] + [(f"scrambled a={a} b={b} m={m}", [PROP, 15, a, b, m])
                                                   for a, b, m in ((3, 5, 7), (5, 1, 11), (7, 2, 13))]
    order_dependent = 0
    for name, head in variants:
        other = common.run_driver([head + flat_cases[i][2:] for i in f4])
        for i, out in zip(f4, other):
            if out == model_outs[i]:
                continue
            order_dependent += 1
            if order_dependent <= 2:
                chk.violation("counterexample", "the formation model gives different candidates for two enumeration orders of "
                              f"the sets it iterates (ascending id vs {name})",
                              {"theorem_or_correspondence": "C17_formation_perm_partial / model at two enumerations",
                               "function": 4, "flat": flat_cases[i], "input": cases[origin[i][0]],
                               "model_ascending": model_outs[i], "model_other": out, "enumeration": name})
    chk.extra["formation_model_cases_evaluated_at_other_enumerations"] = len(f4)
    chk.extra["formation_model_enumerations"] = [name for name, _ in variants]
    chk.extra["formation_model_order_dependent"] = order_dependent
    # ---- (b3) the model of the detection at the REVERSED enumeration of every set of gene names (run function 17) against
    # the model at the observed one (run function 16): C17_detection_perm proves them equal unless two genes of a rule tie
    # on the key of Feature.__lt__ with different locations (class crossing_anchor_key_tie_set_order)
    f16 = [i for i, flat in enumerate(flat_cases) if flat[1] == 16 and origin[i][1] == seeds[0]]

    def payload16(flat):
        pos = 3
        for _ in range(flat[2]):
            pos += 2 + flat[pos + 1]
        return flat[pos:]
    detection_order_dependent = 0
    reversed_outs = common.run_driver([[PROP, 17] + payload16(flat_cases[i]) for i in f16])
    record_order_outs = common.run_driver([[PROP, 18] + payload16(flat_cases[i]) for i in f16])
    for i, out, out_id in zip(f16, reversed_outs, record_order_outs):
        if out == model_outs[i] and out_id == model_outs[i]:
            continue
        if out == model_outs[i]:
            out = out_id
        idx = origin[i][0]
        in_class = any(outs[s][idx]["extra"].get("_class_crossing_key_tie") for s in seeds)
        if in_class and "crossing_anchor_key_tie_set_order" in known:
            chk.count("detection_model_order_dependent_in_known_class_crossing_anchor_key_tie_set_order")
            continue
        detection_order_dependent += 1
        if detection_order_dependent <= 2:
            chk.violation("counterexample", "the detection model gives different protoclusters for two enumeration orders of the "
                          "sets of gene names find_protoclusters iterates (observed vs record order / reversed record order)"
                          + (" (class crossing_anchor_key_tie_set_order, not recorded as known)" if in_class else ""),
                          {"theorem_or_correspondence": "C17_detection_perm / model at two enumerations", "function": 12,
                           "flat": flat_cases[i], "input": cases[idx], "model_observed": model_outs[i], "model_other": out})
    chk.extra["detection_model_cases_evaluated_at_record_order_and_reversed_enumeration"] = len(f16)
    chk.extra["detection_model_order_dependent_outside_known_classes"] = detection_order_dependent
    # ---- (c) documented order of get_unique_protoclusters
    for i, verdict in zip(spec_origin, common.run_driver(spec_cases)):
        idx, seed = origin[i]
        if verdict and verdict[0] == 1:
            continue
        guard = len(verdict) > 1 and verdict[1] == 1
        if not guard and "unique_protoclusters_set_order" in known:
            chk.count("get_unique_protoclusters_not_in_documented_order_known_class")
            reproduced.add("unique_protoclusters_set_order")
            continue
        chk.violation("counterexample", "Region.get_unique_protoclusters is not in the documented order (start, -size, product)"
                      + ("" if guard else " (class unique_protoclusters_set_order, not recorded as known)"),
                      {"theorem_or_correspondence": "C17_unique_linear_perm / Region.get_unique_protoclusters", "function": 5,
                       "flat": flat_cases[i], "implementation": impl_outs[i], "input": cases[idx], "hash_seed": seed,
                       "spec_verdict_on_implementation_output": verdict})
    for klass in sorted(reproduced):
        chk.known(KNOWN_TEXT[klass])
    if os.environ.get("C17_DEBUG"):
        with open(os.environ["C17_DEBUG"], "w") as handle:
            json.dump([(k, w, r) for k, w, r in chk.violations], handle, indent=1, default=str)
    sample = [i for i, c in enumerate(flat_cases) if len(c) < 400]
    chk.crosscheck_vm([flat_cases[i] for i in sample], [model_outs[i] for i in sample])
    return chk.finish(RULE, trusted_extra=(
        "the interpreter's choice of set order is not modelled: the children sample it (hash seeds, permuted creation "
        "order, forced small hashes), the theorems quantify over all orders",
        "Biopython (SeqIO GenBank writer), orjson, jinja2 (gene descriptions of the regions JSON): exercised by the "
        "end-to-end dumps only"), level="proof")


def replay(chk, path):
    doc = json.load(open(path))
    if "flat" in doc:
        print("model:", common.run_driver([doc["flat"]])[0], "recorded implementation:", doc.get("implementation"))
    if "input" in doc and isinstance(doc["input"], dict) and "fn" in doc["input"]:
        seeds = doc.get("hash_seeds") or [0, 1, 2, 3, 4, 5]
        outs, failures = run_children([doc["input"]], seeds)
        for seed in seeds:
            if seed in outs:
                print(f"PYTHONHASHSEED/layout {seed}:", [p[1] for p in outs[seed][0]["pairs"]][:3],
                      {k: hashlib.sha1(str(v).encode()).hexdigest()[:10] for k, v in outs[seed][0]["extra"].items()})
        print("failures:", failures)
    return 0


if __name__ == "__main__":
    if len(sys.argv) >= 5 and sys.argv[1] == "child":
        sys.exit(child_main(sys.argv[2], sys.argv[3], int(sys.argv[4])))
