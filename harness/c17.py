"""C17: same input, same output, whatever the hash seed / memory layout.

   Every case is executed by the REAL code in several child processes, each started with its own
   PYTHONHASHSEED and its own "layout" (objects that end up in identity-hashed sets are created in a
   permuted order between random allocations, so that their addresses - hence their set order - differ).
   Each child reports, per case, the enumeration order it observed for the sets involved (obtained from the
   public functions/attributes that build them) and the canonical output of the public function.

     fn 1/2  hmmscan_refinement.refine_hmmscan_results (neighbour / default); order = gather_by_query sets
     fn 3    hmm_detection.run_on_record -> detect_protoclusters_and_signatures (find_protoclusters' sorted
             anchors + sweep) on linear records with tied anchoring genes; the same child run continues
             end to end: add_protocluster, create_candidate_clusters, create_regions, hmm_detection JSON,
             serialiser.gather_record_areas JSON, GenBank text (SeqIO.write of Record.to_biopython)
     fn 4    formation.create_candidates_from_protoclusters on real (identity-hashed) Protoclusters
     fn 5    Region.get_unique_protoclusters (both branches); order = the set the function builds
     fn 6    CDSResults.to_json definition_domains / HMMDetectionResults.enabled_types (sorted sets of str)
     fn 7    Feature.to_biopython: sorted notes, sorted qualifier keys

   Checks: (a) per case, the outputs of all children are identical (the property itself; a difference is a
   counterexample with the input and the two seeds, unless the input lies in a recorded finding class);
   (b) for every child, model(observed order) == implementation output (correspondence, extracted model);
   (c) fn 105: Region.get_unique_protoclusters output is in the documented order (start, -size, product).
"""
import hashlib
import itertools
import json
import os
import random
import subprocess
import sys
import tempfile
import types

import common
from common import err_code

PROP = 17
EV_UNIT = 1e-10
FN_NAME = {1: "refine_hmmscan_results(neighbour_mode=True)", 2: "refine_hmmscan_results(neighbour_mode=False)",
           3: "run_on_record/detect_protoclusters_and_signatures (linear) + end-to-end dumps",
           4: "create_candidates_from_protoclusters", 5: "Region.get_unique_protoclusters",
           6: "sorted set of str (CDSResults.to_json / enabled_types)", 7: "Feature.to_biopython (notes, qualifier keys)"}

KNOWN_TEXT = {
    "unique_protoclusters_set_order":
        "Region.get_unique_protoclusters of a region that does not cross the origin returns protoclusters with identical "
        "coordinates in set-iteration (identity hash = memory layout) order, not by product as documented; the order is "
        "serialised by serialiser.gather_record_areas, so the JSON output differs between runs",
    "single_candidates_set_order":
        "create_candidates_from_protoclusters appends SINGLE candidates in the iteration order of set(unassigned) "
        "(identity hashes); SINGLE candidates of protoclusters with identical coordinates tie in the final sort, so candidate "
        "cluster numbering (and the GenBank/JSON output) differs between runs",
    "same_product_equal_coordinates_member_order":
        "_ordered (formation.py) breaks location ties between protoclusters by product only: two protoclusters of the SAME "
        "product with identical coordinates (neighbourhoods clipped at both ends of a short record) but different cores are "
        "listed inside a candidate cluster in set-iteration order, so the 'protoclusters' qualifier of the candidate and the "
        "areas JSON differ between runs",
}


def known_classes():
    return {f["class"] for f in common.load_known_findings("C17") if f.get("status") == "known"}


# ====================================================================== generation (parent)

def gen_refine(rng):
    import c13
    table, hits, split = c13.gen_refine(rng)
    if rng.random() < 0.4 and hits:
        # several hits with equal start (and often equal score / end) on one gene: the tie the sort key must break
        base = rng.choice(hits)
        for _ in range(rng.choice([1, 2, 3])):
            prof = rng.randrange(len(table))
            end = base[3] if rng.random() < 0.5 else base[2] + rng.randint(1, max(2, table[prof][1]))
            score = base[5] if rng.random() < 0.6 else rng.choice([20, 40, 60])
            ev = base[4] if rng.random() < 0.6 else rng.choice([1, 2, 3])
            hits.append((base[0], prof, base[2], max(end, base[2] + 1), ev, score))
            split.append(rng.randrange(max(split) + 1))
    return {"table": table, "hits": hits, "split": split}


def gen_pipeline(rng):
    """ linear record, 1-4 single-profile rules, genes on both strands incl. pairs with identical coordinates """
    n_rules = rng.choice([1, 2, 2, 3, 4])
    rule_names = rng.sample(["r1", "r10", "r2", "ra", "rab", "rb", "T1", "t1"], n_rules)
    rules = [(rng.choice([1, 1, 2, 5]) * 1000, rng.choice([0, 1, 3, 10]) * 1000) for _ in range(n_rules)]
    cutoffs = [c for c, _ in rules]
    n_genes = rng.choice([2, 3, 4, 5, 6, 8, 10])
    genes, seen = [], set()
    pos = rng.choice([0, 0, 50, 300])
    for _ in range(n_genes):
        length = rng.choice([30, 90, 300, 900, 3000])
        r = rng.random()
        strand = rng.choice([1, -1])
        if r < 0.3 and genes:
            # identical coordinates on the other strand
            _, (start, end), other = rng.choice(genes)
            strand = -other
        elif r < 0.45 and genes:
            ps, pe = genes[-1][1]
            start = rng.choice([ps, ps, rng.randint(ps, max(ps, pe - 1))])    # equal start, nested / overlapping
            end = start + length
        else:
            start = pos
            end = start + length
        if (start, end, strand) in seen:
            continue
        seen.add((start, end, strand))
        genes.append((f"g{len(genes)}", (start, end), strand))
        cutoff = rng.choice(cutoffs)
        gap = rng.choice([0, 1, cutoff - 1, cutoff, cutoff + 1, cutoff + 500, 3 * cutoff, 12000])
        pos = max(pos, end) + gap
    order = list(range(len(genes)))
    rng.shuffle(order)                       # gene names do not follow positions
    genes = [(f"g{order[i]}", iv, st) for i, (_n, iv, st) in enumerate(genes)]
    length = max(e for _, (_, e), _ in genes) + rng.choice([0, 0, 1, 50, 1000, 6000])
    hits = {}
    for name, _, _ in genes:
        profs = sorted(r for r in range(n_rules) if rng.random() < 0.7)
        if profs:
            hits[name] = profs
    return {"length": length, "rules": rules, "rule_names": rule_names, "genes": genes, "hits": hits}


def gen_formation(rng):
    import c05
    config = c05.Gen(rng).config(circular=rng.random() < 0.25, wrapping=False)
    if rng.random() < 0.5 and len(config["protos"]) >= 2:
        # more identical coordinates with different products
        protos = list(config["protos"])
        for _ in range(rng.choice([1, 1, 2])):
            a, b = rng.sample(range(len(protos)), 2)
            pid, _e, core, prod = protos[b]
            protos[b] = (pid, protos[a][1], core if rng.random() < 0.5 else protos[a][2], prod)
            if rng.random() < 0.4 and [x[:2] for x in protos[b][2]] != [x[:2] for x in protos[a][2]]:
                # ... and with the SAME product but another core (class same_product_equal_coordinates_member_order,
                # repaired: _ordered separates them by the core)
                protos[b] = protos[b][:3] + (protos[a][3],)
        # the core must lie inside the extent
        ok = all(len(e) == 1 and len(c) == 1 and e[0][0] <= c[0][0] and c[0][1] <= e[0][1] for _p, e, c, _q in protos)
        # indistinguishable protoclusters (same coordinates, product and core) do not come out of one detection run
        keys = [([x[:2] for x in e], [x[:2] for x in c], q) for _p, e, c, q in protos]
        ok = ok and all(keys[i] != keys[j] for i in range(len(keys)) for j in range(i))
        if ok:
            config["protos"] = protos
    order = list(range(len(config["protos"])))
    rng.shuffle(order)
    return {"config": config, "order": order}


def gen_unique(rng):
    """ protoclusters of one region: [(start, end)] single parts, or bridging (start > end) on a ring of length n """
    crossing = rng.random() < 0.35
    grid = rng.choice([1, 10, 100])
    units = rng.randint(10, 30)
    n = units * grid
    count = rng.choice([1, 2, 2, 3, 3, 4, 5, 6])
    protos = []
    n_products = rng.choice([1, 2, 3, count])
    for i in range(count):
        r = rng.random()
        if protos and r < 0.2:
            start, end = rng.choice(protos)[:2]         # identical coordinates
        elif protos and r < 0.4:
            start = rng.choice(protos)[0]                # equal start
            end = (start + rng.randint(1, units // 2) * grid)
            if not crossing:
                end = min(n, end)
            elif end > n:
                end -= n
        elif crossing and (i == 0 or r < 0.7):
            start = rng.randint(units // 2 + 1, units - 1) * grid
            end = rng.randint(1, units // 2 - 1) * grid
        else:
            a = rng.randint(0, units - 1)
            b = rng.randint(a + 1, units)
            start, end = a * grid, b * grid
        if end == start:
            end = min(n, start + grid) if not crossing else start + grid
        if not crossing and end < start:
            start, end = end, start
        if crossing and end > n:
            end = n
        product = rng.randrange(n_products)
        core = None
        if (start, end, product) in [tuple(p[:3]) for p in protos]:
            used = [tuple(p[3]) if p[3] else (p[0], p[1]) for p in protos if tuple(p[:3]) == (start, end, product)]
            free_cores = [(a, b) for a in range(start, end, grid) for b in range(a + grid, end + 1, grid)
                          if (a, b) not in used] if start < end and not crossing else []
            if free_cores and rng.random() < 0.6:
                # same coordinates and product, another core (two protoclusters of one rule whose neighbourhoods are
                # clipped at both ends of a short record): separated by (core_start, core_end) since the repair; only in
                # regions that do not cross the origin - the key of the origin-crossing branch ends with the product,
                # see the guard of C17_unique_crossing_perm
                core = rng.choice(free_cores)
            else:
                # indistinguishable protoclusters (same coordinates, product and core) do not come out of one detection run
                free = [q for q in range(count) if (start, end, q) not in [tuple(p[:3]) for p in protos]]
                product = rng.choice(free)
        protos.append((start, end, product, core))
    if crossing and not any(p[1] < p[0] for p in protos):
        protos[0] = ((units - 2) * grid, 2 * grid, protos[0][2], None)
    # candidate clusters: every protocluster in at least one; first candidate holds them all when crossing
    ids = list(range(count))
    groups = [ids] if crossing or rng.random() < 0.5 else []
    for _ in range(rng.choice([0, 1, 2])):
        groups.append(sorted(rng.sample(ids, rng.randint(1, count))))
    covered = {i for g in groups for i in g}
    rest = [i for i in ids if i not in covered]
    if rest:
        groups.append(rest)
    rng.shuffle(groups)
    return {"n": n, "crossing": crossing, "protos": protos, "groups": groups}


WORDS = ["a", "ab", "abc", "b", "B", "p1", "p10", "p2", "PKS_KS", "PKS_AT", "T1", "t1", "", "a-b", "a_b", "z", "Z", "rule", "rule2"]


def gen_strings(rng):
    words = [rng.choice(WORDS) for _ in range(rng.choice([0, 1, 2, 3, 4, 5, 6, 8]))]
    return {"words": words}


def gen_notes(rng):
    notes = [rng.choice(WORDS) for _ in range(rng.choice([0, 1, 2, 3, 4, 6]))]
    keys = rng.sample(["gene", "product", "label", "Label", "aa", "a", "zz", "core", "score", "evalue"], rng.choice([0, 1, 2, 3, 5]))
    return {"notes": notes, "keys": keys}


GENERATORS = {1: gen_refine, 2: gen_refine, 3: gen_pipeline, 4: gen_formation, 5: gen_unique, 6: gen_strings, 7: gen_notes}


# ====================================================================== child: the real code

def perturb(rng, keep):
    """ shifts the allocator state so that objects created afterwards get other addresses """
    for _ in range(rng.randrange(0, 40)):
        keep.append([object() for _ in range(rng.randrange(1, 6))])


def enc_str(text):
    return [len(text)] + [ord(c) for c in text]


def enc_strs(items):
    out = [len(items)]
    for item in items:
        out += enc_str(item)
    return out


def child_refine(fn, args, _rng, _keep):
    import c13
    from antismash.common.hmmscan_refinement import gather_by_query
    table, hits, split = args["table"], [tuple(h) for h in args["hits"]], args["split"]
    names = [c13.prof_name(i, reg) for i, (_p, _l, reg) in enumerate(table)]
    index = {n: i for i, n in enumerate(names)}
    nres = max(split) + 1 if split else 0
    results = [types.SimpleNamespace(hsps=[]) for _ in range(nres)]
    for (gene, prof, start, end, evalue, score), where in zip(hits, split):
        results[where].hsps.append(types.SimpleNamespace(query_id=f"g{gene:03d}", hit_id=names[prof], query_start=start,
                                                         query_end=end, evalue=evalue * EV_UNIT, bitscore=score / 2))
    observed = []
    for gene, members in gather_by_query(results).items():
        for hit in list(members):
            observed.append((int(gene[1:]), index[hit.hit_id], hit.query_start, hit.query_end,
                             round(hit.evalue / EV_UNIT), int(hit.bitscore * 2)))
    flat = [PROP, fn, len(table)]
    for entry in table:
        flat += [int(entry[0]), entry[1], int(entry[2])]
    flat.append(len(observed))
    for hit in observed:
        flat += list(hit)
    out = c13.impl_refine(fn, table, hits, split)
    return [(flat, out)], {}


def loc_text(location):
    return str(location)


def child_pipeline(_fn, args, _rng, _keep):
    """ fn 3 + the end-to-end dumps; also yields a fn 6 case for enabled_types """
    import io
    import detect_util
    from Bio import SeqIO
    from antismash.common import serialiser
    from antismash.common import json as asjson
    from antismash.detection import hmm_detection
    length, rules, names, genes, hits = args["length"], args["rules"], args["rule_names"], args["genes"], args["hits"]
    text = "\n".join(f"RULE {names[i]} CATEGORY c CUTOFF {c // 1000} NEIGHBOURHOOD {nb // 1000} CONDITIONS p{i}"
                     for i, (c, nb) in enumerate(rules))
    profiles = [f"p{i}" for i in range(len(rules))]
    flat = [PROP, 3, length, len(rules)]
    for i, (c, nb) in enumerate(rules):
        anchors = [(int(name[1:]), iv) for name, iv, _ in genes if i in hits.get(name, ())]
        flat += [c, nb, len(anchors)] + [x for gid, iv in anchors for x in (gid, iv[0], iv[1])]
    dumps = {}
    pairs = []
    try:
        record = detect_util.make_record(length, False, [(n, [(s, e, st)]) for n, (s, e), st in genes])
        record.id = "rec"
        record.name = "rec"
        record.record_index = 1
        ruleset = detect_util.make_ruleset(text, profiles, {g: {f"p{i}" for i in ps} for g, ps in hits.items()})
        original = hmm_detection.get_ruleset
        hmm_detection.get_ruleset = lambda _options: ruleset
        try:
            options = types.SimpleNamespace(hmmdetection_strictness="strict", hmmdetection_limit_to_rules=[],
                                            hmmdetection_limit_to_categories=[], taxon="bacteria")
            observed_names = list(ruleset.get_rule_names())
            hres = hmm_detection.run_on_record(record, None, options)
        finally:
            hmm_detection.get_ruleset = original
        result = hres.rule_results
        per_rule = [[] for _ in rules]
        for proto in result.protoclusters:
            idx = names.index(proto.product)
            core, full = detect_util.loc_parts(proto.core_location), detect_util.loc_parts(proto.location)
            if len(core) != 1 or len(full) != 1:
                per_rule[idx].append((-7, -7, -7, -7))
                continue
            per_rule[idx].append(core[0] + full[0])
        out = [len(rules)]
        for protos in per_rule:
            protos.sort()
            out += [len(protos)] + [x for p in protos for x in p]
        pairs.append((flat, out))
        pairs.append(([PROP, 6] + enc_strs(observed_names), enc_strs(list(hres.enabled_types))))
        # definition_domains of every gene result
        all_cds_results = [r for rs in result.cds_by_cluster.values() for r in rs] + list(result.cdses_outside_clusters)
        for cds_result in all_cds_results:
            as_json = cds_result.to_json()
            for key, members in cds_result.definition_domains.items():
                pairs.append(([PROP, 6] + enc_strs(list(members)), enc_strs(as_json["definition_domains"][key])))
        # ---- end to end
        for proto in result.protoclusters:
            record.add_protocluster(proto)
        record.create_candidate_clusters()
        record.create_regions()
        dumps["protoclusters"] = [(record.get_protocluster_number(p), p.product, loc_text(p.location), loc_text(p.core_location))
                                  for p in record.get_protoclusters()]
        dumps["candidates"] = [(record.get_candidate_cluster_number(c), str(c.kind),
                                [(record.get_protocluster_number(p), p.product) for p in c.protoclusters],
                                loc_text(c.location)) for c in record.get_candidate_clusters()]
        dumps["regions"] = [(r.get_region_number(), r.products, loc_text(r.location),
                             [record.get_candidate_cluster_number(c) for c in r.candidate_clusters])
                            for r in record.get_regions()]
        dumps["hmm_json"] = asjson.dumps(hres.to_json())
        dumps["areas_json"] = asjson.dumps(serialiser.gather_record_areas(record))
        buf = io.StringIO()
        SeqIO.write([record.to_biopython()], buf, "genbank")
        dumps["genbank"] = buf.getvalue()
        # class tests for the recorded findings
        tied_unique = False
        for region in record.get_regions():
            keys = [(int(p.location.start), len(p.location)) for p in region.get_unique_protoclusters()]
            tied_unique = tied_unique or len(set(keys)) != len(keys)
        singles = [(loc_text(c.location)) for c in record.get_candidate_clusters() if c.kind.name == "SINGLE"]
        dumps["_class_unique_tied"] = tied_unique
        same = [(loc_text(p.location), p.product) for p in record.get_protoclusters()]
        dumps["_class_same_product_tied"] = len(set(same)) != len(same)
        dumps["_class_singles_tied"] = len(set(singles)) != len(singles)
    except Exception as exc:  # pylint: disable=broad-except
        if not pairs:
            pairs.append((flat, [-1, err_code(exc)]))
        dumps["error"] = type(exc).__name__ + ": " + str(exc)[:200]
    return pairs, dumps


def child_formation(_fn, args, rng, keep):
    import c05
    from antismash.common.secmet.features import Protocluster
    from antismash.common.secmet.features.candidate_cluster import formation
    cls = c05.classes()
    config, order = args["config"], args["order"]
    config = {"n": config["n"], "circular": config["circular"],
              "genes": [(g, [tuple(p) for p in parts], prods) for g, parts, prods in config["genes"]],
              "protos": [(p, [tuple(x) for x in e], [tuple(x) for x in c], q) for p, e, c, q in config["protos"]]}

    class LaidOutProtocluster(Protocluster):  # pylint: disable=too-few-public-methods
        """ a real Protocluster (identity hash) that remembers its number in the configuration """
        __slots__ = ["vid"]

    record = cls["Record"](seq="A" * config["n"], circular=config["circular"])
    genes = {}
    for gid, parts, products in config["genes"]:
        cds = cls["CDS"](location=c05.mk_loc(parts), locus_tag=f"g{gid}")
        for prod in products:
            cds.gene_functions.add(cls["GF"].CORE, "tool", "desc", c05.product_name(prod))
        record.add_cds_feature(cds)
        genes[gid] = cds
    creation = list(range(len(config["protos"])))
    rng.shuffle(creation)
    made = {}
    for i in creation:
        perturb(rng, keep)
        pid, extent, core, prod = config["protos"][i]
        proto = LaidOutProtocluster(c05.mk_loc(core), c05.mk_loc(extent), tool="t", product=c05.product_name(prod),
                                    cutoff=1, neighbourhood_range=0, detection_rule="r")
        proto.vid = pid
        made[i] = proto
    protos = [made[i] for i in range(len(config["protos"]))]
    for proto in protos:
        record.add_protocluster(proto)
    gid_of = {id(cds): gid for gid, cds in genes.items()}
    defs = [sorted(gid_of[id(cds)] for cds in proto.definition_cdses) for proto in protos]
    wrap = config["n"] if config["circular"] else None
    flat = c05.flat_direct(config, order, defs)
    flat[0], flat[1] = PROP, 4
    try:
        cands = common.call_with_timeout(
            lambda: formation.create_candidates_from_protoclusters([protos[i] for i in order], circular_wrap_point=wrap), 10)
        out = c05.enc_cands(cands)
    except Exception as exc:  # pylint: disable=broad-except
        out = [1, err_code(exc)]
    return [(flat, out)], {}


def child_unique(_fn, args, rng, keep):
    from antismash.common.secmet.features import Protocluster, CandidateCluster, Region
    from antismash.common.secmet.features.candidate_cluster import CandidateClusterKind
    from antismash.common.secmet.locations import FeatureLocation, CompoundLocation
    n, crossing, specs, groups = args["n"], args["crossing"], args["protos"], args["groups"]
    specs = [tuple(spec) + (None,) * (4 - len(spec)) for spec in specs]
    products = sorted({spec[2] for spec in specs})

    class LaidOutProtocluster(Protocluster):  # pylint: disable=too-few-public-methods
        __slots__ = ["vid"]

    def mk(start, end):
        if end < start:
            return CompoundLocation([FeatureLocation(start, n, 1), FeatureLocation(0, end, 1)])
        return FeatureLocation(start, end, 1)
    creation = list(range(len(specs)))
    rng.shuffle(creation)
    made = {}
    try:
        for i in creation:
            perturb(rng, keep)
            start, end, prod, core = specs[i]
            core_loc = mk(start, end) if not core else mk(core[0], core[1])
            proto = LaidOutProtocluster(core_loc, mk(start, end), tool="t", product=f"p{products.index(prod):02d}",
                                        cutoff=1, neighbourhood_range=0, detection_rule="r")
            proto.vid = i
            made[i] = proto
        wrap = n if crossing else None
        cands = []
        for group in groups:
            kind = CandidateClusterKind.SINGLE if len(group) == 1 else CandidateClusterKind.NEIGHBOURING
            cands.append(CandidateCluster(kind, [made[i] for i in group], circular_wrap_point=wrap))
        region = Region(candidate_clusters=cands)
    except Exception as exc:  # pylint: disable=broad-except
        return [], {"construction_failed": type(exc).__name__}
    # the set the function builds, built the same way: its enumeration order
    clusters = set()
    for cand in region.candidate_clusters:
        clusters.update(cand.protoclusters)
    observed = list(clusters)
    is_crossing = bool(region.crosses_origin())
    if not is_crossing and any(spec[1] < spec[0] for spec in specs):
        # a region covering the whole record holding origin-crossing protoclusters: the branch for regions that do
        # not cross the origin then compares bridging locations, which the model of that branch does not cover
        return [], {"skipped": "whole_record_region_with_bridging_protoclusters"}
    length = int(region.location.parts[0].end) if is_crossing else n
    flat = [PROP, 5, int(is_crossing), length, len(observed)]
    for proto in observed:
        flat += [proto.vid, int(proto.start), int(proto.end), len(proto.location), int(proto.product[1:]),
                 int(proto.core_start), int(proto.core_end)]
    try:
        out_list = region.get_unique_protoclusters()
        ids = [p.vid for p in out_list]
        out = [len(ids)] + ids
    except Exception as exc:  # pylint: disable=broad-except
        return [], {"call_failed": type(exc).__name__}
    return [(flat, out)], {"crossing": is_crossing}


def child_strings(_fn, args, _rng, _keep):
    from antismash.common.hmm_rule_parser.cluster_prediction import CDSResults
    from antismash.common.secmet.test.helpers import DummyCDS
    words = args["words"]
    members = set()
    for word in words:
        members.add(word)
    result = CDSResults(DummyCDS(locus_tag="x"), [types.SimpleNamespace(to_json=dict)], {"rule": members})
    observed = list(result.definition_domains["rule"])
    out = result.to_json()["definition_domains"]["rule"]
    return [([PROP, 6] + enc_strs(observed), enc_strs(list(out)))], {}


def child_notes(_fn, args, rng, _keep):
    from antismash.common.secmet.features import Feature
    from antismash.common.secmet.locations import FeatureLocation
    notes, keys = list(args["notes"]), list(args["keys"])
    given_notes = list(notes)
    rng.shuffle(given_notes)          # the order in which annotations arrive is not part of the input
    given_keys = list(keys)
    rng.shuffle(given_keys)
    feature = Feature(FeatureLocation(1, 10, 1), feature_type="misc_feature")
    for note in given_notes:
        feature.notes.append(note)
    bio = feature.to_biopython({key: ["v"] for key in given_keys})[0]
    out_notes = list(bio.qualifiers.get("note", []))
    out_keys = [key for key in bio.qualifiers if key != "note"]
    return [([PROP, 7] + enc_strs(given_notes), enc_strs(out_notes)),
            ([PROP, 7] + enc_strs(given_keys), enc_strs(out_keys))], {}


CHILD = {1: child_refine, 2: child_refine, 3: child_pipeline, 4: child_formation, 5: child_unique, 6: child_strings,
         7: child_notes}


def child_main(case_path, out_path, layout):
    common.setup_repo_path()
    cases = json.load(open(case_path))
    # imports happen here, outside the per-case time limit
    import c05, c13, detect_util  # noqa: F401  pylint: disable=unused-import,multiple-imports
    from Bio import SeqIO  # noqa: F401  pylint: disable=unused-import
    from antismash.common import serialiser, json as _asjson  # noqa: F401  pylint: disable=unused-import
    from antismash.detection import hmm_detection  # noqa: F401  pylint: disable=unused-import
    from antismash.common.secmet.features import Protocluster, CandidateCluster, Region, Feature  # noqa: F401  pylint: disable=unused-import
    c05.classes()
    keep = []
    results = []
    for idx, case in enumerate(cases):
        rng = random.Random(layout * 1000003 + idx)
        perturb(rng, keep)
        try:
            pairs, extra = common.call_with_timeout(lambda: CHILD[case["fn"]](case["fn"], case["args"], rng, keep), 20)
        except Exception as exc:  # pylint: disable=broad-except
            pairs, extra = [], {"harness_error": type(exc).__name__ + ": " + str(exc)[:300]}
        results.append({"pairs": pairs, "extra": extra})
    with open(out_path, "w") as handle:
        json.dump({"hashseed": os.environ.get("PYTHONHASHSEED"), "results": results}, handle)
    return 0


# ====================================================================== parent

def run_children(cases, seeds, jobs=6):
    """ runs every case under every (hash seed, layout); returns {seed: [result per case]} """
    tmp = tempfile.mkdtemp(prefix="asv_c17_")
    try:
        case_path = os.path.join(tmp, "cases.json")
        with open(case_path, "w") as handle:
            json.dump(cases, handle)
        outs = {}
        pending = list(seeds)
        running = []
        failures = []
        while pending or running:
            while pending and len(running) < jobs:
                seed = pending.pop(0)
                out_path = os.path.join(tmp, f"out_{seed}.json")
                env = dict(os.environ)
                env.update({"PYTHONHASHSEED": str(seed), "PYTHONDONTWRITEBYTECODE": "1", "VERIF_REPO": common.REPO,
                            common.GUARD: "1"})
                proc = subprocess.Popen([common.PYTHON, os.path.abspath(__file__), "child", case_path, out_path, str(seed)],
                                        env=env, stdout=subprocess.PIPE, stderr=subprocess.STDOUT, text=True,
                                        cwd=os.path.dirname(os.path.abspath(__file__)))
                running.append((seed, proc, out_path))
            seed, proc, out_path = running.pop(0)
            log = proc.communicate()[0]
            if proc.returncode != 0 or not os.path.exists(out_path):
                failures.append((seed, log[-1500:]))
                continue
            outs[seed] = json.load(open(out_path))["results"]
        return outs, failures
    finally:
        import shutil
        shutil.rmtree(tmp, ignore_errors=True)


def plan(tier):
    if tier == "quick":
        return {1: 1200, 2: 1200, 3: 350, 4: 800, 5: 900, 6: 500, 7: 300}, [0, 1, 2, 3, 4, 5]
    return {1: 6000, 2: 6000, 3: 1800, 4: 4500, 5: 4500, 6: 2000, 7: 1200}, list(range(0, 18))


# the fixed witnesses of the findings C17-K1..K3 (all three repaired in the code; regression corpus, run first, every time)
# plus the same-product / other-core variants of K1 and K2
WITNESS_UNIQUE = {"fn": 5, "args": {"n": 5000, "crossing": False,
                                    "protos": [(1000, 2000, 0), (1000, 2000, 1), (1500, 3000, 2)], "groups": [[0, 1, 2]]}}
WITNESS_SINGLES = {"fn": 4, "args": {"config": {"n": 400, "circular": False, "genes": [],
                                                "protos": [(0, [(100, 200, 1)], [(110, 120, 1)], 0),
                                                           (1, [(100, 200, 1)], [(170, 180, 1)], 1),
                                                           (2, [(150, 300, 1)], [(250, 260, 1)], 2)]},
                                     "order": [0, 1, 2]}}


WITNESS_SAME_PRODUCT = {"fn": 3, "args": {
    "length": 12692, "rules": [[1000, 10000], [1000, 10000]], "rule_names": ["r2", "t1"],
    "genes": [["g1", [300, 390], 1], ["g3", [1390, 4390], -1], ["g2", [1390, 4390], 1], ["g4", [6390, 9390], 1],
              ["g5", [9390, 12390], 1], ["g0", [12391, 12691], -1]],
    "hits": {"g1": [0, 1], "g3": [0], "g2": [0, 1], "g4": [1], "g5": [0, 1], "g0": [0, 1]}}}
WITNESS_UNIQUE_CORE = {"fn": 5, "args": {"n": 5000, "crossing": False,
                                         "protos": [(1000, 2000, 0, (1100, 1200)), (1000, 2000, 0, (1700, 1800)),
                                                    (1000, 2000, 0, (1100, 1300)), (1500, 3000, 2, None)],
                                         "groups": [[0, 1, 2, 3]]}}
WITNESS_SINGLES_SAME_PRODUCT = {"fn": 4, "args": {"config": {"n": 400, "circular": False, "genes": [],
                                                             "protos": [(0, [(100, 200, 1)], [(110, 120, 1)], 0),
                                                                        (1, [(100, 200, 1)], [(170, 180, 1)], 0),
                                                                        (2, [(150, 300, 1)], [(250, 260, 1)], 2)]},
                                                  "order": [0, 1, 2]}}
WITNESSES = [WITNESS_UNIQUE, WITNESS_SINGLES, WITNESS_SAME_PRODUCT, WITNESS_UNIQUE_CORE, WITNESS_SINGLES_SAME_PRODUCT]


def formation_ties(config):
    extents = [tuple((part[0], part[1]) for part in e) for _p, e, _c, _q in config["protos"]]
    return len(set(extents)) != len(extents)


def decode_cands(out):
    """ encoded candidate list -> list of (kind, members, location) """
    if not out or out[0] != 0:
        return None
    cands, pos = [], 2
    for _ in range(out[1]):
        kind, nmem = out[pos], out[pos + 1]
        members = tuple(out[pos + 2:pos + 2 + nmem])
        pos += 2 + nmem
        nparts = out[pos]
        loc = tuple(out[pos + 1:pos + 1 + 3 * nparts])
        pos += 1 + 3 * nparts
        cands.append((kind, members, loc))
    return cands


def coords(loc):
    return [(loc[i], loc[i + 1]) for i in range(0, len(loc), 3)]


def only_tied_singles_moved(a, b):
    """ two encoded candidate lists differ only by the order of SINGLE candidates with identical locations """
    ca, cb = decode_cands(a), decode_cands(b)
    if ca is None or cb is None or len(ca) != len(cb):
        return False
    for x, y in zip(ca, cb):
        if x == y:
            continue
        if not (x[0] == 0 and y[0] == 0 and coords(x[2]) == coords(y[2])):
            return False
    return sorted(ca) == sorted(cb)


RULE = ("every case runs in child processes with PYTHONHASHSEED = 0..5 (quick) / 0..19 (thorough), each child also creating "
        "the objects that land in identity-hashed sets in its own permuted order between random allocations (other addresses "
        "= other set order); inputs rich in ties: refinement hits with equal starts / ends / scores / e-values and duplicated "
        "fragments (generator of C13 plus equal-start clones), linear records with 1-4 rules (names chosen so that string order "
        "differs from numeric and case order) and genes on both strands incl. pairs with identical coordinates and equal starts, "
        "gaps on the cutoff boundaries, run end to end (run_on_record, add_protocluster, create_candidate_clusters, "
        "create_regions, hmm_detection JSON, areas JSON, GenBank text); candidate formation on the C05 configurations (linear "
        "and circular without origin-crossing areas) with extra identical-coordinate protoclusters of different products, real "
        "identity-hashed Protocluster objects; regions built directly from candidate clusters (1-6 protoclusters, identical "
        "coordinates, equal starts, origin-crossing regions with bridging protoclusters); sets of rule/profile-like strings "
        "(prefixes, case, digits, empty); notes and qualifier keys in a per-child arrival order.  Per case: all children "
        "must agree (the property), each child's output must equal the model at the order that child observed, and fn 105 "
        "checks the documented order of get_unique_protoclusters.  non-trivial = the case contains a tie (two elements "
        "that the stage's sort key has to separate, or a duplicated element) or at least two elements in a hashed set; "
        "distinct by the flat encoding of the hash-seed-0 child")


def nontrivial(case, flat):
    fn, args = case["fn"], case["args"]
    if fn in (1, 2):
        starts = [(h[0], h[2]) for h in args["hits"]]
        return len(set(starts)) != len(starts)
    if fn == 3:
        return any(len([g for g in args["genes"] if i in args["hits"].get(g[0], ())]) >= 2 for i in range(len(args["rules"])))
    if fn == 4:
        return len(args["config"]["protos"]) >= 2
    if fn == 5:
        return len(args["protos"]) >= 2
    if fn == 6:
        return len(set(args["words"])) >= 2
    return len(args["notes"]) >= 2 or len(args["keys"]) >= 2


def run(chk):
    if not chk.build_and_audit():
        return chk.finish(RULE)
    rng = chk.rng
    counts, seeds = plan(chk.tier)
    known = known_classes()
    cases = list(WITNESSES)
    for fn, count in counts.items():
        for _ in range(count):
            cases.append({"fn": fn, "args": GENERATORS[fn](rng)})
    order = list(range(len(WITNESSES), len(cases)))
    rng.shuffle(order)          # spreads the expensive stages over the run
    cases = cases[:len(WITNESSES)] + [cases[i] for i in order]
    outs, failures = run_children(cases, seeds)
    for seed, log in failures:
        chk.violation("broken-correspondence", f"child process with PYTHONHASHSEED={seed} failed",
                      {"theorem_or_correspondence": "multi-seed run", "log": log})
    seeds = [s for s in seeds if s in outs]
    if len(seeds) < 2:
        chk.violation("broken-correspondence", "fewer than two child processes finished", {"theorem_or_correspondence": "multi-seed run"})
        return chk.finish(RULE)
    chk.extra["hash_seeds"] = seeds
    flat_cases, impl_outs, origin = [], [], []
    reproduced = set()
    for idx, case in enumerate(cases):
        fn = case["fn"]
        per_seed = [outs[s][idx] for s in seeds]
        chk.count(FN_NAME[fn])
        for res in per_seed:
            for key, value in res["extra"].items():
                if key in ("harness_error", "construction_failed", "call_failed", "error", "skipped"):
                    chk.count(f"fn{fn}_{key}_{str(value)[:60]}")
        if any("harness_error" in res["extra"] for res in per_seed):
            chk.violation("broken-correspondence", f"the harness adapter failed on a case of fn {fn}",
                          {"theorem_or_correspondence": FN_NAME[fn], "input": case,
                           "errors": [res["extra"].get("harness_error") for res in per_seed]})
            continue
        # ---- (a) the property: all children agree
        base = per_seed[0]
        first_flat = base["pairs"][0][0] if base["pairs"] else [PROP, fn]
        chk.note_case(first_flat, nontrivial(case, first_flat),
                      {"function": FN_NAME[fn], "input": case["args"], "hash_seeds": seeds,
                       "implementation_seed0": [p[1] for p in base["pairs"]][:2]})
        for seed, res in zip(seeds[1:], per_seed[1:]):
            outputs_a = [p[1] for p in base["pairs"]]
            outputs_b = [p[1] for p in res["pairs"]]
            dumps_a = {k: v for k, v in base["extra"].items() if not k.startswith("_") and k != "crossing"}
            dumps_b = {k: v for k, v in res["extra"].items() if not k.startswith("_") and k != "crossing"}
            if outputs_a == outputs_b and dumps_a == dumps_b:
                continue
            differing = [k for k in sorted(set(dumps_a) | set(dumps_b)) if dumps_a.get(k) != dumps_b.get(k)]
            klass = None
            if fn == 5 and not base["extra"].get("crossing") \
                    and len({(spec[0], spec[1]) for spec in case["args"]["protos"]}) != len(case["args"]["protos"]):
                klass = "unique_protoclusters_set_order"
            elif fn == 4 and formation_ties(case["args"]["config"]) and len(outputs_a) == len(outputs_b) == 1 \
                    and only_tied_singles_moved(outputs_a[0], outputs_b[0]):
                klass = "single_candidates_set_order"
            elif fn == 3 and outputs_a == outputs_b:
                tied_u = base["extra"].get("_class_unique_tied") or res["extra"].get("_class_unique_tied")
                tied_s = base["extra"].get("_class_singles_tied") or res["extra"].get("_class_singles_tied")
                if differing == ["areas_json"] and tied_u and not tied_s:
                    klass = "unique_protoclusters_set_order"
                elif tied_s and set(differing) <= {"areas_json", "candidates", "regions", "genbank"}:
                    klass = "single_candidates_set_order"
                elif (base["extra"].get("_class_same_product_tied") or res["extra"].get("_class_same_product_tied")) \
                        and set(differing) <= {"areas_json", "candidates", "regions", "genbank"}:
                    klass = "same_product_equal_coordinates_member_order"
            if klass and klass in known:
                chk.count(f"differs_across_seeds_in_known_class_{klass}")
                reproduced.add(klass)
                break
            chk.violation("counterexample",
                          f"{FN_NAME[fn]}: results differ between PYTHONHASHSEED/layout {seeds[0]} and {seed}"
                          + (f" (class {klass}, not recorded as known)" if klass else ""),
                          {"theorem_or_correspondence": "C17 same input, same output / " + FN_NAME[fn], "function": fn,
                           "input": case, "hash_seeds": [seeds[0], seed], "differing_dumps": differing,
                           "output_a": outputs_a[:3], "output_b": outputs_b[:3],
                           "dump_a": {k: dumps_a.get(k) for k in differing[:3]}, "dump_b": {k: dumps_b.get(k) for k in differing[:3]},
                           "flat": first_flat, "finding_class": klass})
            break
        # ---- (b) correspondence material: every child's (observed order, output)
        for seed, res in zip(seeds, per_seed):
            for flat, out in res["pairs"]:
                flat_cases.append(flat)
                impl_outs.append(out)
                origin.append((idx, seed))
    # ---- model vs implementation
    model_outs = common.run_driver(flat_cases)
    chk.extra["correspondence_evaluations"] = len(flat_cases)
    disagreements = 0
    membership = 0
    spec_cases, spec_origin = [], []
    for i, (flat, out, model) in enumerate(zip(flat_cases, impl_outs, model_outs)):
        idx, seed = origin[i]
        fn = flat[1]
        if fn == 5:
            spec_cases.append([PROP, 105] + flat[2:] + out)
            spec_origin.append(i)
        if fn == 3 and out and out[0] == -1:
            chk.count("fn3_pipeline_error_" + common.ERR_NAME.get(out[1], str(out[1])))
        if model == out:
            continue
        if fn == 4 and formation_ties(cases[idx]["args"]["config"]) and only_tied_singles_moved(out, model):
            # class single_candidates_set_order (repaired: the loop iterates _ordered(set(unassigned)), in the model as in
            # the code); tolerated only if the class is recorded as known again
            membership += 1
            if "single_candidates_set_order" in known:
                continue
        disagreements += 1
        if disagreements <= 3:
            chk.violation("broken-correspondence", f"model and implementation differ on {FN_NAME.get(fn, fn)} (hash seed {seed})",
                          {"theorem_or_correspondence": "model vs implementation / " + FN_NAME.get(fn, str(fn)), "function": fn,
                           "flat": flat, "implementation": out, "model": model, "input": cases[idx], "hash_seed": seed})
    chk.extra["disagreements"] = disagreements
    chk.extra["formation_agree_modulo_tied_single_order"] = membership
    # ---- (c) documented order of get_unique_protoclusters
    for i, verdict in zip(spec_origin, common.run_driver(spec_cases)):
        idx, seed = origin[i]
        if verdict and verdict[0] == 1:
            continue
        guard = len(verdict) > 1 and verdict[1] == 1
        if not guard and "unique_protoclusters_set_order" in known:
            chk.count("get_unique_protoclusters_not_in_documented_order_known_class")
            reproduced.add("unique_protoclusters_set_order")
            continue
        chk.violation("counterexample", "Region.get_unique_protoclusters is not in the documented order (start, -size, product)"
                      + ("" if guard else " (class unique_protoclusters_set_order, not recorded as known)"),
                      {"theorem_or_correspondence": "C17_unique_linear_perm / Region.get_unique_protoclusters", "function": 5,
                       "flat": flat_cases[i], "implementation": impl_outs[i], "input": cases[idx], "hash_seed": seed,
                       "spec_verdict_on_implementation_output": verdict})
    for klass in sorted(reproduced):
        chk.known(KNOWN_TEXT[klass])
    if os.environ.get("C17_DEBUG"):
        with open(os.environ["C17_DEBUG"], "w") as handle:
            json.dump([(k, w, r) for k, w, r in chk.violations], handle, indent=1, default=str)
    sample = [i for i, c in enumerate(flat_cases) if len(c) < 400]
    chk.crosscheck_vm([flat_cases[i] for i in sample], [model_outs[i] for i in sample])
    return chk.finish(RULE, trusted_extra=(
        "the interpreter's choice of set order is not modelled: the children sample it (hash seeds, permuted creation "
        "order), the theorems quantify over all orders",
        "Biopython (SeqIO GenBank writer), orjson: exercised by the end-to-end dumps only"), level="proof")


def replay(chk, path):
    doc = json.load(open(path))
    if "flat" in doc:
        print("model:", common.run_driver([doc["flat"]])[0], "recorded implementation:", doc.get("implementation"))
    if "input" in doc and isinstance(doc["input"], dict) and "fn" in doc["input"]:
        seeds = doc.get("hash_seeds") or [0, 1, 2, 3, 4, 5]
        outs, failures = run_children([doc["input"]], seeds)
        for seed in seeds:
            if seed in outs:
                print(f"PYTHONHASHSEED/layout {seed}:", [p[1] for p in outs[seed][0]["pairs"]][:3],
                      {k: hashlib.sha1(str(v).encode()).hexdigest()[:10] for k, v in outs[seed][0]["extra"].items()})
        print("failures:", failures)
    return 0


if __name__ == "__main__":
    if len(sys.argv) >= 5 and sys.argv[1] == "child":
        sys.exit(child_main(sys.argv[2], sys.argv[3], int(sys.argv[4])))
