"""Shared machinery of the /verif checks: build of the Coq development and of the extracted
driver, theorem audit (Print Assumptions), evaluation of the model (extracted OCaml driver and,
on a sample, vm_compute inside Coq), the decision rule, evidence and replay files."""
import fcntl
import hashlib
import json
import os
import random
import re
import shutil
import signal
import subprocess
import sys
import tempfile
import time

VERIF = os.path.dirname(os.path.dirname(os.path.abspath(__file__)))
REPO = os.environ.get("VERIF_REPO", "/repo")
COQ = os.path.join(VERIF, "coq")
OCAML = os.path.join(VERIF, "ocaml")
DRIVER = os.path.join(OCAML, "driver")
PYTHON = "/venv/bin/python"
GUARD = "ANTISMASH_VERIF"

PROP_NUM = {f"C{i:02d}": i for i in range(1, 21)}

ERR = {"ValueError": 1, "AssertionError": 2, "IndexError": 3, "KeyError": 4, "TypeError": 5,
       "RuleSyntaxError": 6, "SecmetInvalidInputError": 7, "IncompatibleComponentError": 8,
       "RuntimeError": 9, "AttributeError": 10, "Timeout": 11}
ERR_NAME = {v: k for k, v in ERR.items()}

FORBIDDEN = re.compile(r"\b(Admitted|admit|Axiom|Axioms|Parameter|Parameters|Conjecture|Hypothesis|Variable"
                       r"|Unset\s+Guard|bypass_check|type-in-type|impredicative-set|Admit\s+Obligations)\b")


def err_code(exc):
    """ maps an exception to the small enum of the flat encoding """
    for cls in type(exc).__mro__:
        if cls.__name__ in ERR:
            return ERR[cls.__name__]
    return 99


class Timeout(Exception):
    pass


def _alarm(_sig, _frm):
    raise Timeout()


def call_with_timeout(fn, seconds=5):
    """ runs fn() under SIGALRM; a call that does not return is the result error Timeout """
    old = signal.signal(signal.SIGALRM, _alarm)
    signal.alarm(seconds)
    try:
        return fn()
    finally:
        signal.alarm(0)
        signal.signal(signal.SIGALRM, old)


def setup_repo_path():
    """ makes the implementation importable, silently and without writing into /repo """
    sys.dont_write_bytecode = True
    os.environ["PYTHONDONTWRITEBYTECODE"] = "1"
    os.environ[GUARD] = "1"
    if REPO not in sys.path:
        sys.path.insert(0, REPO)
    import logging
    logging.disable(logging.CRITICAL)


# ---------------------------------------------------------------- build

def sh(cmd, cwd=None, timeout=1800, env=None):
    proc = subprocess.run(cmd, shell=True, cwd=cwd, stdout=subprocess.PIPE, stderr=subprocess.STDOUT,
                          timeout=timeout, env=env, text=True)
    return proc.returncode, proc.stdout


class BuildError(Exception):
    def __init__(self, what, log):
        super().__init__(what)
        self.what = what
        self.log = log


def regenerate_tables():
    """ regenerates coq/Gen/Tables_gen.v from the current source; only rewrites on change """
    sys.path.insert(0, os.path.join(VERIF, "translator"))
    import tables  # type: ignore
    text, digest_info = tables.generate(REPO)
    path = os.path.join(COQ, "Gen", "Tables_gen.v")
    old = open(path).read() if os.path.exists(path) else None
    if old != text:
        with open(path, "w") as handle:
            handle.write(text)
    return digest_info


def regenerate_kernels():
    """ regenerates coq/Gen/K_<group>_gen.v from the current source; only rewrites on change.
        Returns {kernel name: {source, status, sha | reason, group}} """
    sys.path.insert(0, os.path.join(VERIF, "translator"))
    import kernels  # type: ignore
    import kernels_defs  # type: ignore
    groups = kernels_defs.groups()
    out = kernels.generate(REPO, groups, {g: kernels_defs.TYPES for g in groups}, kernels_defs.HEADERS)
    info = {}
    for group, (text, kinfo) in out.items():
        path = os.path.join(COQ, "Gen", f"K_{group}_gen.v")
        old = open(path).read() if os.path.exists(path) else None
        if old != text:
            with open(path, "w") as handle:
                handle.write(text)
        for name, entry in kinfo.items():
            info[name] = dict(entry, group=group)
    return info


def tie_groups(prop):
    sys.path.insert(0, os.path.join(VERIF, "translator"))
    import kernels_defs  # type: ignore
    return [g for g, props in kernels_defs.PROPS.items() if prop in props]


KERNEL_INFO = {}


def build(jobs=16, prop=None):
    """ tables + full .vo build + extraction + driver, under an exclusive lock.
        Returns (checker_cmd, tables_info).  Raises BuildError. """
    os.makedirs(os.path.join(COQ, "Gen"), exist_ok=True)
    lock = open(os.path.join(COQ, ".lock"), "w")
    fcntl.flock(lock, fcntl.LOCK_EX)
    try:
        try:
            info = regenerate_tables()
        except Exception as exc:  # fail closed: a table that can no longer be read is a broken tie
            raise BuildError("table regeneration from source failed", repr(exc))
        KERNEL_INFO.clear()
        KERNEL_INFO.update(regenerate_kernels())   # fails closed per kernel: see translator/kernels.py
        cmds = []
        if not os.path.exists(os.path.join(COQ, "Makefile")) or \
                os.path.getmtime(os.path.join(COQ, "Makefile")) < os.path.getmtime(os.path.join(COQ, "_CoqProject")):
            cmd = "coq_makefile -f _CoqProject -o Makefile"
            code, out = sh(cmd, cwd=COQ)
            cmds.append(cmd)
            if code:
                raise BuildError("coq_makefile failed", out)
        # -k: a file of ANOTHER property (or a tie file, judged separately) that no longer compiles must not stop this one
        cmd = f"timeout 1500 make -k -j{jobs}"
        code, out = sh(cmd, cwd=COQ)
        cmds.append(cmd)
        if code:
            needed = ["Extract.vo"] + ([f"{prop}/Theorems.vo"] if prop else [])
            code2, out2 = sh(f"timeout 1500 make -j{jobs} " + " ".join(needed), cwd=COQ)
            if code2 or not prop:
                raise BuildError("coq build failed (a proof obligation or the model no longer checks)",
                                 (out2 if prop else out)[-6000:])
        model = os.path.join(OCAML, "model.ml")
        if not os.path.exists(model):
            raise BuildError("extraction produced no model.ml", out[-2000:])
        newest = max(os.path.getmtime(os.path.join(OCAML, f)) for f in ("model.ml", "driver.ml"))
        if not os.path.exists(DRIVER) or os.path.getmtime(DRIVER) < newest:
            cmd = "ocamlfind ocamlopt -O3 -w -a model.mli model.ml driver.ml -o driver"
            code, out = sh(cmd.replace("-O3 ", ""), cwd=OCAML)
            cmds.append(cmd.replace("-O3 ", ""))
            if code:
                raise BuildError("ocaml driver build failed", out[-3000:])
        return "cd coq && " + " && ".join(cmds), info
    finally:
        fcntl.flock(lock, fcntl.LOCK_UN)
        lock.close()


def grep_forbidden():
    """ no Admitted/admit/Axiom/... anywhere in the development """
    bad = []
    for root, _dirs, files in os.walk(COQ):
        for name in files:
            if not name.endswith(".v"):
                continue
            path = os.path.join(root, name)
            text = open(path).read()
            text = re.sub(r"\(\*.*?\*\)", "", text, flags=re.S)
            for match in FORBIDDEN.finditer(text):
                # Section-local Variable/Hypothesis are allowed only inside a Section
                word = match.group(1)
                if word in ("Variable", "Hypothesis"):
                    before = text[:match.start()]
                    if len(re.findall(r"^\s*Section\s", before, flags=re.M)) > len(re.findall(r"^\s*End\s", before, flags=re.M)):
                        continue
                bad.append(f"{os.path.relpath(path, VERIF)}: {word}")
    return bad


ALLOWED_AXIOMS = ()  # the target is "Closed under the global context" everywhere


def audit_theorems(prop):
    """ recompiles coq/<prop>/Theorems.v and reads every Print Assumptions.
        Returns dict(obligations, discharged, theorems=[(name, closed, axioms)], cmd, log) """
    rel = f"{prop}/Theorems.v"
    path = os.path.join(COQ, rel)
    text = open(path).read()
    names = re.findall(r"^\s*(?:Theorem|Example)\s+([A-Za-z0-9_']+)", text, flags=re.M)
    theorem_names = re.findall(r"^\s*Theorem\s+([A-Za-z0-9_']+)", text, flags=re.M)
    cmd = f"timeout 900 coqc -Q . ASV -w -notation-overridden {rel}"
    code, out = sh(cmd, cwd=COQ)
    result = {"cmd": "cd coq && " + cmd, "obligations": len(theorem_names), "discharged": 0,
              "theorems": [], "log": out[-4000:], "ok": code == 0}
    if code:
        return result
    printed = re.findall(r"^\s*Print Assumptions\s+([A-Za-z0-9_']+)", text, flags=re.M)
    # output is a sequence of blocks, one per Print Assumptions, in order
    blocks = re.split(r"(?=Closed under the global context|Axioms:)", out)
    blocks = [b for b in blocks if b.startswith("Closed under") or b.startswith("Axioms:")]
    status = {}
    for name, block in zip(printed, blocks):
        if block.startswith("Closed under"):
            status[name] = (True, [])
        else:
            axioms = re.findall(r"^([A-Za-z0-9_.']+)\s*:", block[len("Axioms:"):], flags=re.M)
            status[name] = (all(a in ALLOWED_AXIOMS for a in axioms), axioms)
    for name in theorem_names:
        closed, axioms = status.get(name, (False, ["<no Print Assumptions>"]))
        result["theorems"].append({"name": name, "closed": closed, "axioms": axioms})
        if closed:
            result["discharged"] += 1
    result["examples"] = [n for n in names if n not in theorem_names]
    if len(printed) != len(blocks):
        result["ok"] = False
    return result


# ---------------------------------------------------------------- running the model

def run_driver(cases, procs=16):
    """ evaluates the extracted model on every case (list of ints) -> list of list of ints """
    if not cases:
        return []
    procs = max(1, min(procs, len(cases) // 200 + 1))
    chunk = (len(cases) + procs - 1) // procs
    jobs = []
    for i in range(0, len(cases), chunk):
        text = "\n".join(" ".join(map(str, c)) for c in cases[i:i + chunk]) + "\n"
        proc = subprocess.Popen([DRIVER], stdin=subprocess.PIPE, stdout=subprocess.PIPE, text=True)
        jobs.append((proc, text))
    outs = []
    # feed in threads to avoid pipe deadlocks
    import threading
    results = [None] * len(jobs)

    def work(idx, proc, text):
        results[idx] = proc.communicate(text)[0]
    threads = [threading.Thread(target=work, args=(i, p, t)) for i, (p, t) in enumerate(jobs)]
    for t in threads:
        t.start()
    for t in threads:
        t.join()
    for (proc, _), out in zip(jobs, results):
        if proc.returncode != 0:
            raise BuildError("extracted driver crashed", (out or "")[-2000:])
        for line in out.splitlines():
            outs.append([int(x) for x in line.split()])
    if len(outs) != len(cases):
        raise BuildError("extracted driver returned a different number of results", f"{len(outs)} != {len(cases)}")
    return outs


def run_vm_compute(cases):
    """ evaluates the same `run` inside Coq with vm_compute (checks extraction + driver glue) """
    if not cases:
        return []
    tmp = tempfile.mkdtemp(prefix="asv_vm_")
    try:
        path = os.path.join(tmp, "cases.v")
        with open(path, "w") as handle:
            handle.write("From ASV Require Import Run.\nFrom Coq Require Import ZArith List.\nImport ListNotations.\n"
                         "Open Scope Z_scope.\nDefinition cases : list (list Z) := [\n")
            handle.write(";\n".join("[" + "; ".join(f"({x})" if x < 0 else str(x) for x in c) + "]" for c in cases))
            handle.write("].\nEval vm_compute in map run cases.\n")
        code, out = sh(f"ulimit -s unlimited; timeout 600 coqc -Q {COQ} ASV -w -notation-overridden {path}", cwd=tmp)
        if code:
            raise BuildError("vm_compute evaluation failed", out[-3000:])
        body = out[out.index("=") + 1:out.rindex(": list (list Z)")]
        body = body.replace(";", ",").replace("%Z", "")
        return json.loads(re.sub(r"\s+", " ", body))
    finally:
        shutil.rmtree(tmp, ignore_errors=True)


# ---------------------------------------------------------------- known findings

def load_known_findings(prop):
    path = os.path.join(VERIF, "known_findings.json")
    if not os.path.exists(path):
        return []
    data = json.load(open(path))
    return [f for f in data.get("findings", []) if f["property"] == prop]


# ---------------------------------------------------------------- the check context

class Check:
    """ one run of one property's check """
    def __init__(self, prop, tier, seed, level_text=""):
        self.prop = prop
        self.num = PROP_NUM[prop]
        self.tier = tier
        self.seed = seed
        self.rng = random.Random(seed)
        self.t0 = time.time()
        self.evaluations = 0
        self.nontrivial = set()
        self.samples = []
        self.violations = []      # (kind, description, replay dict)
        self.known_lines = []
        self.histogram = {}
        self.extra = {}
        self.assumptions = []
        self.audit = None
        self.checker_cmd = ""
        self.tables_info = None
        self.vm_checked = 0
        self.corr_functions = {}

    # -- bookkeeping
    def count(self, key, n=1):
        self.histogram[key] = self.histogram.get(key, 0) + n

    def note_case(self, flat, nontrivial, sample=None):
        self.evaluations += 1
        if nontrivial:
            self.nontrivial.add(hashlib.md5(repr(flat).encode()).digest()[:8])
        if sample is not None and len(self.samples) < 6:
            self.samples.append(sample)

    def violation(self, kind, what, replay):
        """ kind: counterexample | broken-obligation | broken-correspondence """
        self.violations.append((kind, what, replay))

    def known(self, what):
        if what not in self.known_lines:
            self.known_lines.append(what)

    # -- standard steps
    def build_and_audit(self):
        try:
            self.checker_cmd, self.tables_info = build(prop=self.prop)
        except BuildError as exc:
            self.violation("broken-obligation", exc.what, {"theorem_or_correspondence": "coq build", "log": exc.log})
            return False
        bad = grep_forbidden()
        if bad:
            self.violation("broken-obligation", "forbidden vernacular in the development", {"found": bad})
            return False
        self.check_ties()
        self.audit = audit_theorems(self.prop)
        self.checker_cmd += " ; " + self.audit["cmd"]
        if not self.audit["ok"]:
            self.violation("broken-obligation", f"{self.prop}/Theorems.v no longer compiles",
                           {"theorem_or_correspondence": f"{self.prop}/Theorems.v", "log": self.audit["log"]})
            return False
        for thm in self.audit["theorems"]:
            if not thm["closed"]:
                self.violation("broken-obligation", f"theorem {thm['name']} depends on axioms {thm['axioms']}",
                               {"theorem_or_correspondence": thm["name"], "axioms": thm["axioms"]})
        return True

    def check_ties(self):
        """ the tie lemmas between this property's model and the kernels regenerated from the current source
            (coq/Tie/Tie_<group>.v over coq/Gen/K_<group>_gen.v).  A tie that no longer checks is a broken
            obligation; the model itself still builds, so the search for a failing input goes on. """
        groups = tie_groups(self.prop)
        mine = {k: v for k, v in KERNEL_INFO.items() if v["group"] in groups}
        report = {"groups": groups, "kernels": mine, "ties_checked": [], "ties_broken": []}
        self.extra["regenerated_kernels"] = report
        import kernels_defs  # type: ignore
        for group, tie in [(g, t) for g in groups for t in kernels_defs.TIE_FILES.get((g, self.prop), [f"Tie_{g}"])]:
            cmd = f"timeout 900 make Tie/{tie}.vo"
            code, out = sh(cmd, cwd=COQ)
            self.checker_cmd += " ; " + cmd
            if code == 0:
                report["ties_checked"].append(f"Tie/{tie}.v")
                continue
            report["ties_broken"].append(f"Tie/{tie}.v")
            gone = [f"{k} ({v['source']}: {v.get('reason', '')})" for k, v in mine.items()
                    if v["group"] == group and v["status"] != "translated"]
            what = (f"tie between the model and the source no longer checks: Tie/{tie}.v over the kernels "
                    f"regenerated from /repo" + (f"; not translatable any more: {'; '.join(gone)}" if gone else ""))
            self.violation("broken-obligation", what,
                           {"theorem_or_correspondence": f"Tie/{tie}.v", "log": out[-3000:],
                            "kernels": {k: v for k, v in mine.items() if v["group"] == group}})

    def crosscheck_vm(self, cases, outs, k=None):
        """ a sample of the driver's answers is recomputed inside Coq by vm_compute """
        if not cases:
            return
        k = k or (200 if self.tier == "quick" else 1500)
        idx = list(range(len(cases)))
        random.Random(self.seed + 1).shuffle(idx)
        idx = sorted(idx[:k])
        # keep the literal small: skip very long cases
        idx = [i for i in idx if len(cases[i]) < 4000][:k]
        try:
            vm = run_vm_compute([cases[i] for i in idx])
        except BuildError as exc:
            self.violation("broken-correspondence", "vm_compute cross-check could not run: " + exc.what,
                           {"theorem_or_correspondence": "extraction vs vm_compute", "log": exc.log})
            return
        for i, res in zip(idx, vm):
            if res != outs[i]:
                self.violation("broken-correspondence", "extracted driver and vm_compute disagree",
                               {"theorem_or_correspondence": "extraction vs vm_compute", "flat": cases[i],
                                "driver": outs[i], "vm_compute": res})
                break
        self.vm_checked += len(idx)

    # -- finishing
    def finish(self, rule, trusted_extra=(), level="proof"):
        wall = time.time() - self.t0
        os.makedirs(os.path.join(VERIF, "evidence"), exist_ok=True)
        os.makedirs(os.path.join(VERIF, "replays"), exist_ok=True)
        audit = self.audit or {"obligations": 0, "discharged": 0, "theorems": []}
        trusted = [
            "Coq 8.16.1 kernel (coqc, full .vo build); vm_compute used in proofs over finite generated tables and in the evaluator cross-check; native_compute not used",
            "axioms per theorem as reported by Print Assumptions: " + "; ".join(
                f"{t['name']}: {'closed under the global context' if not t['axioms'] else ', '.join(t['axioms'])}"
                for t in audit["theorems"]),
            "extraction with ExtrOcamlBasic directives only (Z, positive, nat stay extracted inductives), OCaml 4.13.1, ocaml/driver.ml; cross-checked against vm_compute on a sample each run",
            "translator/tables.py (constant tables regenerated from /repo on every run)",
            "translator/kernels.py + kernels_defs.py (arithmetic / decision kernels regenerated from /repo on every run into coq/Gen/K_*_gen.v; the attribute and call tables of kernels_defs.py, the rational reading of float comparisons and the textual pins of skipped statements are trusted; the tie lemmas coq/Tie/Tie_*.v are checked by the kernel)",
            "hand-written Gallina models of the anchored Python functions, tied to /repo by the correspondence run of this check (harness/*.py: generators, adapters, canonicalisers)",
        ] + list(trusted_extra)
        coverage = {
            "obligations": audit["obligations"],
            "discharged": audit["discharged"],
            "checker_cmd": self.checker_cmd or "none (build failed)",
            "trusted_base": trusted,
            "evaluations": self.evaluations,
            "distinct_nontrivial": len(self.nontrivial),
            "rule": rule,
            "samples": self.samples[:6] if self.samples else [{"note": "no case was generated (build failed)"}],
            "traces_validated_against_impl": self.evaluations,
            "exhaustive": False,
            "theorems": audit["theorems"],
            "examples_non_vacuity": audit.get("examples", []),
            "vm_compute_crosschecked": self.vm_checked,
            "histogram": self.histogram,
            "tables": self.tables_info,
            "known_findings_reproduced": self.known_lines,
        }
        coverage.update(self.extra)
        evidence = {
            "property_id": self.prop, "tier": self.tier, "seed": self.seed, "level": level,
            "coverage": coverage, "assumptions": self.assumptions, "wall_s": round(wall, 2),
            "violations": len(self.violations),
        }
        # a run against a scratch worktree (VERIF_REPO, used for seeded changes) does not describe /repo: its evidence
        # goes next to the replays, evidence/<id>.json always describes the last run on /repo itself
        ev_dir = "evidence" if REPO == "/repo" else os.path.join("replays", "scratch_evidence")
        os.makedirs(os.path.join(VERIF, ev_dir), exist_ok=True)
        with open(os.path.join(VERIF, ev_dir, f"{self.prop}.json"), "w") as handle:
            json.dump(evidence, handle, indent=1, default=str)
        for line in self.known_lines:
            print(f"KNOWN-FINDING: property={self.prop} {line}")
        if not self.violations:
            print(f"OK property={self.prop} tier={self.tier} seed={self.seed} evaluations={self.evaluations} "
                  f"theorems={audit['discharged']}/{audit['obligations']} wall={wall:.1f}s")
            return 0
        # one replay file per run; counterexamples first
        order = {"counterexample": 0, "broken-correspondence": 1, "broken-obligation": 2}
        self.violations.sort(key=lambda v: order.get(v[0], 3))
        kind, what, replay = self.violations[0]
        path = os.path.join(VERIF, "replays", f"{self.prop}-{self.seed}.json")
        doc = {"property": self.prop, "tier": self.tier, "seed": self.seed, "kind": kind, "what": what,
               "replay": f"./check {self.prop} --replay replays/{self.prop}-{self.seed}.json",
               "others": [{"kind": k, "what": w} for k, w, _ in self.violations[1:20]]}
        doc.update(replay)
        with open(path, "w") as handle:
            json.dump(doc, handle, indent=1, default=str)
        has_input = any(k == "counterexample" for k, _, _ in self.violations)
        suffix = "" if has_input else " no-failing-input-found"
        print(f"# {kind}: {what}")
        print(f"VIOLATION property={self.prop} replay={path}{suffix}")
        return 1


# ---------------------------------------------------------------- generic correspondence step

def correspondence(chk, cases, impl_outs, spec_fn_offset=None, describe=None, label="model vs implementation"):
    """ cases: list of flat int lists ([prop, fn, payload...]); impl_outs: the implementation's encoded
        outputs.  Runs the extracted model, compares, and on a disagreement evaluates the decidable
        specification (function id + spec_fn_offset, payload + implementation output) to look for a
        concrete input on which the property fails.  Returns the model outputs. """
    model_outs = run_driver(cases)
    bad = [i for i, (m, o) in enumerate(zip(model_outs, impl_outs)) if m != o]
    chk.extra.setdefault("disagreements", 0)
    chk.extra["disagreements"] += len(bad)
    if bad:
        # smallest disagreeing cases first: they make the best replay
        bad.sort(key=lambda i: len(cases[i]))
        shown = bad[:50]
        verdicts = {}
        if spec_fn_offset is not None:
            spec_cases = [[cases[i][0], cases[i][1] + spec_fn_offset] + cases[i][2:] + impl_outs[i] for i in shown]
            for i, verdict in zip(shown, run_driver(spec_cases)):
                verdicts[i] = verdict
        failing = [i for i in shown if verdicts.get(i) and verdicts[i][0] == 0]
        first = failing[0] if failing else shown[0]
        replay = {"theorem_or_correspondence": label, "function": cases[first][1], "flat": cases[first],
                  "implementation": impl_outs[first], "model": model_outs[first],
                  "input": describe(cases[first]) if describe else None,
                  "spec_verdict_on_implementation_output": verdicts.get(first),
                  "disagreeing_cases": len(bad)}
        if failing:
            chk.violation("counterexample", f"{label}: implementation output violates the specification "
                          f"(fn {cases[first][1]})", replay)
        else:
            chk.violation("broken-correspondence", f"{label}: {len(bad)} case(s) differ (first fn {cases[first][1]})",
                          replay)
    return model_outs
